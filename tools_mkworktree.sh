#!/bin/bash
# usage: tools_mkworktree.sh <name>   creates /tmp/seed/<name>: detached worktree of /repo HEAD with the compiled extensions copied in
set -e
d=/tmp/seed/$1
mkdir -p /tmp/seed
[ -d $d ] && { echo "$d exists"; exit 0; }
git -C /repo worktree add --detach $d HEAD >/dev/null 2>&1
(cd /repo && find atomman -name "*.so") | while read f; do cp /repo/$f $d/$f; done
echo $d
