#!/bin/bash
# usage: tools_benign_eval.sh [tier] [id ...]   applies each /verif/seeded_benign/<id>/patch.diff (a behaviour-preserving rewrite) to /repo,
# runs ./check <property>, reverts.  Expected: rc=0 (no VIOLATION, no ANALYSIS-ERROR).
tier=${1:-quick}; shift
ids=${@:-$(ls /verif/seeded_benign)}
cd /verif
for n in $ids; do
  d=/verif/seeded_benign/$n
  [ -f $d/patch.diff ] || continue
  if ! git -C /repo diff --quiet; then echo "REPO DIRTY, abort"; exit 3; fi
  if ! git -C /repo apply --check $d/patch.diff 2>/dev/null; then echo "$n PATCH-DOES-NOT-APPLY"; continue; fi
  git -C /repo apply $d/patch.diff 2>/dev/null
  prop=$(/venv/bin/python -c "import json;print(json.load(open('$d/meta.json'))['property'])")
  out=$(./check $prop --tier $tier --no-selftest 2>&1); rc=$?
  git -C /repo checkout -- .
  echo "$n rc=$rc $(echo "$out" | grep -c '^VIOLATION') violation(s): $(echo "$out" | grep -v '^VIOLATION' | grep -v '^WARNING' | grep -v KNOWN-FINDING | head -1 | cut -c1-300)"
done
git -C /verif checkout -- evidence 2>/dev/null
