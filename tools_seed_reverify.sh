#!/bin/bash
# usage: tools_seed_reverify.sh [ids...]   re-confirms every stored seeded change against the current /repo HEAD in a scratch worktree (/tmp/seed/reverify):
#   demo on the clean tree exits 0; with patch.diff applied the pinned suite still passes and the demo exits non-zero.  Writes /verif/seeded/CONFIRM.log.
ids=${@:-$(ls /verif/seeded | grep '^C')}
wt=/tmp/seed/reverify
/verif/tools_mkworktree.sh reverify >/dev/null 2>&1
cd $wt || exit 1
out=/verif/seeded/CONFIRM.log
[ $# -eq 0 ] && : > $out
for n in $ids; do
  d=/verif/seeded/$n
  [ -f $d/patch.diff ] || continue
  rm -rf _seed; mkdir -p _seed; cp -r $d _seed/$n     # the demos import atomman from two directories above themselves
  git checkout -q -- atomman
  pyx=$(grep -c '^+++ .*\.pyx' $d/patch.diff)
  /venv/bin/python _seed/$n/demo.py >/dev/null 2>&1; c=$?
  if ! git apply $d/patch.diff 2>/dev/null; then echo "$n APPLY-FAILED" | tee -a $out; continue; fi
  [ "$pyx" != "0" ] && /venv/bin/python setup.py build_ext --inplace >/dev/null 2>&1
  t=$(/venv/bin/python -m pytest -q -p no:cacheprovider --timeout=900 2>&1 | grep -E "passed|failed" | tail -1 | sed 's/,[^,]*warnings.*//')
  /venv/bin/python _seed/$n/demo.py >/dev/null 2>&1; m=$?
  git checkout -q -- atomman
  [ "$pyx" != "0" ] && { /venv/bin/python setup.py build_ext --inplace >/dev/null 2>&1; rm -rf build; }
  echo "$n head=$(git rev-parse --short HEAD) clean_rc=$c patched_rc=$m tests='$t' pyx=$pyx" | tee -a $out
done
cd /; git -C /repo worktree remove --force $wt; git -C /repo worktree prune
