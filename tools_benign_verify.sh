#!/bin/bash
# usage: tools_benign_verify.sh <worktree-name>   verifies every /tmp/seed/<name>/_seed/*/ (behaviour-preserving rewrites):
#   demo passes on the clean tree; with the patch applied the pinned suite is unchanged and the demo still passes.
p=$1; wt=/tmp/seed/$p
cd $wt || exit 1
for d in _seed/*/; do
  n=$(basename $d)
  [ -f $d/patch.diff ] || continue
  git checkout -q -- atomman
  pyx=$(grep -c '^+++ .*\.pyx' $d/patch.diff)
  /venv/bin/python $d/demo.py >/tmp/seed/$n.clean.log 2>&1; c=$?
  git apply $d/patch.diff || { echo "$n APPLY-FAILED"; continue; }
  [ "$pyx" != "0" ] && /venv/bin/python setup.py build_ext --inplace >/dev/null 2>&1
  t=$(/venv/bin/python -m pytest -q -p no:cacheprovider --timeout=900 2>&1 | grep -E "passed|failed" | tail -1 | sed 's/,[^,]*warnings.*//')
  /venv/bin/python $d/demo.py >/tmp/seed/$n.mut.log 2>&1; m=$?
  git checkout -q -- atomman
  [ "$pyx" != "0" ] && { /venv/bin/python setup.py build_ext --inplace >/dev/null 2>&1; rm -rf build; }
  echo "$n clean_rc=$c patched_rc=$m tests='$t' pyx=$pyx lines=$(grep -c '^[+-][^+-]' $d/patch.diff)"
done
