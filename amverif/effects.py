"""E1: freshness / alias / mutation (ownership-effect analysis), intraprocedural with call summaries.

Abstract value of an expression: a set of origins, each a root name (a parameter, 'self', or a local bound to
storage) or FRESH.  The rules below are the ones numpy documents:
  fresh:   deepcopy(x), np.array(x), x.copy(), arithmetic, comparisons, numpy constructors and reductions,
           fancy indexing x[list | bool-mask | ndarray], literals, calls to unknown functions (unless listed)
  aliases: np.asarray(x) / np.asanyarray(x), x[int | slice | tuple of those | Ellipsis], x.T, x.reshape(..),
           x.view(), x.attr (for self: the attribute's storage), tuple/list packing, conditional expressions
A repository call maps to a summary given by the rule table: ('fresh',) or ('alias', argument positions/names).

mutation sites: stores to Subscript/Attribute of an aliasing expression, augmented assignment to a name bound to
an alias (ndarray += is in place), in-place methods (.sort(), .fill(), .resize(), .append(), .pop(), ...),
`x.shape = ...`, and calls to listed mutating callees with an aliasing receiver/argument.
"""
import ast

from .core import norm, walk_no_nested

FRESH = '<fresh>'
UNKNOWN = '<unknown>'

FRESH_CALLS = {'deepcopy', 'copy.deepcopy', 'np.array', 'numpy.array', 'np.copy', 'np.zeros', 'np.ones', 'np.empty', 'np.zeros_like', 'np.empty_like',
               'np.ones_like', 'np.full', 'np.arange', 'np.linspace', 'np.identity', 'np.eye', 'np.dot', 'np.inner', 'np.outer', 'np.cross', 'np.einsum',
               'np.hstack', 'np.vstack', 'np.concatenate', 'np.stack', 'np.unique', 'np.where', 'np.sum', 'np.abs', 'np.sqrt', 'np.floor', 'np.ceil',
               'np.isclose', 'np.allclose', 'np.linalg.inv', 'np.linalg.norm', 'np.linalg.solve', 'np.linalg.det', 'np.sort', 'np.argsort', 'np.tile',
               'np.repeat', 'np.round', 'np.mean', 'np.max', 'np.min', 'np.array_equal', 'np.cos', 'np.sin', 'np.arctan', 'np.arctan2', 'np.log',
               'list', 'tuple', 'dict', 'OrderedDict', 'set', 'sorted', 'range', 'len', 'int', 'float', 'str', 'bool', 'abs', 'sum', 'min', 'max',
               'np.full_like', 'np.meshgrid', 'np.broadcast_to_copy', 'np.digitize', 'np.triu', 'np.tril', 'np.diag', 'np.trace', 'np.prod', 'np.any', 'np.all',
               'np.lcm', 'np.gcd', 'np.lcm.reduce', 'np.gcd.reduce', 'np.sign', 'np.radians', 'np.degrees', 'np.arccos', 'np.arcsin', 'np.exp', 'np.tan',
               'isinstance', 'hasattr', 'getattr', 'zip', 'enumerate', 'np.empty_like', 'np.char.add'}
ALIAS_CALLS = {'np.asarray': 0, 'numpy.asarray': 0, 'np.asanyarray': 0, 'np.ascontiguousarray': 0, 'np.atleast_1d': 0, 'np.atleast_2d': 0,
               'np.squeeze': 0, 'np.ravel': 0, 'np.reshape': 0, 'np.transpose': 0, 'np.broadcast_to': 0}
ALIAS_METHODS = {'reshape', 'view', 'transpose', 'squeeze', 'ravel', 'swapaxes', 'values', 'items', 'keys'}
ALIAS_ATTRS = {'T', 'real', 'imag', 'flat'}
FRESH_METHODS = {'copy', 'tolist', 'astype', 'dot', 'sum', 'max', 'min', 'mean', 'flatten', 'all', 'any', 'round', 'prod', 'cumsum', 'argsort',
                 'nonzero', 'repeat', 'conj', 'conjugate', 'trace', 'std', 'var', 'clip', 'take', 'split', 'strip', 'format', 'join', 'index', 'count'}
INPLACE_METHODS = {'sort', 'fill', 'resize', 'append', 'extend', 'pop', 'insert', 'remove', 'clear', 'update', 'setdefault', 'reverse', 'put',
                   'itemset', 'setflags', 'popitem', '__setitem__', '__delitem__'}


def _is_basic_index(s, fancy_names=()):
    """True when subscripting with s yields a view (basic indexing)"""
    if isinstance(s, ast.Tuple):
        return all(_is_basic_index(e, fancy_names) for e in s.elts)
    if isinstance(s, ast.Slice):
        return True
    if isinstance(s, ast.Constant):
        return isinstance(s.value, int) or s.value is Ellipsis or s.value is None
    if isinstance(s, ast.UnaryOp) and isinstance(s.operand, ast.Constant):
        return True
    if isinstance(s, ast.Attribute) and norm(s) in ('np.newaxis', 'numpy.newaxis'):
        return True
    if isinstance(s, ast.Name):
        # a bare name index: integer loop variable (view) unless known to be a list/mask
        return s.id not in fancy_names
    if isinstance(s, ast.BinOp):
        return True   # i+1 etc.: integer arithmetic
    return False


class Effects:
    """Flow-insensitive may-alias sets per function (sufficient for the straight-line numeric code of this repo),
    with flow-sensitive *rebinding kill* for the common `x = deepcopy(x)` / `x = np.array(x)` copy-on-entry idiom."""

    def __init__(self, fn, summaries=None, self_attr_alias=True, fancy_hint=()):
        self.fn = fn
        self.summaries = summaries or {}
        a = fn.args
        self.params = [x.arg for x in a.posonlyargs + a.args + a.kwonlyargs]
        if a.vararg:
            self.params.append(a.vararg.arg)
        if a.kwarg:
            self.params.append(a.kwarg.arg)
        self.fancy_hint = set(fancy_hint)
        self.origin = {}          # local name -> set of origins (param names / FRESH)
        self.fancy = set(fancy_hint)   # names known to hold lists / masks / index arrays
        self._solve()

    # ------------------------------------------------------------ expression origins
    def origins(self, e, env=None):
        env = self.origin if env is None else env
        if e is None or isinstance(e, ast.Constant):
            return {FRESH}
        if isinstance(e, ast.Name):
            out = set(env.get(e.id, ()))
            if e.id in self.params:
                out.add(e.id)
            return out or {FRESH}   # globals / builtins: not storage of an operand
        if isinstance(e, (ast.BinOp, ast.UnaryOp, ast.Compare, ast.BoolOp, ast.JoinedStr, ast.ListComp, ast.GeneratorExp, ast.DictComp, ast.SetComp, ast.Lambda)):
            return {FRESH}
        if isinstance(e, ast.IfExp):
            return self.origins(e.body, env) | self.origins(e.orelse, env)
        if isinstance(e, (ast.Tuple, ast.List, ast.Set)):
            out = set()
            for x in e.elts:
                out |= self.origins(x, env)
            return out or {FRESH}
        if isinstance(e, ast.Dict):
            out = set()
            for x in e.values:
                out |= self.origins(x, env)
            return out or {FRESH}
        if isinstance(e, ast.Starred):
            return self.origins(e.value, env)
        if isinstance(e, ast.Attribute):
            if e.attr in ALIAS_ATTRS:
                return self.origins(e.value, env)
            base = self.origins(e.value, env)
            key = norm(e)
            if key in self.summaries:      # property summary, e.g. 'self.vects': ('fresh',)
                s = self.summaries[key]
                return {FRESH} if s[0] == 'fresh' else base
            meth = '.' + e.attr
            if meth in self.summaries:
                s = self.summaries[meth]
                return {FRESH} if s[0] == 'fresh' else base
            return base                    # attribute of an object: its storage belongs to the object
        if isinstance(e, ast.Subscript):
            base = self.origins(e.value, env)
            if _is_basic_index(e.slice, self.fancy):
                return base
            return {FRESH}                 # fancy indexing copies
        if isinstance(e, ast.Call):
            f = norm(e.func)
            if f in FRESH_CALLS or f.replace('numpy.', 'np.') in FRESH_CALLS:
                return {FRESH}
            if f in ALIAS_CALLS:
                return self.origins(e.args[0], env) if e.args else {FRESH}
            if f in self.summaries:
                return self._apply(self.summaries[f], e, env)
            if isinstance(e.func, ast.Attribute):
                m = e.func.attr
                if '.' + m in self.summaries:
                    s = self.summaries['.' + m]
                    if s[0] == 'fresh':
                        return {FRESH}
                    if s[0] == 'receiver':
                        return self.origins(e.func.value, env)
                    return self._apply(s, e, env)
                if m in FRESH_METHODS:
                    return {FRESH}
                if m in ALIAS_METHODS:
                    return self.origins(e.func.value, env)
            # unknown callee: result may hold any argument (conservative for mutation, i.e. may alias)
            out = set()
            for x in e.args:
                out |= self.origins(x, env)
            for k in e.keywords:
                out |= self.origins(k.value, env)
            if isinstance(e.func, ast.Attribute):
                out |= self.origins(e.func.value, env)
            out.discard(FRESH)
            return out | {UNKNOWN}
        return {UNKNOWN}

    def _apply(self, s, call, env):
        if s[0] == 'fresh':
            return {FRESH}
        if s[0] == 'alias':
            out = set()
            for ref in s[1]:
                if isinstance(ref, int) and ref < len(call.args):
                    out |= self.origins(call.args[ref], env)
                for k in call.keywords:
                    if k.arg == ref:
                        out |= self.origins(k.value, env)
            return out or {FRESH}
        return {UNKNOWN}

    # ------------------------------------------------------------ solve
    def _solve(self):
        # names that hold lists / masks (fancy indices)
        for s in walk_no_nested(self.fn):
            if isinstance(s, ast.Assign) and len(s.targets) == 1 and isinstance(s.targets[0], ast.Name):
                v = s.value
                if isinstance(v, (ast.List, ast.ListComp, ast.Compare)) or (isinstance(v, ast.Call) and norm(v.func) in ('list', 'np.where', 'np.arange', 'np.array', 'np.isclose', 'np.unique', 'np.nonzero', 'np.argsort', 'range')) \
                        or (isinstance(v, ast.UnaryOp) and isinstance(v.op, ast.Invert)) or (isinstance(v, ast.BinOp) and isinstance(v.op, (ast.BitAnd, ast.BitOr))):
                    self.fancy.add(s.targets[0].id)
        changed = True
        n = 0
        while changed and n < 20:
            changed = False
            n += 1
            for s in walk_no_nested(self.fn):
                pairs = []
                if isinstance(s, ast.Assign):
                    for t in s.targets:
                        pairs.append((t, s.value))
                elif isinstance(s, ast.AnnAssign) and s.value is not None:
                    pairs.append((s.target, s.value))
                elif isinstance(s, (ast.For, ast.comprehension)):
                    pairs.append((s.target, ast.Subscript(s.iter, ast.Constant(0), ast.Load())))
                elif isinstance(s, ast.With):
                    for it in s.items:
                        if it.optional_vars is not None:
                            pairs.append((it.optional_vars, it.context_expr))
                for t, v in pairs:
                    if isinstance(t, ast.Name):
                        o = self.origins(v)
                        cur = self.origin.get(t.id, set())
                        if not o <= cur:
                            self.origin[t.id] = cur | o
                            changed = True
                    elif isinstance(t, (ast.Tuple, ast.List)):
                        o = self.origins(v)
                        for el in t.elts:
                            if isinstance(el, ast.Name):
                                cur = self.origin.get(el.id, set())
                                if not o <= cur:
                                    self.origin[el.id] = cur | o
                                    changed = True

    # ------------------------------------------------------------ copy-on-entry kill
    def rebound_fresh_before(self, name, stmt):
        """True when every binding of `name` that can reach `stmt` is FRESH because the function rebinds the
        parameter to a copy at top level before stmt (x = deepcopy(x), x = np.array(x), x = x.copy())."""
        for s in self.fn.body:
            if s.lineno >= stmt.lineno:
                break
            if isinstance(s, ast.Assign) and any(isinstance(t, ast.Name) and t.id == name for t in s.targets):
                e = Effects.__new__(Effects)
                e.__dict__.update(self.__dict__)
                o = self.origins(s.value, env={k: v for k, v in self.origin.items() if k != name})
                if o == {FRESH}:
                    return True
            if isinstance(s, ast.If) and not s.orelse:
                # `if safecopy: x = deepcopy(x)` is conditional: not a kill
                continue
        return False

    # ------------------------------------------------------------ mutation sites
    def mutations(self, mutating_methods=(), mutating_calls=None):
        """-> list of (stmt_or_call_node, root origin, description).  mutating_methods: extra method names that mutate
        their receiver (repo summaries, e.g. 'wrap', 'box_set'); mutating_calls: {callee text: [arg positions mutated]}"""
        out = []
        mm = set(INPLACE_METHODS) | set(mutating_methods)
        mc = mutating_calls or {}

        def roots(e):
            return {o for o in self.origins(e) if o not in (FRESH, UNKNOWN)}
        for s in walk_no_nested(self.fn):
            if isinstance(s, (ast.Assign, ast.AugAssign, ast.AnnAssign, ast.Delete)):
                tgts = s.targets if isinstance(s, (ast.Assign, ast.Delete)) else [s.target]
                flat = []
                for t in tgts:
                    flat.extend(t.elts if isinstance(t, (ast.Tuple, ast.List)) else [t])
                for t in flat:
                    if isinstance(t, ast.Subscript):
                        for r in roots(t.value):
                            out.append((s, r, 'store into %s' % norm(t)))
                    elif isinstance(t, ast.Attribute):
                        for r in roots(t.value):
                            out.append((s, r, 'attribute store %s' % norm(t)))
                    elif isinstance(t, ast.Name) and isinstance(s, ast.AugAssign):
                        for r in roots(t):
                            out.append((s, r, 'in-place %s on %s' % (type(s.op).__name__, t.id)))
            elif isinstance(s, ast.Call):
                f = norm(s.func)
                if isinstance(s.func, ast.Attribute) and s.func.attr in mm and ('.' + s.func.attr) not in self.summaries:
                    for r in roots(s.func.value):
                        out.append((s, r, 'mutating method %s' % f))
                if f in mc:
                    for pos in mc[f]:
                        arg = s.args[pos] if isinstance(pos, int) and pos < len(s.args) else next((k.value for k in s.keywords if k.arg == pos), None)
                        if arg is not None:
                            for r in roots(arg):
                                out.append((s, r, 'passed to mutating callee %s' % f))
        return out


def param_mutations(fn, params, **kw):
    """mutation sites whose root is one of `params`, excluding those dominated by a top-level copy-on-entry rebinding"""
    summaries = kw.pop('summaries', None)
    fancy = kw.pop('fancy_hint', ())
    eff = Effects(fn, summaries=summaries, fancy_hint=fancy)
    out = []
    for node, root, what in eff.mutations(**kw):
        if root in params:
            stmt = node
            while not isinstance(stmt, ast.stmt):
                stmt = stmt._parent
            if eff.rebound_fresh_before(root, stmt):
                continue
            out.append((node, root, what))
    return out, eff


def class_property_summaries(cls, base=None, rounds=4):
    """{'self.name': ('fresh',)} for every property of the class whose getter returns fresh objects on every return (copies, computed arrays), judged with the
    properties already found fresh; a property that may hand out the object's own storage is left out (its value aliases `self`)"""
    out = dict(base or {})
    getters = [m for m in cls.body if isinstance(m, ast.FunctionDef) and any(norm(d) == 'property' for d in m.decorator_list)]
    for _ in range(rounds):
        changed = False
        for g in getters:
            key = 'self.' + g.name
            if key in out:
                continue
            eff = Effects(g, summaries=out)
            rets = [s for s in walk_no_nested(g) if isinstance(s, ast.Return) and s.value is not None]
            if rets and all(eff.origins(r.value) == {FRESH} for r in rets):
                out[key] = ('fresh',)
                changed = True
        if not changed:
            break
    return out
