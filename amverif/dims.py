"""E8: unit-expression grammar, dimension vectors and SI magnitudes.

The grammar is written from the documented syntax of atomman unit strings (names, numbers, * / ^, parentheses) and
is independent of atomman.unitconvert.parse.  The name table gives, for the unit names the repository uses, the
dimension vector over (L, M, T, Q, Theta) and the SI magnitude (CODATA 2018; `mol` is the dimensionless Avogadro
number as in numericalunits).
"""
from fractions import Fraction as F

from lark import Lark, Transformer
from lark.exceptions import LarkError

GRAMMAR = Lark(r'''
?start: expr
?expr: expr "*" pw -> mul | expr "/" pw -> div | pw
?pw: atom "^" atom -> pow | atom
?atom: NAME -> name | NUMBER -> num | "(" expr ")"
NAME: /[A-Za-z][A-Za-z0-9_]*/
NUMBER: /-?\d+(\.\d*)?([eE][-+]?\d+)?|-?\.\d+/
%ignore /\s+/
''', parser='lalr')

NA = 6.02214076e23
E = 1.602176634e-19
U = {  # name: (L, M, T, Q, Theta, SI magnitude)
    'm': (1, 0, 0, 0, 0, 1), 'cm': (1, 0, 0, 0, 0, 1e-2), 'mm': (1, 0, 0, 0, 0, 1e-3), 'um': (1, 0, 0, 0, 0, 1e-6), 'nm': (1, 0, 0, 0, 0, 1e-9),
    'pm': (1, 0, 0, 0, 0, 1e-12), 'angstrom': (1, 0, 0, 0, 0, 1e-10), 'aBohr': (1, 0, 0, 0, 0, 5.29177210903e-11),
    'kg': (0, 1, 0, 0, 0, 1), 'g': (0, 1, 0, 0, 0, 1e-3), 'mg': (0, 1, 0, 0, 0, 1e-6), 'ug': (0, 1, 0, 0, 0, 1e-9), 'ng': (0, 1, 0, 0, 0, 1e-12),
    'pg': (0, 1, 0, 0, 0, 1e-15), 'amu': (0, 1, 0, 0, 0, 1.66053906660e-27),
    's': (0, 0, 1, 0, 0, 1), 'ms': (0, 0, 1, 0, 0, 1e-3), 'us': (0, 0, 1, 0, 0, 1e-6), 'ns': (0, 0, 1, 0, 0, 1e-9), 'ps': (0, 0, 1, 0, 0, 1e-12), 'fs': (0, 0, 1, 0, 0, 1e-15),
    'J': (2, 1, -2, 0, 0, 1), 'mJ': (2, 1, -2, 0, 0, 1e-3), 'eV': (2, 1, -2, 0, 0, E), 'meV': (2, 1, -2, 0, 0, E * 1e-3), 'kcal': (2, 1, -2, 0, 0, 4184.0),
    'cal': (2, 1, -2, 0, 0, 4.184), 'erg': (2, 1, -2, 0, 0, 1e-7), 'Ry': (2, 1, -2, 0, 0, 2.1798723611035e-18), 'kJ': (2, 1, -2, 0, 0, 1e3),
    'N': (1, 1, -2, 0, 0, 1), 'dyn': (1, 1, -2, 0, 0, 1e-5), 'Pa': (-1, 1, -2, 0, 0, 1), 'kPa': (-1, 1, -2, 0, 0, 1e3), 'MPa': (-1, 1, -2, 0, 0, 1e6),
    'GPa': (-1, 1, -2, 0, 0, 1e9), 'bar': (-1, 1, -2, 0, 0, 1e5), 'atm': (-1, 1, -2, 0, 0, 101325.0),
    'K': (0, 0, 0, 0, 1, 1), 'mol': (0, 0, 0, 0, 0, NA), 'hbar': (2, 1, -1, 0, 0, 1.054571817e-34),
    'C': (0, 0, 0, 1, 0, 1), 'e': (0, 0, 0, 1, 0, E), 'V': (2, 1, -2, -1, 0, 1), 'uV': (2, 1, -2, -1, 0, 1e-6), 'mV': (2, 1, -2, -1, 0, 1e-3),
    'c0': (1, 0, -1, 0, 0, 299792458.0),
}

DIM = {  # quantity -> dimension vector (L, M, T, Q, Theta)
    'mass': (0, 1, 0, 0, 0), 'length': (1, 0, 0, 0, 0), 'time': (0, 0, 1, 0, 0), 'energy': (2, 1, -2, 0, 0), 'velocity': (1, 0, -1, 0, 0),
    'force': (1, 1, -2, 0, 0), 'torque': (2, 1, -2, 0, 0), 'temperature': (0, 0, 0, 0, 1), 'pressure': (-1, 1, -2, 0, 0),
    'dynamic viscosity': (-1, 1, -1, 0, 0), 'density': (-3, 1, 0, 0, 0), 'ang-mom': (2, 1, -1, 0, 0), 'ang-vel': (0, 0, -1, 0, 0),
    'volume': (3, 0, 0, 0, 0), 'charge': (0, 0, 0, 1, 0), 'dipole': (1, 0, 0, 1, 0), 'electric field': (1, 1, -2, -1, 0),
}
MECHANICAL = ('mass', 'length', 'time', 'energy', 'velocity', 'force', 'torque', 'pressure', 'dynamic viscosity', 'density', 'ang-mom', 'ang-vel', 'volume')

# SI magnitude of one LAMMPS unit per style, from the LAMMPS `units` documentation
_HART = 4.3597447222071e-18
_BOHR = 5.29177210903e-11
LAMMPS_SI = {
    'real': {'mass': 1e-3 / NA, 'length': 1e-10, 'time': 1e-15, 'energy': 4184 / NA, 'velocity': 1e5, 'force': 4184 / NA / 1e-10, 'torque': 4184 / NA,
             'pressure': 101325, 'dynamic viscosity': 0.1, 'density': 1e3},
    'metal': {'mass': 1e-3 / NA, 'length': 1e-10, 'time': 1e-12, 'energy': E, 'velocity': 100.0, 'force': E / 1e-10, 'torque': E, 'pressure': 1e5,
              'dynamic viscosity': 0.1, 'density': 1e3},
    'si': {'mass': 1.0, 'length': 1.0, 'time': 1.0, 'energy': 1.0, 'velocity': 1.0, 'force': 1.0, 'torque': 1.0, 'pressure': 1.0, 'dynamic viscosity': 1.0, 'density': 1.0},
    'cgs': {'mass': 1e-3, 'length': 1e-2, 'time': 1, 'energy': 1e-7, 'velocity': 1e-2, 'force': 1e-5, 'torque': 1e-7, 'pressure': 0.1, 'dynamic viscosity': 0.1, 'density': 1e3},
    'electron': {'mass': 1.66053906660e-27, 'length': _BOHR, 'time': 1e-15, 'energy': _HART, 'velocity': 2.18769126364e6, 'force': _HART / _BOHR, 'pressure': 1.0},
    'micro': {'mass': 1e-15, 'length': 1e-6, 'time': 1e-6, 'energy': 1e-15, 'velocity': 1.0, 'force': 1e-9, 'torque': 1e-15, 'pressure': 1e-15 / (1e-6 * 1e-12),
              'dynamic viscosity': 1e-15 / (1e-6 * 1e-6), 'density': 1e-15 / 1e-18},
    'nano': {'mass': 1e-21, 'length': 1e-9, 'time': 1e-9, 'energy': 1e-21, 'velocity': 1.0, 'force': 1e-21 * 1e-9 / 1e-18, 'torque': 1e-21,
             'pressure': 1e-21 / (1e-9 * 1e-18), 'dynamic viscosity': 1e-21 / (1e-9 * 1e-9), 'density': 1e-21 / 1e-27},
}


# electrical entries (LAMMPS `units` documentation): charge, dipole, electric field
_C0 = 299792458.0
LAMMPS_SI_ELECTRICAL = {
    'real': {'charge': E, 'dipole': E * 1e-10, 'electric field': 1e10},
    'metal': {'charge': E, 'dipole': E * 1e-10, 'electric field': 1e10},
    'si': {'charge': 1.0, 'dipole': 1.0, 'electric field': 1.0},
    'cgs': {'charge': 1 / (10 * _C0), 'dipole': 1 / (10 * _C0) * 1e-2, 'electric field': _C0 * 1e-6 / 1e-2},      # statcoulomb, statcoulomb-cm, statvolt/cm
    'electron': {'charge': E, 'dipole': 1e-21 / _C0, 'electric field': 100.0},                                      # e, Debye, V/cm
    'micro': {'charge': 1e-12, 'dipole': 1e-12 * 1e-6, 'electric field': 1e6},                                      # picocoulomb, pC-micrometre, V/micrometre
    'nano': {'charge': E, 'dipole': E * 1e-9, 'electric field': 1e9},
}


class UnknownUnit(Exception):
    pass


class _T(Transformer):
    extra = {}

    def name(self, a):
        n = str(a[0])
        if n in self.extra:
            u = self.extra[n]
            return (tuple(map(F, u[:5])), float(u[5]))
        if n not in U:
            raise UnknownUnit(n)
        u = U[n]
        return (tuple(map(F, u[:5])), float(u[5]))

    def num(self, a):
        return ((F(0),) * 5, float(a[0]))

    def mul(self, a):
        return (tuple(x + y for x, y in zip(a[0][0], a[1][0])), a[0][1] * a[1][1])

    def div(self, a):
        return (tuple(x - y for x, y in zip(a[0][0], a[1][0])), a[0][1] / a[1][1])

    def pow(self, a):
        p = a[1][1]
        return (tuple(x * F(p).limit_denominator(8) for x in a[0][0]), a[0][1] ** p)


def dim_of(s, extra=None):
    """unit string -> (dimension vector, SI magnitude); raises UnknownUnit / LarkError.  extra: {name: (L,M,T,Q,Theta,magnitude)}"""
    from lark.exceptions import VisitError
    try:
        t = _T()
        t.extra = dict(extra or {})
        return t.transform(GRAMMAR.parse(s))
    except VisitError as e:
        if isinstance(e.orig_exc, UnknownUnit):
            raise e.orig_exc
        raise
