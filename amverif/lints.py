"""Small repository-specific contradiction rules shared by several properties."""
import ast

from .core import norm, walk_no_nested


def _strip(e):
    return norm(e).replace(' ', '')


def _names_in(e):
    return {n.id for n in ast.walk(e) if isinstance(n, ast.Name)}


def _rounding_of(e):
    """the variable name x when e is a rounding of a plain variable: round(x), np.rint(x), np.round(x), int(x + 0.5), int(round(x)), int(np.rint(x)); else None"""
    if isinstance(e, ast.Call) and len(e.args) >= 1:
        f = norm(e.func)
        a = e.args[0]
        if f in ('round', 'np.rint', 'numpy.rint', 'np.round', 'numpy.round', 'np.around') and isinstance(a, ast.Name):
            return a.id
        if f == 'int':
            if isinstance(a, ast.BinOp) and isinstance(a.op, ast.Add) and isinstance(a.left, ast.Name) and isinstance(a.right, ast.Constant) and a.right.value == 0.5:
                return a.left.id
            return _rounding_of(a)
    return None


def tolerant_integer(ctx, rule, rel, qual, floor=1):
    """TOLERANT-INTEGER: a quantity the function admits as a whole number through a *tolerant* test -- np.isclose(x, round(x)), or the same inequality written out against a
    rounding of x (possibly held in a name) -- may lie a rounding error below that whole number (23.999999999999943), so it is made an int by rounding, never by
    truncation: no bare int(x) of that variable follows the test.  The belief stated by the test (x is an integer up to round-off) and a bare int(x) contradict each other."""
    fn = ctx.fn(rel, qual)
    nodes = list(walk_no_nested(fn))
    # names that hold a rounding of a variable: nearest = round(x)
    holds = {}
    for s in nodes:
        if isinstance(s, ast.Assign) and len(s.targets) == 1 and isinstance(s.targets[0], ast.Name):
            x = _rounding_of(s.value)
            if x is not None and s.targets[0].id != x:
                holds[s.targets[0].id] = x
    tested = {}          # variable -> first tolerant test node
    for t in nodes:
        is_close = isinstance(t, ast.Call) and norm(t.func) in ('np.isclose', 'numpy.isclose', 'math.isclose') and len(t.args) >= 2
        is_cmp = isinstance(t, ast.Compare) and len(t.ops) == 1 and isinstance(t.ops[0], (ast.Lt, ast.LtE, ast.Gt, ast.GtE))
        if not (is_close or is_cmp):
            continue
        parts = list(t.args[:2]) if is_close else [t.left, t.comparators[0]]
        roundings = set()
        for sub in ast.walk(t):
            x = _rounding_of(sub) if isinstance(sub, ast.Call) else None
            if x is not None:
                roundings.add(x)
            if isinstance(sub, ast.Name) and sub.id in holds:
                roundings.add(holds[sub.id])
        for x in roundings:
            if x in _names_in(t) and (is_close or any(isinstance(n_, ast.BinOp) and isinstance(n_.op, ast.Sub) for n_ in ast.walk(t))):
                tested.setdefault(x, t)
    n = 0
    for x, t in sorted(tested.items()):
        convs = [c for c in nodes if isinstance(c, ast.Call) and norm(c.func) == 'int' and len(c.args) == 1 and c.lineno >= t.lineno and not any(c is d for d in ast.walk(t))
                 and (x in _names_in(c.args[0]) or any(nm in holds and holds[nm] == x for nm in _names_in(c.args[0])))]
        bad = [c for c in convs if isinstance(c.args[0], ast.Name) and c.args[0].id == x]
        n += 1
        ctx.ob(rule, '%s::%s' % (rel, qual), '`%s`, admitted as a whole number by a tolerant test (line %d), is made an int by rounding wherever it is converted (%d conversion(s))' % (x, t.lineno, len(convs)),
               not bad, '; '.join('int(%s) truncates at line %d' % (norm(c.args[0]), c.lineno) for c in bad), node=bad[0] if bad else t, key='tolerant integer %s %s' % (qual, x))
    ctx.floor('%s/%s' % (rule, qual), n, floor)


def _self_writes(fn):
    out = {}
    for s in walk_no_nested(fn):
        tg = s.targets if isinstance(s, ast.Assign) else [s.target] if isinstance(s, (ast.AugAssign, ast.AnnAssign)) else []
        for t in tg:
            for x in (t.elts if isinstance(t, (ast.Tuple, ast.List)) else [t]):
                if isinstance(x, ast.Attribute) and isinstance(x.value, ast.Name) and x.value.id == 'self':
                    out.setdefault(x.attr, x)
        if isinstance(s, ast.Call) and norm(s.func) in ('setattr', 'object.__setattr__') and s.args and norm(s.args[0]) == 'self' and len(s.args) > 1 and isinstance(s.args[1], ast.Constant):
            out.setdefault(str(s.args[1].value), s)
    return out


def state_owner(ctx, rule, rel, cls_name, owners, what, memo_decorators=('lru_cache', 'cache', 'cached_property', 'functools.lru_cache', 'functools.cache', 'functools.cached_property')):
    """STATE-OWNER: everything an object of `cls_name` remembers is (re)written by the `owners` methods (the constructor / solve()), so a second call of an owner leaves no
    value behind that was derived from the previous problem.  An attribute stored by any other method -- a memo kept by a property, a flag set on first use -- must also be
    stored (reset or recomputed) by every owner; memoising decorators on methods count as such stores."""
    cls = ctx.fn(rel, cls_name)
    methods = [m for m in cls.body if isinstance(m, ast.FunctionDef)]
    own = {}
    for m in methods:
        if m.name in owners and not any(norm(d).endswith('.setter') for d in m.decorator_list):
            own[m.name] = _self_writes(m)
    ctx.need(own, '%s has none of the methods %s' % (cls_name, list(owners)))
    bad = []
    n = 0
    for m in methods:
        n += 1
        for d in m.decorator_list:
            dn = norm(d.func) if isinstance(d, ast.Call) else norm(d)
            if dn in memo_decorators:
                bad.append('%s is memoised by @%s (line %d): its value survives the next %s' % (m.name, dn, d.lineno, '/'.join(owners)))
        if m.name in owners or m.name == '__init__':
            continue
        for a, node in _self_writes(m).items():
            missing = [o for o, w in own.items() if a not in w]
            # a setter called by the owner counts as the owner's write
            missing = [o for o in missing if not any(isinstance(c, ast.Attribute) and isinstance(c.value, ast.Name) and c.value.id == 'self' and c.attr == m.name and isinstance(c.ctx, ast.Store)
                                                     for c in ast.walk([x for x in methods if x.name == o][0]))]
            if missing:
                bad.append('self.%s is stored by %s (line %d) but not reset by %s' % (a, m.name, node.lineno, ', '.join(missing)))
    ctx.ob(rule, '%s::%s' % (rel, cls_name), '%s: every attribute and memo of the object is rewritten by %s (%d methods examined)' % (what, ' / '.join(owners), n), not bad, '; '.join(bad),
           node=cls, key='state owner ' + cls_name)
    return n


MEMO = ('lru_cache', 'cache', 'functools.lru_cache', 'functools.cache', 'cached_property', 'functools.cached_property', 'memoize')


def fresh_results(ctx, rule, rel, floor, what='index arrays'):
    """FRESH-RESULTS: the module's functions return arrays the caller owns (they are edited in place by callers: masked, negated, scaled).  A memoising decorator would
    hand the *same* array object to every caller, so one caller's edit changes what the next caller gets.  Every module-level function is examined."""
    mod = ctx.mod(rel)
    fns = [n for n in mod.body if isinstance(n, ast.FunctionDef)]
    bad = []
    for f in fns:
        for d in f.decorator_list:
            dn = norm(d.func) if isinstance(d, ast.Call) else norm(d)
            if dn in MEMO or dn.split('.')[-1] in MEMO:
                bad.append('%s is memoised by @%s (line %d)' % (f.name, dn, d.lineno))
    ctx.ob(rule, rel, 'no function of the module is memoised: each call returns %s of its own (%d functions examined)' % (what, len(fns)), not bad, '; '.join(bad), node=mod, key='fresh results ' + rel)
    ctx.floor('%s/%s' % (rule, rel), len(fns), floor)


def c_double(ctx, rule, rel, floor):
    """C-DOUBLE: every C floating-point parameter, local and typed buffer of the compiled module is a `double`.  A C `float` is 32 bits: a cutoff, coordinate or
    squared distance held in one is rounded to 7 significant digits, which moves pairs whose separation is within 6e-8 (relative) of the cutoff across it."""
    mod = ctx.mod(rel)
    decls = getattr(mod, '_cdecls', None)
    ctx.need(decls is not None, '%s was not parsed as Cython' % rel)
    fl = [d for d in decls if d[1] in ('double', 'float', 'long double', 'np.float64_t', 'np.float32_t', 'float64_t', 'float32_t')]
    bad = [d for d in fl if d[1] not in ('double', 'np.float64_t', 'float64_t')]
    ctx.ob(rule, rel, 'every C floating-point declaration (%d parameters, locals and typed buffers) is double precision' % len(fl), not bad,
           '; '.join('`%s %s` at line %d' % (d[1], d[0], d[3]) for d in bad), node=mod, key='c double ' + rel)
    ctx.floor('%s/%s' % (rule, rel), len(fl), floor)


# ----------------------------------------------------------------------------- ARRAY-LIKE (path-sensitive)
NDARRAY_ONLY = {'shape', 'ndim', 'dot', 'T', 'reshape', 'astype', 'sum', 'size', 'dtype', 'flatten', 'tolist', 'max', 'min', 'copy', 'transpose', 'ravel', 'item', 'mean', 'any', 'all'}
ARRAY_MAKERS = {'np.asarray', 'np.array', 'np.asanyarray', 'numpy.asarray', 'numpy.array', 'np.atleast_1d', 'np.atleast_2d', 'np.ascontiguousarray', 'np.asfortranarray', 'np.broadcast_to',
                'np.zeros', 'np.empty', 'np.ones', 'np.full'}


def _makes_array(e, extra, known):
    """the expression is certainly an ndarray / numpy scalar: a converting call, arithmetic with one, a method of one that returns one"""
    if isinstance(e, ast.Call):
        f = norm(e.func)
        if f in ARRAY_MAKERS or f in extra or f.split('.')[-1] in extra:
            return True
        if isinstance(e.func, ast.Attribute) and e.func.attr in ('reshape', 'copy', 'astype', 'flatten', 'ravel', 'transpose', 'dot') and _makes_array(e.func.value, extra, known):
            return True
        # a parameter rebound from any other call of the package (axes_check, vector4to3, ...) is taken to be an array: the rule is about parameters used as passed
        return f not in ('list', 'tuple', 'float', 'int', 'str', 'dict', 'set', 'sorted', 'bool', 'deepcopy', 'copy.deepcopy', 'copy')
    if isinstance(e, ast.Name):
        return e.id in known
    if isinstance(e, ast.BinOp):
        return _makes_array(e.left, extra, known) or _makes_array(e.right, extra, known)
    if isinstance(e, ast.UnaryOp):
        return _makes_array(e.operand, extra, known)
    if isinstance(e, ast.Subscript):
        return False
    if isinstance(e, ast.IfExp):
        return _makes_array(e.body, extra, known) and _makes_array(e.orelse, extra, known)
    return False


def _ends(block):
    return bool(block) and isinstance(block[-1], (ast.Return, ast.Raise, ast.Continue, ast.Break))


def _guard_is_array(test, names):
    """`isinstance(p, np.ndarray)` (possibly and-ed with more): in the true branch p is an array"""
    out = set()
    for t in ([test] + (list(test.values) if isinstance(test, ast.BoolOp) and isinstance(test.op, ast.And) else [])):
        if isinstance(t, ast.Call) and norm(t.func) == 'isinstance' and len(t.args) == 2 and isinstance(t.args[0], ast.Name) and 'ndarray' in norm(t.args[1]):
            out.add(t.args[0].id)
    return out & names


def _guard_none(test, names):
    """(names that are None when the test holds, names that are None when it fails): `p is None`, `p is not None`, also and-ed / or-ed with more"""
    t_, f_ = set(), set()
    parts = [test]
    if isinstance(test, ast.BoolOp):
        parts = list(test.values)
    for t in parts:
        if isinstance(t, ast.Compare) and len(t.ops) == 1 and isinstance(t.left, ast.Name) and isinstance(t.comparators[0], ast.Constant) and t.comparators[0].value is None:
            if isinstance(t.ops[0], ast.Is) and (not isinstance(test, ast.BoolOp) or isinstance(test.op, ast.And)):
                t_.add(t.left.id)
            if isinstance(t.ops[0], ast.IsNot) and (not isinstance(test, ast.BoolOp) or isinstance(test.op, ast.Or)):
                f_.add(t.left.id)
            if isinstance(t.ops[0], ast.Is) and isinstance(test, ast.BoolOp) and isinstance(test.op, ast.Or):
                pass
    return t_ & names, f_ & names


def arraylike_paths(fn, params, extra_converters=()):
    """must-analysis over the statements of fn: the set of array-like parameters that are certainly arrays at each point (converted on *every* path reaching it).
    Returns the attribute nodes `p.<ndarray-only>` evaluated where p may still be whatever the caller passed (a list, a tuple, a plain number)."""
    extra = set(extra_converters)
    params = set(params)
    bad = []

    def uses(node, known):
        for x in ast.walk(node):
            if isinstance(x, (ast.FunctionDef, ast.Lambda)):
                continue
            if isinstance(x, ast.Attribute) and isinstance(x.value, ast.Name) and x.value.id in params and x.value.id not in known and x.attr in NDARRAY_ONLY and isinstance(x.ctx, ast.Load):
                bad.append(x)

    def expr_uses(e, known):
        # short-circuit forms: `p is not None and p.ndim ...` are still uses of whatever was passed; only isinstance guards change the state
        if isinstance(e, ast.BoolOp) and isinstance(e.op, ast.And):
            k = set(known)
            for v in e.values:
                expr_uses(v, k)
                k |= _guard_is_array(v, params)
            return
        if isinstance(e, ast.IfExp):
            expr_uses(e.test, known)
            expr_uses(e.body, known | _guard_is_array(e.test, params))
            expr_uses(e.orelse, known)
            return
        uses(e, known)

    def block(stmts, known):
        known = set(known)
        for s in stmts:
            if isinstance(s, (ast.FunctionDef, ast.ClassDef)):
                continue
            if isinstance(s, ast.Assign):
                expr_uses(s.value, known)
                for t in s.targets:
                    if isinstance(t, ast.Name) and t.id in params:
                        if _makes_array(s.value, extra, known):
                            known.add(t.id)
                        else:
                            known.discard(t.id)
                    elif isinstance(t, (ast.Tuple, ast.List)):
                        for e in t.elts:
                            if isinstance(e, ast.Name):
                                known.discard(e.id)
                    else:
                        uses(t, known)
            elif isinstance(s, ast.AugAssign):
                expr_uses(s.value, known)
                if isinstance(s.target, ast.Name) and s.target.id in params and not _makes_array(s.value, extra, known):
                    pass          # p op= x keeps p's kind
            elif isinstance(s, ast.If):
                expr_uses(s.test, known)
                nt, nf = _guard_none(s.test, params)       # a parameter that is None on a branch is not "whatever the caller passed" there: its uses are guarded by the same test
                neg = _guard_is_array(s.test.operand, params) if isinstance(s.test, ast.UnaryOp) and isinstance(s.test.op, ast.Not) else set()    # `if not isinstance(p, np.ndarray): p = ...`
                kt = block(s.body, known | _guard_is_array(s.test, params) | nt)
                kf = block(s.orelse, known | nf | neg)
                if _ends(s.body) and not _ends(s.orelse):
                    known = kf
                elif _ends(s.orelse) and s.orelse and not _ends(s.body):
                    known = kt
                else:
                    known = kt & kf
            elif isinstance(s, (ast.For, ast.While)):
                if isinstance(s, ast.For):
                    expr_uses(s.iter, known)
                else:
                    expr_uses(s.test, known)
                kb = block(s.body, known)
                block(s.orelse, known & kb)
                known = known & kb
            elif isinstance(s, ast.Try):
                kb = block(s.body, known)
                ks = [kb] + [block(h.body, known) for h in s.handlers if not _ends(h.body)]
                k = set.intersection(*ks) if ks else kb
                k = block(s.orelse, k) if s.orelse else k
                known = block(s.finalbody, k) if s.finalbody else k
            elif isinstance(s, ast.With):
                for it in s.items:
                    expr_uses(it.context_expr, known)
                known = block(s.body, known)
            else:
                for ch in ast.iter_child_nodes(s):
                    if isinstance(ch, ast.expr):
                        expr_uses(ch, known)
        return known
    block(fn.body, set())
    return bad


def arraylike(ctx, rule, rel, floor, extra_converters=(), only=None, what=None):
    """ARRAY-LIKE: a parameter documented as array-like (annotated ``npt.ArrayLike``) is an ndarray on every path before an ndarray-only attribute of it is read; a list, a tuple or
    a plain number, which the annotation admits, has no .ndim / .shape / .tolist."""
    mod = ctx.mod(rel)
    n = 0
    for fn in [x for x in ast.walk(mod) if isinstance(x, ast.FunctionDef)]:
        if only is not None and fn.name not in only:
            continue
        ps = [a.arg for a in fn.args.args + fn.args.kwonlyargs if a.annotation is not None and 'ArrayLike' in norm(a.annotation)]
        if not ps or (fn.name.startswith('_') and not fn.name.startswith('__')):
            continue          # a helper private to its module is handed what its callers in the module made
        n += len(ps)
        bad = arraylike_paths(fn, ps, extra_converters)
        qual = fn.name
        p = getattr(fn, '_parent', None)
        while p is not None:
            if isinstance(p, (ast.ClassDef, ast.FunctionDef)):
                qual = p.name + '.' + qual
            p = getattr(p, '_parent', None)
        seen = set()
        for x in bad:
            k = (x.value.id, x.attr)
            if k in seen:
                continue
            seen.add(k)
            ctx.ob(rule, '%s::%s' % (rel, qual), 'array-like parameter %r is converted to an array on every path before .%s is read' % (x.value.id, x.attr), False,
                   'line %d: %s is still whatever the caller passed on some path reaching this point' % (x.lineno, x.value.id), node=x, key='%s %s.%s' % (qual, x.value.id, x.attr))
        if not bad:
            ctx.ob(rule, '%s::%s' % (rel, qual), 'array-like parameter(s) %s are arrays on every path before ndarray-only attributes are read' % ', '.join(ps), True, node=fn, key=qual)
    ctx.floor(rule, n, floor)


# ----------------------------------------------------------------------------- NATIVE-VALUES
_NATIVE_CALLS = {'float', 'int', 'str', 'bool', 'list', 'tuple', 'dict', 'DM', 'repr', 'len'}
_NATIVE_METHODS = {'tolist', 'item', 'strip', 'join', 'format', 'decode', 'lower', 'upper'}


def _native_returns(fn, mod_funcs, depth=0):
    """every value the function returns is native, whatever it was given"""
    rets = [x for x in walk_no_nested(fn) if isinstance(x, ast.Return)]
    if not rets:
        return False
    ok = [True]

    def on_store(*a):
        pass
    res = _native_flow(fn, set(), mod_funcs, depth + 1, on_return=lambda e, good: ok.__setitem__(0, ok[0] and good))
    return ok[0]


def _native_flow(fn, str_params, mod_funcs, depth=0, on_store=None, on_return=None, containers=()):
    """forward must-analysis: the set of local names that certainly hold a native Python value (or None under the guard that tests it) at each point"""
    containers = set(containers)

    def native(e, known, natfn):
        if e is None or isinstance(e, (ast.Constant, ast.JoinedStr)):
            return True
        if isinstance(e, (ast.List, ast.Tuple)):
            return all(native(x, known, natfn) for x in e.elts)
        if isinstance(e, ast.ListComp):
            return True          # a list display; its elements are whatever the comprehension computes (lists of numpy scalars are outside this rule)
        if isinstance(e, ast.Call):
            f = norm(e.func)
            if f in _NATIVE_CALLS:
                return True
            if isinstance(e.func, ast.Attribute) and e.func.attr in _NATIVE_METHODS:
                return True
            if isinstance(e.func, ast.Name) and e.func.id in natfn:
                return True
            if isinstance(e.func, ast.Name) and e.func.id in mod_funcs and depth < 2:
                return _native_returns(mod_funcs[e.func.id], mod_funcs, depth)
            return False
        if isinstance(e, ast.Name):
            return e.id in known or e.id in str_params or e.id in containers
        if isinstance(e, ast.IfExp):
            return native(e.body, known, natfn) and native(e.orelse, known, natfn)
        if isinstance(e, ast.BinOp):
            return native(e.left, known, natfn) and native(e.right, known, natfn)
        return False

    def lam_native(e):
        return isinstance(e, ast.Lambda) and native(e.body, set(), set())

    cond = {}        # normalised test -> names known native whenever that test holds (set under the same test earlier; dropped when a name of the test is rebound)

    def rebinds(s):
        out = set()
        for t in (s.targets if isinstance(s, ast.Assign) else [s.target] if isinstance(s, (ast.AugAssign, ast.AnnAssign)) else []):
            for n_ in ast.walk(t):
                if isinstance(n_, ast.Name) and isinstance(n_.ctx, ast.Store):
                    out.add(n_.id)
        return out

    def block(stmts, known, natfn):
        known, natfn = set(known), set(natfn)
        for s in stmts:
            rb = rebinds(s)
            if rb:
                for k in [k for k, (names, free) in cond.items() if rb & free]:
                    del cond[k]
                for k in list(cond):
                    names, free = cond[k]
                    cond[k] = (names - rb, free)
            if isinstance(s, ast.FunctionDef):
                if _native_returns(s, mod_funcs, depth):
                    natfn.add(s.name)
                continue
            if isinstance(s, ast.Assign):
                for t in s.targets:
                    if isinstance(t, ast.Name):
                        if lam_native(s.value):
                            natfn.add(t.id)
                            known.discard(t.id)
                        else:
                            natfn.discard(t.id)
                            (known.add if native(s.value, known, natfn) else known.discard)(t.id)
                    elif isinstance(t, ast.Subscript) and isinstance(t.value, ast.Name) and t.value.id in containers and on_store:
                        on_store(s, t, native(s.value, known, natfn))
                    elif isinstance(t, (ast.Tuple, ast.List)):
                        for e in t.elts:
                            if isinstance(e, ast.Name):
                                known.discard(e.id)
                                natfn.discard(e.id)
            elif isinstance(s, ast.Return):
                if on_return:
                    on_return(s.value, native(s.value, known, natfn))
            elif isinstance(s, ast.If):
                nt, nf = _guard_none(s.test, known | {n.id for n in ast.walk(s.test) if isinstance(n, ast.Name)})
                key = norm(s.test)
                kt, ft = block(s.body, known | nt | (cond[key][0] if key in cond else set()), natfn)
                kf, ff = block(s.orelse, known | nf, natfn)
                if not s.orelse and not _ends(s.body):
                    free = {n_.id for n_ in ast.walk(s.test) if isinstance(n_, ast.Name)}
                    body_rb = set()
                    for x in ast.walk(ast.Module(s.body, [])):
                        body_rb |= rebinds(x) if isinstance(x, (ast.Assign, ast.AugAssign, ast.AnnAssign)) else set()
                    if not (body_rb & free):
                        cond[key] = ((kt - kf) | (cond[key][0] if key in cond else set()), free)
                if _ends(s.body) and not _ends(s.orelse):
                    known, natfn = kf, ff
                elif _ends(s.orelse) and s.orelse and not _ends(s.body):
                    known, natfn = kt, ft
                else:
                    known, natfn = kt & kf, ft & ff
            elif isinstance(s, (ast.For, ast.While)):
                kb, fb = block(s.body, known, natfn)
                known, natfn = known & kb, natfn & fb
                if s.orelse:
                    block(s.orelse, known, natfn)
            elif isinstance(s, ast.Try):
                kb, fb = block(s.body, known, natfn)
                for h in s.handlers:
                    kh, fh = block(h.body, known, natfn)
                    if not _ends(h.body):
                        kb, fb = kb & kh, fb & fh
                if s.orelse:
                    kb, fb = block(s.orelse, kb, fb)
                if s.finalbody:
                    kb, fb = block(s.finalbody, kb, fb)
                known, natfn = kb, fb
            elif isinstance(s, ast.With):
                known, natfn = block(s.body, known, natfn)
            elif isinstance(s, ast.AugAssign) and isinstance(s.target, ast.Name):
                if not native(s.value, known, natfn):
                    known.discard(s.target.id)
        return known, natfn
    return block(fn.body, set(), set())


def native_values(ctx, rule, rel, qual, container_ctor=('DM', 'DataModelDict', 'dict'), floor=1, str_params=()):
    """NATIVE-VALUES: what a model writer stores in the data model it returns is a plain Python number, string or (nested) list -- the result of .tolist() / .item() /
    float() / int() / str() / list(), on every path -- never a numpy scalar or array as computed: the text encoders render those through repr(), which for numpy >= 2 reads
    'np.float64(2.5)' and cannot be read back."""
    fn = ctx.fn(rel, qual)
    mod = ctx.mod(rel)
    mod_funcs = {n.name: n for n in mod.body if isinstance(n, ast.FunctionDef) and n is not fn}
    containers = {t.id for s in walk_no_nested(fn) if isinstance(s, ast.Assign) and isinstance(s.value, ast.Call) and norm(s.value.func).split('.')[-1] in container_ctor
                  for t in s.targets if isinstance(t, ast.Name)}
    seen = []

    def on_store(s, t, good):
        seen.append(s)
        ctx.ob(rule, '%s::%s' % (rel, qual), 'the entry %s of the model is a plain Python value (number, string, list) on every path, not a numpy scalar or array' % norm(t.slice),
               good, 'line %d stores %s as computed' % (s.lineno, norm(s.value)[:80]), node=s, key='%s store %s = %s' % (qual, norm(t.slice), norm(s.value)[:40]))
    _native_flow(fn, set(str_params), mod_funcs, on_store=on_store, containers=containers)
    ctx.floor(rule, len(seen), floor)


# ----------------------------------------------------------------------------- MODULE-STATE
_MUTABLE_CTORS = {'np.array', 'np.zeros', 'np.ones', 'np.empty', 'np.full', 'np.arange', 'np.identity', 'np.eye', 'np.asarray', 'list', 'dict', 'set', 'OrderedDict', 'DM', 'DataModelDict', 'defaultdict', 'bytearray'}
_MUTATORS = {'append', 'extend', 'insert', 'remove', 'pop', 'clear', 'sort', 'reverse', 'update', 'setdefault', 'popitem', 'add', 'discard', 'fill', 'resize', 'put', 'itemset', 'partition'}


def module_state_writes(mod):
    """[(function node, statement, global name, how)]: a module-level array / list / dict / set written in place inside a function, directly or through a local name bound to it.
    Such a write outlives the call: the next call (on another object, with other arguments) starts from what this one left behind."""
    tops = {}
    for st in mod.body:
        if isinstance(st, ast.Assign) and len(st.targets) == 1 and isinstance(st.targets[0], ast.Name):
            v = st.value
            if isinstance(v, (ast.List, ast.Dict, ast.Set, ast.ListComp, ast.DictComp, ast.SetComp)) or (isinstance(v, ast.Call) and norm(v.func) in _MUTABLE_CTORS):
                tops[st.targets[0].id] = st
    out = []
    if not tops:
        return out
    for fn in [x for x in ast.walk(mod) if isinstance(x, ast.FunctionDef)]:
        declared = {n_ for st in walk_no_nested(fn) if isinstance(st, ast.Global) for n_ in st.names}
        params = {a.arg for a in fn.args.posonlyargs + fn.args.args + fn.args.kwonlyargs}
        locals_bound = {}
        for st in walk_no_nested(fn):
            if isinstance(st, ast.Assign):
                for t in st.targets:
                    if isinstance(t, ast.Name):
                        locals_bound.setdefault(t.id, []).append(st.value)
            elif isinstance(st, (ast.For, ast.With)):
                pass
        # local aliases: a local name every binding of which is the bare global (x = G); the global itself when it is not shadowed by a local binding / parameter
        alias = {}
        for name, vals in locals_bound.items():
            if name in declared:
                continue
            srcs = {v.id for v in vals if isinstance(v, ast.Name) and v.id in tops and v.id not in params and v.id not in locals_bound}
            if srcs and all(isinstance(v, ast.Name) and v.id in srcs for v in vals):
                alias[name] = sorted(srcs)[0]
        for g in tops:
            if g not in params and (g not in locals_bound or g in declared):
                alias.setdefault(g, g)
        if not alias:
            continue
        for st in walk_no_nested(fn):
            if isinstance(st, (ast.Assign, ast.AugAssign)):
                for t in (st.targets if isinstance(st, ast.Assign) else [st.target]):
                    base = t
                    sub = False
                    while isinstance(base, ast.Subscript):
                        base, sub = base.value, True
                    if isinstance(base, ast.Name) and base.id in alias and (sub or (isinstance(st, ast.AugAssign) and base.id not in declared)):
                        out.append((fn, st, alias[base.id], 'stored into through %s' % base.id if sub else 'updated in place through %s' % base.id))
            for c in ([st.value] if isinstance(st, ast.Expr) else []):
                if isinstance(c, ast.Call) and isinstance(c.func, ast.Attribute) and isinstance(c.func.value, ast.Name) and c.func.value.id in alias and c.func.attr in _MUTATORS:
                    out.append((fn, st, alias[c.func.value.id], '.%s() through %s' % (c.func.attr, c.func.value.id)))
    return out


def guarded_memos(mod, hits=None):
    """module-level dicts that are result memos kept in step with the module state they were computed from: every in-place write is ``G[key] = value`` or ``G.clear()``; every
    storing function also looks the key up in G; and every outermost function of the module that rebinds or writes (itself or through the module functions it calls) a piece of
    module state the storing functions read, empties G by an unconditional statement of its own body.  A memo of that shape never answers from a superseded state."""
    hits = module_state_writes(mod) if hits is None else hits
    byname = {}
    for h in hits:
        byname.setdefault(h[2], []).append(h)
    fns = {f.name: f for f in mod.body if isinstance(f, ast.FunctionDef)}
    calls = {name: {norm(c.func) for c in ast.walk(f) if isinstance(c, ast.Call) and isinstance(c.func, ast.Name) and c.func.id in fns} for name, f in fns.items()}

    def reach(start):
        seen, todo = set(), list(start)
        while todo:
            x = todo.pop()
            if x in seen:
                continue
            seen.add(x)
            todo.extend(calls.get(x, ()))
        return seen
    # module state: names rebound through `global` or written in place inside some function
    writers = {}
    for name, f in fns.items():
        declared = {n_ for st in ast.walk(f) if isinstance(st, ast.Global) for n_ in st.names}
        for st in ast.walk(f):
            if isinstance(st, (ast.Assign, ast.AugAssign, ast.AnnAssign)):
                for t in (st.targets if isinstance(st, ast.Assign) else [st.target]):
                    for x in ast.walk(t):
                        if isinstance(x, ast.Name) and isinstance(x.ctx, ast.Store) and x.id in declared:
                            writers.setdefault(x.id, set()).add(name)
    for h in hits:
        writers.setdefault(h[2], set()).add(h[0].name)
    out = set()
    for g, hs in byname.items():
        ok = True
        storing = set()
        for fn, st, _g, how in hs:
            if isinstance(st, ast.Assign) and len(st.targets) == 1 and isinstance(st.targets[0], ast.Subscript) and isinstance(st.targets[0].value, ast.Name):
                storing.add(fn.name)
            elif how.startswith('.clear()'):
                pass
            else:
                ok = False
        if not ok or not storing or not all(n_ in fns for n_ in storing):
            continue
        for n_ in storing:
            looked = any((isinstance(x, ast.Compare) and any(isinstance(o, (ast.In, ast.NotIn)) for o in x.ops) and any(isinstance(c, ast.Name) and c.id == g for c in x.comparators)) or
                         (isinstance(x, ast.Subscript) and isinstance(x.ctx, ast.Load) and isinstance(x.value, ast.Name) and x.value.id == g) or
                         (isinstance(x, ast.Call) and isinstance(x.func, ast.Attribute) and x.func.attr == 'get' and isinstance(x.func.value, ast.Name) and x.func.value.id == g) for x in ast.walk(fns[n_]))
            ok = ok and looked
        if not ok:
            continue
        readers = reach(storing)
        deps = {x.id for n_ in readers for x in ast.walk(fns[n_]) if isinstance(x, ast.Name) and isinstance(x.ctx, ast.Load) and x.id in writers and x.id != g}
        dirty = set()
        for d_ in deps:
            dirty |= writers[d_]
        touching = {n_ for n_ in fns if reach([n_]) & dirty}
        roots = {n_ for n_ in touching if not any(n_ in calls[m_] for m_ in fns if m_ != n_)}

        def empties(f):
            for st in f.body:
                if isinstance(st, ast.Expr) and isinstance(st.value, ast.Call) and isinstance(st.value.func, ast.Attribute) and st.value.func.attr == 'clear' and isinstance(st.value.func.value, ast.Name) and st.value.func.value.id == g:
                    return True
            return False
        if all(empties(fns[r_]) for r_ in roots):
            out.add(g)
    return out


def module_state(ctx, rule, rel, allowed=(), what='module-level arrays and containers are not written in place by functions (a write would carry over into the next call)'):
    """MODULE-STATE: no function of the module writes in place into a module-level array / list / dict (state carried across calls, across objects).
    `allowed`: names that are documented module state (rebuilt by a reset function)."""
    mod = ctx.mod(rel)
    hits = module_state_writes(mod)
    memo = guarded_memos(mod, hits)
    hits = [h for h in hits if h[2] not in allowed and h[2] not in memo]
    for fn, st, g, how in hits:
        ctx.ob(rule, '%s::%s' % (rel, fn.name), what, False, 'line %d: module-level %s is %s' % (st.lineno, g, how), node=st, key='module state %s %s' % (fn.name, g))
    if not hits:
        ctx.ob(rule, rel + '::*', what, True, node=mod.body[0] if mod.body else None, key='module state')


DOCUMENTED_MODULE_STATE = {'dump_styles', 'failed_dump_styles', 'load_styles', 'failed_load_styles'}      # the style registries filled at import time


def class_state_writes(mod):
    """[(method, statement, 'Class.attr', how, 'class-level')]: a class-level mutable default (``items = []`` in the class body) that methods mutate in place through self
    without any method ever binding a per-instance value in __init__ -- every instance shares the one object."""
    out = []
    for cls in [x for x in ast.walk(mod) if isinstance(x, ast.ClassDef)]:
        defaults = {}
        for st in cls.body:
            tgt, val = None, None
            if isinstance(st, ast.Assign) and len(st.targets) == 1 and isinstance(st.targets[0], ast.Name):
                tgt, val = st.targets[0].id, st.value
            elif isinstance(st, ast.AnnAssign) and isinstance(st.target, ast.Name) and st.value is not None:
                tgt, val = st.target.id, st.value
            if tgt and (isinstance(val, (ast.List, ast.Dict, ast.Set)) or (isinstance(val, ast.Call) and norm(val.func) in _MUTABLE_CTORS)):
                defaults[tgt] = st
        if not defaults:
            continue
        inits = [f for f in cls.body if isinstance(f, ast.FunctionDef) and f.name == '__init__']
        bound_in_init = {t.attr for f in inits for st in ast.walk(f) if isinstance(st, (ast.Assign, ast.AnnAssign)) for t in (st.targets if isinstance(st, ast.Assign) else [st.target])
                         if isinstance(t, ast.Attribute) and isinstance(t.value, ast.Name) and t.value.id == 'self'}
        for name in defaults:
            if name in bound_in_init:
                continue
            for f in [x for x in cls.body if isinstance(x, ast.FunctionDef)]:
                for st in walk_no_nested(f):
                    hit = None
                    if isinstance(st, (ast.Assign, ast.AugAssign)):
                        for t in (st.targets if isinstance(st, ast.Assign) else [st.target]):
                            base, sub = t, False
                            while isinstance(base, ast.Subscript):
                                base, sub = base.value, True
                            if isinstance(base, ast.Attribute) and isinstance(base.value, ast.Name) and base.value.id == 'self' and base.attr == name and (sub or isinstance(st, ast.AugAssign)):
                                hit = 'written in place through self.%s' % name
                    if isinstance(st, ast.Expr) and isinstance(st.value, ast.Call) and isinstance(st.value.func, ast.Attribute) and st.value.func.attr in _MUTATORS:
                        b_ = st.value.func.value
                        if isinstance(b_, ast.Attribute) and isinstance(b_.value, ast.Name) and b_.value.id == 'self' and b_.attr == name:
                            hit = '.%s() through self.%s' % (st.value.func.attr, name)
                    if hit:
                        out.append((f, st, '%s.%s' % (cls.name, name), hit, 'class-level'))
    return out


def length_defaults(ctx, rule, rel, qual, params, floor=1):
    """LENGTH-DEFAULTS: a default written as `if p is None: p = <value>` for a parameter that is a length is a length in working units -- evaluated under two sizes of the
    working length unit (one angstrom = 1 and = 1/10, i.e. angstrom and nanometre working units) the default scales with it (or is zero).  A bare number would be 0.5 of
    whatever the working unit happens to be."""
    import sympy as sp
    from .symx import SymEval, PyStub, Path, Opaque, WouldRaise, module_aliases
    fn = ctx.fn(rel, qual)
    n = 0
    for st in ast.walk(fn):
        if not (isinstance(st, ast.If) and isinstance(st.test, ast.Compare) and len(st.test.ops) == 1 and isinstance(st.test.ops[0], ast.Is) and isinstance(st.test.left, ast.Name)
                and st.test.left.id in params and isinstance(st.test.comparators[0], ast.Constant) and st.test.comparators[0].value is None):
            continue
        for a in st.body:
            if not (isinstance(a, ast.Assign) and len(a.targets) == 1 and isinstance(a.targets[0], ast.Name) and a.targets[0].id == st.test.left.id):
                continue
            vals = []
            for U in (sp.Integer(1), sp.Rational(1, 10)):
                class UC(PyStub):
                    def set_in_units(self, v, u, _U=U):
                        if u not in ('angstrom', 'Angstrom', 'Å'):
                            raise Opaque('set_in_units(%r, %r)' % (v, u))
                        return sp.nsimplify(v) * _U
                ev = SymEval(module_aliases(ctx.mod(rel)))
                ev.globals = {'uc': UC()}
                try:
                    vals.append(sp.sympify(ev.ev(a.value, Path({}))))
                except (Opaque, WouldRaise, TypeError, sp.SympifyError):
                    vals = None
                    break
            if vals is None:
                continue          # a default computed from other arguments: judged where it is used
            n += 1
            ok = vals[0] == 0 or sp.simplify(vals[1] - vals[0] / 10) == 0
            ctx.ob(rule, '%s::%s' % (rel, qual), 'the default of the length `%s` is a length in working units (it scales with the size of the working length unit)' % st.test.left.id, bool(ok),
                   'default %s under angstrom working units, %s under nanometre working units' % (vals[0], vals[1]), node=a, key='length default %s %s' % (qual, st.test.left.id))
    ctx.floor('%s/%s' % (rule, qual), n, floor)
