"""Small repository-specific contradiction rules shared by several properties."""
import ast

from .core import norm, walk_no_nested


def _strip(e):
    return norm(e).replace(' ', '')


def _names_in(e):
    return {n.id for n in ast.walk(e) if isinstance(n, ast.Name)}


def _rounding_of(e):
    """the variable name x when e is a rounding of a plain variable: round(x), np.rint(x), np.round(x), int(x + 0.5), int(round(x)), int(np.rint(x)); else None"""
    if isinstance(e, ast.Call) and len(e.args) >= 1:
        f = norm(e.func)
        a = e.args[0]
        if f in ('round', 'np.rint', 'numpy.rint', 'np.round', 'numpy.round', 'np.around') and isinstance(a, ast.Name):
            return a.id
        if f == 'int':
            if isinstance(a, ast.BinOp) and isinstance(a.op, ast.Add) and isinstance(a.left, ast.Name) and isinstance(a.right, ast.Constant) and a.right.value == 0.5:
                return a.left.id
            return _rounding_of(a)
    return None


def tolerant_integer(ctx, rule, rel, qual, floor=1):
    """TOLERANT-INTEGER: a quantity the function admits as a whole number through a *tolerant* test -- np.isclose(x, round(x)), or the same inequality written out against a
    rounding of x (possibly held in a name) -- may lie a rounding error below that whole number (23.999999999999943), so it is made an int by rounding, never by
    truncation: no bare int(x) of that variable follows the test.  The belief stated by the test (x is an integer up to round-off) and a bare int(x) contradict each other."""
    fn = ctx.fn(rel, qual)
    nodes = list(walk_no_nested(fn))
    # names that hold a rounding of a variable: nearest = round(x)
    holds = {}
    for s in nodes:
        if isinstance(s, ast.Assign) and len(s.targets) == 1 and isinstance(s.targets[0], ast.Name):
            x = _rounding_of(s.value)
            if x is not None and s.targets[0].id != x:
                holds[s.targets[0].id] = x
    tested = {}          # variable -> first tolerant test node
    for t in nodes:
        is_close = isinstance(t, ast.Call) and norm(t.func) in ('np.isclose', 'numpy.isclose', 'math.isclose') and len(t.args) >= 2
        is_cmp = isinstance(t, ast.Compare) and len(t.ops) == 1 and isinstance(t.ops[0], (ast.Lt, ast.LtE, ast.Gt, ast.GtE))
        if not (is_close or is_cmp):
            continue
        parts = list(t.args[:2]) if is_close else [t.left, t.comparators[0]]
        roundings = set()
        for sub in ast.walk(t):
            x = _rounding_of(sub) if isinstance(sub, ast.Call) else None
            if x is not None:
                roundings.add(x)
            if isinstance(sub, ast.Name) and sub.id in holds:
                roundings.add(holds[sub.id])
        for x in roundings:
            if x in _names_in(t) and (is_close or any(isinstance(n_, ast.BinOp) and isinstance(n_.op, ast.Sub) for n_ in ast.walk(t))):
                tested.setdefault(x, t)
    n = 0
    for x, t in sorted(tested.items()):
        convs = [c for c in nodes if isinstance(c, ast.Call) and norm(c.func) == 'int' and len(c.args) == 1 and c.lineno >= t.lineno and not any(c is d for d in ast.walk(t))
                 and (x in _names_in(c.args[0]) or any(nm in holds and holds[nm] == x for nm in _names_in(c.args[0])))]
        bad = [c for c in convs if isinstance(c.args[0], ast.Name) and c.args[0].id == x]
        n += 1
        ctx.ob(rule, '%s::%s' % (rel, qual), '`%s`, admitted as a whole number by a tolerant test (line %d), is made an int by rounding wherever it is converted (%d conversion(s))' % (x, t.lineno, len(convs)),
               not bad, '; '.join('int(%s) truncates at line %d' % (norm(c.args[0]), c.lineno) for c in bad), node=bad[0] if bad else t, key='tolerant integer %s %s' % (qual, x))
    ctx.floor('%s/%s' % (rule, qual), n, floor)


def _self_writes(fn):
    out = {}
    for s in walk_no_nested(fn):
        tg = s.targets if isinstance(s, ast.Assign) else [s.target] if isinstance(s, (ast.AugAssign, ast.AnnAssign)) else []
        for t in tg:
            for x in (t.elts if isinstance(t, (ast.Tuple, ast.List)) else [t]):
                if isinstance(x, ast.Attribute) and isinstance(x.value, ast.Name) and x.value.id == 'self':
                    out.setdefault(x.attr, x)
        if isinstance(s, ast.Call) and norm(s.func) in ('setattr', 'object.__setattr__') and s.args and norm(s.args[0]) == 'self' and len(s.args) > 1 and isinstance(s.args[1], ast.Constant):
            out.setdefault(str(s.args[1].value), s)
    return out


def state_owner(ctx, rule, rel, cls_name, owners, what, memo_decorators=('lru_cache', 'cache', 'cached_property', 'functools.lru_cache', 'functools.cache', 'functools.cached_property')):
    """STATE-OWNER: everything an object of `cls_name` remembers is (re)written by the `owners` methods (the constructor / solve()), so a second call of an owner leaves no
    value behind that was derived from the previous problem.  An attribute stored by any other method -- a memo kept by a property, a flag set on first use -- must also be
    stored (reset or recomputed) by every owner; memoising decorators on methods count as such stores."""
    cls = ctx.fn(rel, cls_name)
    methods = [m for m in cls.body if isinstance(m, ast.FunctionDef)]
    own = {}
    for m in methods:
        if m.name in owners and not any(norm(d).endswith('.setter') for d in m.decorator_list):
            own[m.name] = _self_writes(m)
    ctx.need(own, '%s has none of the methods %s' % (cls_name, list(owners)))
    bad = []
    n = 0
    for m in methods:
        n += 1
        for d in m.decorator_list:
            dn = norm(d.func) if isinstance(d, ast.Call) else norm(d)
            if dn in memo_decorators:
                bad.append('%s is memoised by @%s (line %d): its value survives the next %s' % (m.name, dn, d.lineno, '/'.join(owners)))
        if m.name in owners or m.name == '__init__':
            continue
        for a, node in _self_writes(m).items():
            missing = [o for o, w in own.items() if a not in w]
            # a setter called by the owner counts as the owner's write
            missing = [o for o in missing if not any(isinstance(c, ast.Attribute) and isinstance(c.value, ast.Name) and c.value.id == 'self' and c.attr == m.name and isinstance(c.ctx, ast.Store)
                                                     for c in ast.walk([x for x in methods if x.name == o][0]))]
            if missing:
                bad.append('self.%s is stored by %s (line %d) but not reset by %s' % (a, m.name, node.lineno, ', '.join(missing)))
    ctx.ob(rule, '%s::%s' % (rel, cls_name), '%s: every attribute and memo of the object is rewritten by %s (%d methods examined)' % (what, ' / '.join(owners), n), not bad, '; '.join(bad),
           node=cls, key='state owner ' + cls_name)
    return n


MEMO = ('lru_cache', 'cache', 'functools.lru_cache', 'functools.cache', 'cached_property', 'functools.cached_property', 'memoize')


def fresh_results(ctx, rule, rel, floor, what='index arrays'):
    """FRESH-RESULTS: the module's functions return arrays the caller owns (they are edited in place by callers: masked, negated, scaled).  A memoising decorator would
    hand the *same* array object to every caller, so one caller's edit changes what the next caller gets.  Every module-level function is examined."""
    mod = ctx.mod(rel)
    fns = [n for n in mod.body if isinstance(n, ast.FunctionDef)]
    bad = []
    for f in fns:
        for d in f.decorator_list:
            dn = norm(d.func) if isinstance(d, ast.Call) else norm(d)
            if dn in MEMO or dn.split('.')[-1] in MEMO:
                bad.append('%s is memoised by @%s (line %d)' % (f.name, dn, d.lineno))
    ctx.ob(rule, rel, 'no function of the module is memoised: each call returns %s of its own (%d functions examined)' % (what, len(fns)), not bad, '; '.join(bad), node=mod, key='fresh results ' + rel)
    ctx.floor('%s/%s' % (rule, rel), len(fns), floor)


def c_double(ctx, rule, rel, floor):
    """C-DOUBLE: every C floating-point parameter, local and typed buffer of the compiled module is a `double`.  A C `float` is 32 bits: a cutoff, coordinate or
    squared distance held in one is rounded to 7 significant digits, which moves pairs whose separation is within 6e-8 (relative) of the cutoff across it."""
    mod = ctx.mod(rel)
    decls = getattr(mod, '_cdecls', None)
    ctx.need(decls is not None, '%s was not parsed as Cython' % rel)
    fl = [d for d in decls if d[1] in ('double', 'float', 'long double', 'np.float64_t', 'np.float32_t', 'float64_t', 'float32_t')]
    bad = [d for d in fl if d[1] not in ('double', 'np.float64_t', 'float64_t')]
    ctx.ob(rule, rel, 'every C floating-point declaration (%d parameters, locals and typed buffers) is double precision' % len(fl), not bad,
           '; '.join('`%s %s` at line %d' % (d[1], d[0], d[3]) for d in bad), node=mod, key='c double ' + rel)
    ctx.floor('%s/%s' % (rule, rel), len(fl), floor)
