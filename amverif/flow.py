"""E3 (part): syntax-directed reaching definitions.

A forward pass over the statement tree of one function: the environment maps each variable name to the set of
definition sites (statement nodes) that may reach the current point.  if/else joins by union; loop bodies are
iterated to a fixpoint (two passes suffice for this lattice); try bodies join with their handlers.
`at[stmt]` is the environment at entry to that statement.
"""
import ast


def _targets(t, out):
    if isinstance(t, ast.Name):
        out.append(t.id)
    elif isinstance(t, (ast.Tuple, ast.List)):
        for e in t.elts:
            _targets(e, out)
    elif isinstance(t, ast.Starred):
        _targets(t.value, out)


def _join(a, b):
    out = {k: set(v) for k, v in a.items()}
    for k, v in b.items():
        out.setdefault(k, set()).update(v)
    return out


class Reaching:
    def __init__(self, fn):
        self.fn = fn
        self.at = {}
        env = {a.arg: {fn} for a in fn.args.posonlyargs + fn.args.args + fn.args.kwonlyargs}
        self.exit = self._block(fn.body, env)

    def _block(self, stmts, env):
        for s in stmts:
            env = self._stmt(s, env)
        return env

    def _stmt(self, s, env):
        self.at[s] = {k: set(v) for k, v in env.items()}
        if isinstance(s, (ast.Assign, ast.AugAssign, ast.AnnAssign)):
            names = []
            for t in (s.targets if isinstance(s, ast.Assign) else [s.target]):
                _targets(t, names)
            env = dict(env)
            for n in names:
                if isinstance(s, ast.AugAssign):
                    env[n] = set(env.get(n, set())) | {s}
                else:
                    env[n] = {s}
            return env
        if isinstance(s, ast.If):
            a = self._block(s.body, dict(env))
            b = self._block(s.orelse, dict(env))
            return _join(a, b)
        if isinstance(s, (ast.For, ast.While)):
            e = dict(env)
            if isinstance(s, ast.For):
                names = []
                _targets(s.target, names)
                for n in names:
                    e[n] = {s}
            for _ in range(2):
                out = self._block(s.body, dict(e))
                e = _join(e, out)
            e = self._block(s.orelse, e) if s.orelse else e
            return _join(env, e)
        if isinstance(s, ast.Try):
            a = self._block(s.body, dict(env))
            out = _join(env, a)
            for h in s.handlers:
                out = _join(out, self._block(h.body, _join(env, a)))
            if s.orelse:
                out = _join(out, self._block(s.orelse, dict(a)))
            if s.finalbody:
                out = self._block(s.finalbody, out)
            return out
        if isinstance(s, ast.With):
            e = dict(env)
            for it in s.items:
                if it.optional_vars is not None:
                    names = []
                    _targets(it.optional_vars, names)
                    for n in names:
                        e[n] = {s}
            return self._block(s.body, e)
        if isinstance(s, (ast.FunctionDef, ast.ClassDef)):
            e = dict(env)
            e[s.name] = {s}
            return e
        if isinstance(s, (ast.Import, ast.ImportFrom)):
            e = dict(env)
            for a in s.names:
                e[(a.asname or a.name).split('.')[0]] = {s}
            return e
        return env

    def defs(self, stmt, name):
        """definition sites of `name` reaching the entry of stmt"""
        return self.at.get(stmt, {}).get(name, set())
