"""E2 (part): guard rules that need no CFG library — syntax-directed walks with a small state.

* default_contradiction: a parameter's default literal that one statement accepts is rejected by a later
  test on the same parameter (Engler's contradiction rule, single-parameter form).
* dominated_by_refusal: a use is only reachable after a refusal test (`if bad: raise`, `assert`).
"""
import ast

from .core import norm, walk_no_nested

_UNK = object()


def _const_default(fn):
    a = fn.args
    names = [x.arg for x in a.posonlyargs + a.args]
    out = {}
    for nm, d in zip(names[len(names) - len(a.defaults):], a.defaults):
        if isinstance(d, ast.Constant):
            out[nm] = d.value
    for ko, d in zip(a.kwonlyargs, a.kw_defaults):
        if d is not None and isinstance(d, ast.Constant):
            out[ko.arg] = d.value
    return out


_TYPES = {'dict': dict, 'str': str, 'int': int, 'float': float, 'list': list, 'tuple': tuple, 'bool': bool,
          'Integral': int, 'Real': float, 'Number': (int, float, complex)}


def _eval_test(t, name, value):
    """value of a test that mentions only parameter `name` bound to the python value `value`; _UNK otherwise"""
    if isinstance(t, ast.UnaryOp) and isinstance(t.op, ast.Not):
        v = _eval_test(t.operand, name, value)
        return _UNK if v is _UNK else (not v)
    if isinstance(t, ast.BoolOp):
        vals = [_eval_test(v, name, value) for v in t.values]
        if isinstance(t.op, ast.And):
            if any(v is False for v in vals):
                return False
            return _UNK if any(v is _UNK for v in vals) else True
        if any(v is True for v in vals):
            return True
        return _UNK if any(v is _UNK for v in vals) else False
    if isinstance(t, ast.Compare) and len(t.ops) == 1 and isinstance(t.left, ast.Name) and t.left.id == name:
        c = t.comparators[0]
        if isinstance(c, ast.Constant):
            op = t.ops[0]
            if isinstance(op, ast.Is):
                return value is c.value
            if isinstance(op, ast.IsNot):
                return value is not c.value
            if isinstance(op, ast.Eq) and (value is None or isinstance(value, (str, bool, int))) and not isinstance(c.value, float):
                return value == c.value
            if isinstance(op, ast.NotEq) and (value is None or isinstance(value, (str, bool, int))) and not isinstance(c.value, float):
                return value != c.value
        return _UNK
    if isinstance(t, ast.Call) and isinstance(t.func, ast.Name):
        if t.func.id == 'isinstance' and len(t.args) == 2 and isinstance(t.args[0], ast.Name) and t.args[0].id == name:
            ty = t.args[1]
            tys = ty.elts if isinstance(ty, ast.Tuple) else [ty]
            res = False
            for x in tys:
                nm = norm(x).split('.')[-1]
                if nm not in _TYPES:
                    return _UNK
                if isinstance(value, _TYPES[nm]) and not (isinstance(value, bool) and nm in ('int', 'Integral', 'float', 'Real', 'Number')):
                    res = True
            return res
        if t.func.id == 'callable' and len(t.args) == 1 and isinstance(t.args[0], ast.Name) and t.args[0].id == name:
            if value is None or isinstance(value, (str, int, float, bool)):
                return False
            return _UNK
    if isinstance(t, ast.Name) and t.id == name and (value is None or isinstance(value, (bool, str, int))):
        return bool(value)
    return _UNK


def _rebinds(stmt, name):
    for n in ast.walk(stmt):
        if isinstance(n, ast.Name) and n.id == name and isinstance(n.ctx, ast.Store):
            return True
    return False


def default_contradiction(fn):
    """-> list of (param, default, raise_node, trail) where the raise is reached through tests that are all
    decided by `param == default` alone (every other value unknown)."""
    out = []
    for name, value in _const_default(fn).items():
        hits = []

        def walk(stmts, trail):
            """returns True if the block certainly terminates (raise/return) under decided tests"""
            for s in stmts:
                if isinstance(s, ast.If):
                    v = _eval_test(s.test, name, value)
                    if v is True:
                        if walk(s.body, trail + [norm(s.test)]):
                            return True
                    elif v is False:
                        if walk(s.orelse, trail + ['not (%s)' % norm(s.test)]):
                            return True
                    else:
                        # undecided: a rebind in either arm makes the parameter unknown from here on
                        if _rebinds(s, name):
                            return True
                    continue
                if isinstance(s, ast.Raise):
                    if trail:
                        hits.append((s, list(trail)))
                    return True
                if isinstance(s, ast.Return):
                    return True
                if isinstance(s, ast.Assert):
                    v = _eval_test(s.test, name, value)
                    if v is False:
                        hits.append((s, list(trail) + ['assert ' + norm(s.test)]))
                        return True
                    continue
                if _rebinds(s, name):
                    return True   # parameter no longer holds its default: stop (single-parameter form)
                if isinstance(s, (ast.For, ast.While, ast.Try, ast.With)):
                    continue      # not followed: tests inside loops/try are not default-feasibility tests
            return False
        walk(fn.body, [])
        for node, trail in hits:
            out.append((name, value, node, trail))
    return out


# ---------------------------------------------------------------- refusal dominance

def _is_refusal_body(body):
    return any(isinstance(s, ast.Raise) for s in body) or any(
        isinstance(s, ast.Expr) and isinstance(s.value, ast.Call) and norm(s.value.func) in ('sys.exit', 'exit') for s in body)


def refusals_before(fn, target_stmt):
    """tests of `if T: raise` / `assert T` statements that precede target_stmt in the same or an enclosing block
    (so they dominate it).  Returns list of ('raise-if'|'assert', test node)."""
    out = []
    chain = []
    n = target_stmt
    while n is not fn and n is not None:
        chain.append(n)
        n = getattr(n, '_parent', None)
    for anc in chain:
        par = getattr(anc, '_parent', None)
        if par is None:
            continue
        for fieldname in ('body', 'orelse', 'finalbody'):
            blk = getattr(par, fieldname, None)
            if isinstance(blk, list) and anc in blk:
                for s in blk[:blk.index(anc)]:
                    if isinstance(s, ast.If) and _is_refusal_body(s.body) and not s.orelse:
                        out.append(('raise-if', s.test))
                    elif isinstance(s, ast.If) and s.orelse and _is_refusal_body(s.orelse) and not _is_refusal_body(s.body):
                        out.append(('raise-unless', s.test))
                    elif isinstance(s, ast.Assert):
                        out.append(('assert', s.test))
                    elif isinstance(s, ast.Try):
                        for t in s.body:
                            if isinstance(t, ast.Assert):
                                out.append(('assert', t.test))
    return out


def names_in(node):
    return {n.id for n in ast.walk(node) if isinstance(n, ast.Name)}
