"""E5: expression extraction to exact algebra.

A forward pass over the syntax tree of a function: straight-line code, small
if/elif trees (one environment per syntactic path, conditions recorded) and
loops over literal ranges.  Values are sympy expressions, object ndarrays of
sympy expressions (array literals, constant subscripts, dot/cross/einsum are
then exact polynomial operations) and *opaque atoms* for anything outside the
vocabulary, keyed by the normalised callee so that siblings still compare.

Nothing here imports or calls atomman: the only inputs are ast nodes.
Equality between extracted expressions is decided by computer-algebra normal
forms (expand / cancel / simplify); no solver, no enumeration of inputs.
"""
import ast
import itertools

import numpy as np
import sympy as sp

from .core import AnalysisError, norm, find_def, is_setter


class Opaque(AnalysisError):
    """An obligation met a construct outside the vocabulary where it needed semantics."""


class WouldRaise(Opaque):
    """the fragment, evaluated on the abstract inputs, certainly raises (KeyError on a literal dict, index out of range)"""


class _Raise(Exception):
    def __init__(self, node):
        self.node = node


class PathLimit(AnalysisError):
    pass


class ModelError(Exception):
    """raised by an analyser-side model of a library function where the library itself would raise (name = exception class)"""

    def __init__(self, name, msg=''):
        Exception.__init__(self, '%s: %s' % (name, msg))
        self.name = name


class _FnRaise(Exception):
    """every path of an inlined callee ends in a raise: the call raises"""

    def __init__(self, node):
        Exception.__init__(self, 'callee raises')
        self.node = node


class _PyRaise(Exception):
    """an evaluated library call / subscript raised inside a try block that has handlers: control continues in the handler"""

    def __init__(self, name, exc=None):
        Exception.__init__(self, name)
        self.name, self.exc = name, exc


class _Break(Exception):
    def __init__(self, path):
        self.path = path


class _Continue(Exception):
    def __init__(self, path):
        self.path = path


def S(x):
    """python number -> exact sympy number (0.5 -> 1/2)."""
    if isinstance(x, bool):
        return x
    if isinstance(x, int):
        return sp.Integer(x)
    if isinstance(x, float):
        if x == int(x) and abs(x) < 1e15:
            return sp.Integer(int(x))
        return sp.nsimplify(x, rational=True)
    if isinstance(x, complex):
        return S(x.real) + sp.I * S(x.imag)
    return x


def arr(x):
    """nested lists of sympy -> object ndarray"""
    a = np.empty(np.shape(x), dtype=object)
    if a.ndim == 0:
        return S(x)
    a[...] = np.array(x, dtype=object)
    return a


def symarray(name, shape, **assump):
    a = np.empty(shape, dtype=object)
    for idx in itertools.product(*[range(n) for n in shape]):
        a[idx] = sp.Symbol(name + ''.join(str(i) for i in idx), **assump)
    return a


def is_arr(x):
    return isinstance(x, np.ndarray)


def vmap(f, x):
    if is_arr(x):
        out = np.empty(x.shape, dtype=object)
        for idx in np.ndindex(x.shape):
            out[idx] = f(x[idx])
        return out
    return f(x)


def simp(x):
    return vmap(lambda e: sp.simplify(e) if isinstance(e, sp.Basic) else e, x)


def expand(x):
    return vmap(lambda e: sp.expand(e) if isinstance(e, sp.Basic) else e, x)


_PRIMES = [2, 3, 5, 7, 11, 13, 17, 19, 23, 29, 31, 37, 41, 43, 47, 53, 59, 61, 67, 71, 73, 79, 83, 89, 97, 101, 103, 107, 109, 113]


def numeric_nonzero(e, trials=2):
    """Refutation only: substitute exact rationals for the free symbols (respecting positivity assumptions) and evaluate to 40 digits.
    True means the expression is certainly not identically zero (it is non-zero at a regular point); False means nothing."""
    try:
        syms = sorted(e.free_symbols, key=str)
        if len(syms) > 80:
            return False
        for t in range(trials):
            sub = {}
            for i, sy in enumerate(syms):
                pr, q = _PRIMES[(i + 7 * t) % len(_PRIMES)], _PRIMES[(2 * i + 3 + t) % len(_PRIMES)]
                v = sp.Rational(pr, q + 1)
                if not (sy.is_positive or sy.is_nonnegative) and (i + t) % 3 == 0 and not sy.is_integer:
                    v = -v
                if sy.is_integer:
                    v = sp.Integer(pr if (sy.is_positive or (i + t) % 2) else -pr)
                sub[sy] = v
            val = e.subs(sub)
            if val.free_symbols:
                return False
            val = sp.N(val, 40)
            if val in (sp.nan, sp.zoo, sp.oo, -sp.oo) or not val.is_number:
                continue
            if abs(val) > sp.Float('1e-25'):
                return True
        return False
    except Exception:
        return False


def is_zero(e, assume_pos=(), deep=True):
    """Exact zero test through CAS normal forms (a numeric evaluation at rational points is used only to refute quickly)."""
    if is_arr(e):
        return all(is_zero(v, deep=deep) for v in e.flat)
    e = sp.sympify(e)
    if e == 0:
        return True
    if isinstance(e, sp.Expr) and e.free_symbols and numeric_nonzero(e):
        return False
    x = sp.expand(e)
    if x == 0:
        return True
    try:
        x = sp.cancel(sp.together(e))
        if x == 0:
            return True
    except Exception:
        pass
    if not deep:
        return False
    x = sp.simplify(e)
    if x == 0:
        return True
    try:
        x = sp.simplify(sp.expand_trig(sp.expand(e)))
        if x == 0:
            return True
        x = sp.trigsimp(sp.expand(e))
        if x == 0:
            return True
        x = sp.radsimp(sp.expand(e))
        if x == 0:
            return True
        x = sp.Add(*[sp.simplify(t) for t in sp.Add.make_args(e)])
        if x == 0 or sp.simplify(x) == 0:
            return True
        # polynomials under a radical are factored first: sqrt(p**2 + 2*p*q + q**2) is p + q for positive p, q
        x = sp.simplify(e).replace(lambda t: t.is_Pow and t.exp == sp.S.Half, lambda t: sp.sqrt(sp.factor(t.base)))
        if x == 0 or sp.simplify(x) == 0:
            return True
    except Exception:
        pass
    return False


def equal(a, b, deep=True):
    if is_arr(a) or is_arr(b):
        a = np.asarray(a, dtype=object)
        b = np.asarray(b, dtype=object)
        if a.shape != b.shape:
            return False
        return all(is_zero(x - y, deep=deep) for x, y in zip(a.flat, b.flat))
    return is_zero(sp.sympify(a) - sp.sympify(b), deep=deep)


class SymObj:
    """An instance whose class body is known as ast: attributes from a dict, properties and methods inlined."""

    def __init__(self, cls=None, attrs=None, name='self', mro=()):
        self.cls = cls
        self.attrs = dict(attrs or {})
        self.name = name
        self.mro = [c for c in ((cls,) + tuple(mro)) if c is not None]

    def lookup(self, attr, setter=False):
        for c in self.mro:
            for n in c.body:
                if isinstance(n, ast.FunctionDef) and n.name == attr and is_setter(n) == setter:
                    return n, c
        return None, None


class PyStub:
    """base class for analyser-side models of repository objects: attribute access and indexing are delegated to Python"""


class _ClassRef:
    def __init__(self, name):
        self.name = name


# builtin exception hierarchy (the part handlers in this repository can name)
_EXC_PARENTS = {'UnboundLocalError': ('NameError',), 'KeyError': ('LookupError',), 'IndexError': ('LookupError',), 'ZeroDivisionError': ('ArithmeticError',), 'OverflowError': ('ArithmeticError',),
                'FloatingPointError': ('ArithmeticError',), 'FileNotFoundError': ('OSError', 'IOError'), 'PermissionError': ('OSError', 'IOError'), 'ModuleNotFoundError': ('ImportError',),
                'UnicodeDecodeError': ('UnicodeError', 'ValueError'), 'UnicodeError': ('ValueError',), 'NotImplementedError': ('RuntimeError',), 'RecursionError': ('RuntimeError',)}


class Closure:
    def __init__(self, fn, ev, selfobj=None, outer=None, env=None):
        self.fn, self.ev, self.selfobj = fn, ev, selfobj
        self.outer, self.env = outer, env      # defining function node and the environment it was defined in (free variables)

    def __call__(self, *args, **kw):
        """called back from an analyser-side model (e.g. a stub integrator applying the rate function it was handed)"""
        a2 = ([self.selfobj] if self.selfobj is not None else []) + list(args)
        return self.ev.call_fn(self.fn, a2, kw, Path({}), outer_env=self.env)


_SCALAR_OPAQUE = set()      # numpy functions that may stay uninterpreted scalar atoms (none needed so far)


class OpaqueFn:
    """callee outside the vocabulary: applications become sympy function atoms keyed by normalised name."""

    def __init__(self, name):
        self.name = name

    def __call__(self, *args, **kw):
        if self.name.startswith('numpy.') and self.name not in _SCALAR_OPAQUE:
            # an array function without a model: inventing a scalar value for it would be unsound
            raise Opaque('numpy function outside the model: %s' % self.name)
        flat = []

        def add(a):
            if is_arr(a):
                for x in a.flat:
                    add(x)
            elif isinstance(a, (list, tuple)):
                for x in a:
                    add(x)
            elif isinstance(a, sp.Basic) or isinstance(a, (int, float)):
                flat.append(a)
            else:
                flat.append(sp.Symbol(repr(a)))
        for a in list(args) + [kw[k] for k in sorted(kw)]:
            add(a)
        return sp.Function(self.name)(*[sp.sympify(S(f)) if not isinstance(f, str) else sp.Symbol(f) for f in flat])


EXTERNAL_RESOLVER = None     # set by the driver: (importing module ast, name) -> (FunctionDef, defining module ast) or None


class StrLike:
    """marker: analyser-side value that stands for a string and defines its own + with str"""


class Text:
    """symbolic string: a sequence of pieces; a piece is a str, ('fmt', format, args) for `format % args`, or ('val', value)
    for an interpolated value of an f-string.  Adjacent literal pieces are merged, so two ways of building the same text compare equal."""

    def __init__(self, pieces=()):
        out = []
        for x in pieces:
            if isinstance(x, Text):
                xs = x.pieces
            else:
                xs = [x]
            for y in xs:
                if isinstance(y, str) and out and isinstance(out[-1], str):
                    out[-1] = out[-1] + y
                elif y != '':
                    out.append(y)
        self.pieces = out

    def __add__(self, o):
        if isinstance(o, (str, Text)):
            return Text([self, o])
        return NotImplemented

    def __radd__(self, o):
        if isinstance(o, str):
            return Text([o, self])
        return NotImplemented

    def __repr__(self):
        return 'Text(%r)' % (self.pieces,)

    def literal(self):
        """the text with every formatted piece replaced by a placeholder {k}"""
        out, k = '', 0
        for x in self.pieces:
            if isinstance(x, str):
                out += x
            else:
                out += '{%d}' % k
                k += 1
        return out

    def values(self):
        return [x for x in self.pieces if not isinstance(x, str)]


def _norm_vec(v):
    v = np.asarray(v, dtype=object)
    return sp.sqrt(sum(x ** 2 for x in v.flat))


def _norm_axis(v, axis):
    v = np.asarray(v, dtype=object)
    if axis is not None and not isinstance(axis, tuple) and not -v.ndim <= int(axis) < v.ndim:
        # numpy refuses an axis the array does not have (a single vector where a table of vectors was expected)
        raise ModelError('AxisError', 'axis %d is out of bounds for array of dimension %d' % (int(axis), v.ndim))
    if axis is None or v.ndim == 1:
        return _norm_vec(v)
    sq = np.sum(v * v, axis=axis)
    return vmap(sp.sqrt, sq)


def _mat(a):
    return sp.Matrix(np.asarray(a, dtype=object).tolist())


def _unmat(m):
    return arr(m.tolist())


def _truth(v):
    if isinstance(v, (bool, np.bool_)):
        return bool(v)
    if v is sp.true or v is sp.false:
        return bool(v)
    if isinstance(v, (int, sp.Number)):
        return v != 0
    raise Opaque('np.where on an undecided condition %s' % (v,))


def _np_where(cond, *xy):
    c = np.asarray(cond, dtype=object)
    flags = np.array([_truth(v) for v in c.ravel()], dtype=bool).reshape(c.shape)
    if not xy:
        return tuple(np.nonzero(flags))
    if len(xy) != 2:
        raise ModelError('ValueError', 'either both or neither of x and y should be given')
    x, y = (np.broadcast_to(np.asarray(v, dtype=object), flags.shape) for v in xy)
    out = np.empty(flags.shape, dtype=object)
    out[flags] = x[flags]
    out[~flags] = y[~flags]
    return out


def _asarr(x, *a, **k):
    d = k.get('dtype', a[0] if a else None)
    if isinstance(x, (list, tuple)) and not (d is object or (isinstance(d, str) and d in ('object', 'O'))):
        # a list of arrays of different shapes is not an array of numbers: numpy (since 1.24) refuses it unless an object array is asked for
        shapes = {np.shape(v) for v in x if is_arr(v) or isinstance(v, (list, tuple))}
        if len(shapes) > 1:
            raise ModelError('ValueError', 'setting an array element with a sequence: the requested array has an inhomogeneous shape')
    if isinstance(x, (list, tuple)) and len({np.shape(v) for v in x if is_arr(v) or isinstance(v, (list, tuple))}) > 1:
        # an object array of differently shaped pieces: one entry per piece
        out = np.empty(len(x), dtype=object)
        for i_, v in enumerate(x):
            out[i_] = np.asarray(v, dtype=object) if (is_arr(v) or isinstance(v, (list, tuple))) else S(v)
        return out
    out = arr(_deep(x)) if isinstance(x, (list, tuple)) else x
    if d is not None and (d is int or getattr(d, '_is_int', False) or (isinstance(d, str) and d.startswith('int')) or (isinstance(d, OpaqueFn) and d.name in ('numpy.int64', 'numpy.int32', 'numpy.int_'))):
        # conversion to an integer dtype truncates towards zero (numpy semantics); symbolic entries are left as they are
        trunc = lambda v: (sp.Integer(int(v)) if (isinstance(v, (sp.Rational, sp.Float)) and not isinstance(v, sp.Integer)) or isinstance(v, (bool, np.bool_)) or v is sp.true or v is sp.false else v)
        if is_arr(out) and out.dtype == bool:                      # True / False become 1 / 0: index arrays, no longer a mask
            out = np.array([sp.Integer(int(v)) for v in out.ravel()], dtype=object).reshape(out.shape)
        elif is_arr(out) and out.dtype == object:
            out = vmap(trunc, out)
        elif isinstance(out, sp.Basic):
            out = trunc(out)
    return out


_asarr._wants_dtype = True


def _array(x, *a, **k):
    """np.array copies (unless told not to); np.asarray hands back the same array when no conversion is needed"""
    cp = k.pop('copy', True)
    k.pop('order', None)
    out = _asarr(x, *a, **k)
    if cp and out is x and is_arr(out):
        out = out.copy()
    return out


_array._wants_dtype = True


def _deep(x):
    if isinstance(x, (list, tuple)):
        return [_deep(v) for v in x]
    if is_arr(x):
        return x.tolist()
    return S(x)


def _zeros(shape, *a, **k):
    d = k.get('dtype', a[0] if a else None)
    shp = tuple(int(x) for x in shape) if isinstance(shape, (tuple, list)) else (int(shape),)
    if d is not None and _is_bool_dtype(d):
        return np.zeros(shp, dtype=bool)
    out = np.empty(shp, dtype=object)
    out[...] = sp.Integer(0)
    return out


_zeros._wants_dtype = True


def _fill(shape, v):
    out = _zeros(shape if isinstance(shape, (tuple, list)) else (int(shape),))
    out[...] = S(v)
    return out


def _is_bool_dtype(d):
    return d is bool or d is np.bool_ or getattr(d, '_is_bool', False) or (isinstance(d, str) and d in ('bool', '?', 'bool_')) or (isinstance(d, OpaqueFn) and d.name in ('numpy.bool_', 'numpy.bool', 'bool'))


def _ones(shape, *a, **k):
    d = k.get('dtype', a[0] if a else None)
    out = _zeros(shape)
    if _is_bool_dtype(d):
        return np.ones(out.shape, dtype=bool)
    out[...] = sp.Integer(1)
    return out


_ones._wants_dtype = True


def _identity(n, *a, **k):
    return arr(sp.eye(int(n)).tolist())


def _sum(x, axis=None, keepdims=False, **k):
    extra = {kk: v for kk, v in k.items() if kk not in ('dtype', 'out') and v is not None}
    if extra:
        raise Opaque('np.sum keyword(s) %s are outside the model' % sorted(extra))
    if is_arr(x) or axis is not None or keepdims:
        return np.sum(np.asarray(x, dtype=object), axis=axis, keepdims=bool(keepdims))
    return sum(x)


def _mean(x, axis=None, keepdims=False, **k):
    extra = {kk: v for kk, v in k.items() if kk not in ('dtype', 'out') and v is not None}
    if extra:
        raise Opaque('np.mean keyword(s) %s are outside the model' % sorted(extra))
    a = np.asarray(x, dtype=object)
    return np.sum(a, axis=axis, keepdims=bool(keepdims)) / (S(a.size) if axis is None else S(a.shape[axis]))


def _isclose(a, b, *args, **kw):
    if isinstance(a, (list, tuple)):
        a = _asarr(a)
    if isinstance(b, (list, tuple)):
        b = _asarr(b)
    rtol = kw.get('rtol', args[0] if len(args) > 0 else sp.Rational(1, 100000))
    atol = kw.get('atol', args[1] if len(args) > 1 else sp.Rational(1, 100000000))
    if is_arr(a) or is_arr(b):
        aa, bb = np.broadcast_arrays(np.asarray(a, dtype=object), np.asarray(b, dtype=object))
        out = np.empty(aa.shape, dtype=object)
        for i in np.ndindex(aa.shape):
            out[i] = _isclose(aa[i], bb[i], rtol=rtol, atol=atol)
        return out
    d = a - b
    z = is_zero(d, deep=False)
    if z:
        return True
    sa, sb = sp.sympify(a), sp.sympify(b)
    if sa.is_number and sb.is_number and sa.is_real and sb.is_real:
        # concrete numbers: numpy's own test |a - b| <= atol + rtol |b|
        try:
            return bool(sp.Abs(sa - sb) <= sp.nsimplify(atol) + sp.nsimplify(rtol) * sp.Abs(sb))
        except TypeError:
            pass
    return sp.Eq(sa, sb)        # symbolic operands: the idealisation "equal up to round-off means equal"


class ToleranceLog:
    """Every tolerant comparison (np.isclose / np.allclose) evaluated in a model run, with its operands.  The evaluator idealises such a comparison as exact equality;
    that is sound for round-off clean-up but hides one class of slip: a quantity that carries a physical scale (a length in the caller's units) compared against zero,
    where the relative tolerance is void and the absolute one (1e-8 by default) is a length in arbitrary units.  Rules install the log through `np_override` and ask
    `absolute_on_scaled()` for those sites."""

    def __init__(self):
        self.items = []

    def overrides(self):
        return {'numpy.isclose': self.isclose, 'numpy.allclose': self.allclose}

    def isclose(self, a, b, *args, **kw):
        self.items.append((a, b, kw))
        return _isclose(a, b, *args, **kw)

    def allclose(self, a, b, *args, **kw):
        self.items.append((a, b, kw))
        return _all(_isclose(a, b, *args, **kw))

    def absolute_on_scaled(self, scale_free=()):
        """comparisons against exact zero whose other operand depends on a real-valued (non-integer) symbol not listed as scale-free"""
        out = []
        for a, b, kw in self.items:
            bz = all(is_zero(x) for x in np.ravel(np.asarray(_asarr(b) if isinstance(b, (list, tuple)) else b, dtype=object)))
            if not bz:
                continue
            syms = set()
            for x in np.ravel(np.asarray(_asarr(a) if isinstance(a, (list, tuple)) else a, dtype=object)):
                if isinstance(x, sp.Basic):
                    syms |= {s_ for s_ in x.free_symbols if not s_.is_integer and s_ not in scale_free}
            if syms:
                out.append((a, sorted(map(str, syms)), kw))
        return out


def _take(a, indices, axis, k):
    """np.take: along an axis, or from the flattened array when no axis is given"""
    if k:
        raise Opaque('np.take keyword(s) %s' % sorted(k))
    A = np.asarray(a, dtype=object)
    idx = np.asarray(_intidx(np.asarray(indices, dtype=object)) if not isinstance(indices, (int, np.integer, sp.Integer)) else int(indices))
    if idx.dtype == object:
        raise Opaque('np.take with symbolic indices')
    return np.take(A, idx.astype(int), axis=None if axis is None else int(axis))


def _trunc(e):
    """rounding toward zero"""
    e = sp.sympify(e)
    if e.is_number:
        return sp.floor(e) if e >= 0 else sp.ceiling(e)
    return sp.sign(e) * sp.floor(sp.Abs(e))


def _elementwise2(f, a, b):
    if not (is_arr(a) or is_arr(b) or isinstance(a, (list, tuple)) or isinstance(b, (list, tuple))):
        return f(sp.sympify(a), sp.sympify(b))
    A, B = np.broadcast_arrays(np.asarray(a, dtype=object), np.asarray(b, dtype=object))
    out = np.empty(A.shape, dtype=object)
    for i in range(out.size):
        out.flat[i] = f(sp.sympify(A.flat[i]), sp.sympify(B.flat[i]))
    return out


def _arctan2(y, x):
    """element-wise four-quadrant arctangent with numpy broadcasting"""
    if not (is_arr(y) or is_arr(x) or isinstance(y, (list, tuple)) or isinstance(x, (list, tuple))):
        return sp.atan2(y, x)
    Y, X = np.broadcast_arrays(np.asarray(y, dtype=object), np.asarray(x, dtype=object))
    out = np.empty(Y.shape, dtype=object)
    for i in range(out.size):
        out.flat[i] = sp.atan2(Y.flat[i], X.flat[i])
    return out


def _count_nonzero(a, axis=None):
    """np.count_nonzero: entries that are not zero (a symbol in general position is not zero)"""
    if axis is not None:
        raise Opaque('np.count_nonzero along an axis')
    return sp.Integer(sum(0 if sp.sympify(e) == 0 else 1 for e in np.ravel(np.asarray(a, dtype=object))))


def _fill_diagonal(a, val):
    """np.fill_diagonal: in place, one value for every diagonal entry or one value per entry"""
    if not is_arr(a) or a.ndim != 2:
        raise Opaque('np.fill_diagonal outside the model')
    n = min(a.shape)
    vals = list(np.ravel(np.asarray(val, dtype=object))) if (is_arr(val) or isinstance(val, (list, tuple))) else [val]
    for i in range(n):
        a[i, i] = vals[i % len(vals)]
    return None


def _arange(*a, **k):
    """np.arange on concrete numbers: start + i*step for i < ceil((stop - start) / step)"""
    if any(kk != 'dtype' for kk in k):
        raise Opaque('np.arange keyword(s) %s are outside the model' % sorted(k))
    v = [sp.sympify(x) for x in a]
    if not v or len(v) > 3 or not all(x.is_number and x.is_real for x in v):
        raise Opaque('np.arange with non-numeric bounds')
    start, stop, step = (sp.Integer(0), v[0], sp.Integer(1)) if len(v) == 1 else (v[0], v[1], v[2] if len(v) == 3 else sp.Integer(1))
    if step == 0:
        raise WouldRaise('np.arange with a zero step')
    n = max(0, int(sp.ceiling((stop - start) / step)))
    if n > 100000:
        raise Opaque('np.arange of %d entries' % n)
    out = np.empty(n, dtype=object)
    for i in range(n):
        out[i] = start + i * step
    return out


def _digitize(x, bins, right=False):
    """np.digitize on concrete numbers and increasing edges: the number of edges <= x (edges < x with right=True)"""
    b = [sp.sympify(e) for e in np.ravel(np.asarray(bins, dtype=object))]
    xs = np.asarray(x, dtype=object)
    if not all(e.is_number for e in b) or not all(sp.sympify(e).is_number for e in xs.flat):
        raise Opaque('np.digitize of symbolic values')
    if any(not (b[i] < b[i + 1]) for i in range(len(b) - 1)):
        raise Opaque('np.digitize with edges that are not strictly increasing')
    r = bool(right)
    f = lambda e: sp.Integer(sum(1 for t in b if (t < e if r else t <= e)))
    if xs.ndim == 0:
        return f(sp.sympify(xs.item()))
    out = np.empty(xs.shape, dtype=object)
    for i, e in enumerate(xs.flat):
        out.flat[i] = f(sp.sympify(e))
    return out


NP_FUNCS = {
    'numpy.array': _array, 'numpy.asarray': _asarr, 'numpy.asanyarray': _asarr,
    'numpy.zeros': _zeros, 'numpy.empty': _zeros, 'numpy.ones': _ones,
    'numpy.zeros_like': lambda x, *a, **k: _zeros(_like_shape(x, k)), 'numpy.empty_like': lambda x, *a, **k: _zeros(_like_shape(x, k)),
    'numpy.broadcast_to': lambda x, shape: np.broadcast_to(np.asarray(x, dtype=object), tuple(int(v) for v in shape)).copy(),
    'numpy.atleast_2d': lambda x: np.atleast_2d(np.asarray(x, dtype=object)), 'numpy.atleast_1d': lambda x: np.atleast_1d(np.asarray(x, dtype=object)),
    'numpy.float64': lambda x: x, 'numpy.int64': lambda x: x,
    'numpy.full': lambda shape, v, **k: _fill(shape, v),
    'numpy.identity': _identity, 'numpy.eye': _identity, 'numpy.arange': lambda *a, **k: _arange(*a, **k), 'numpy.digitize': lambda x, bins, right=False: _digitize(x, bins, right),
    'numpy.cos': lambda x: vmap(sp.cos, x), 'numpy.sin': lambda x: vmap(sp.sin, x), 'numpy.tan': lambda x: vmap(sp.tan, x),
    'numpy.arctan': lambda x: vmap(sp.atan, x), 'numpy.arctan2': lambda y, x: _arctan2(y, x),
    'numpy.arccos': lambda x: vmap(sp.acos, x), 'numpy.arcsin': lambda x: vmap(sp.asin, x),
    'numpy.log': lambda x: vmap(sp.log, x), 'numpy.exp': lambda x: vmap(sp.exp, x),
    'numpy.sqrt': lambda x, out=None, **k: _ufunc_out(vmap(sp.sqrt, x), out) if out is not None else vmap(sp.sqrt, x),
    'numpy.diagonal': lambda a, offset=0, axis1=0, axis2=1: np.diagonal(np.asarray(a, dtype=object), int(offset), int(axis1), int(axis2)).copy(), 'numpy.abs': lambda x: vmap(sp.Abs, x), 'numpy.absolute': lambda x: vmap(sp.Abs, x),
    'numpy.sign': lambda x: vmap(sp.sign, x), 'numpy.floor': lambda x: vmap(sp.floor, x), 'numpy.ceil': lambda x: vmap(sp.ceiling, x),
    'numpy.take': lambda a, indices, axis=None, **k: _take(a, indices, axis, k),
    'numpy.trunc': lambda x: vmap(_trunc, x), 'numpy.fix': lambda x: vmap(_trunc, x),
    'numpy.mod': lambda a, b: _elementwise2(lambda p, q: p - q * sp.floor(p / q), a, b), 'numpy.remainder': lambda a, b: _elementwise2(lambda p, q: p - q * sp.floor(p / q), a, b),
    'numpy.fmod': lambda a, b: _elementwise2(lambda p, q: p - q * _trunc(p / q), a, b), 'numpy.floor_divide': lambda a, b: _elementwise2(lambda p, q: sp.floor(p / q), a, b),
    'numpy.rint': lambda x: _rint(x), 'numpy.round': lambda x, decimals=0: (_rint(x) if decimals == 0 and all(sp.sympify(v).is_number for v in np.ravel(x)) else x),
    'numpy.radians': lambda x: vmap(lambda e: e * sp.pi / 180, x), 'numpy.degrees': lambda x: vmap(lambda e: e * 180 / sp.pi, x),
    'numpy.dot': lambda a, b: np.dot(a, b), 'numpy.inner': lambda a, b: np.inner(a, b), 'numpy.outer': lambda a, b: np.outer(a, b),
    'numpy.cross': lambda a, b: np.cross(a, b), 'numpy.einsum': lambda spec, *ops: np.einsum(spec, *[np.asarray(o, dtype=object) for o in ops]),
    'numpy.transpose': lambda a, *ax: np.transpose(a, *ax), 'numpy.trace': lambda a: np.trace(a), 'numpy.sum': _sum,
    'numpy.linalg.norm': lambda v, axis=None, keepdims=False, **k: (np.expand_dims(_norm_axis(v, axis), int(axis)) if (keepdims and axis is not None) else _norm_axis(v, axis)),
    'numpy.linalg.det': lambda a: _mat(a).det(), 'numpy.linalg.inv': lambda a: _unmat(_mat(a).inv()),
    'numpy.linalg.solve': lambda a, b: _unmat(_mat(a).solve(_mat(b))) if np.ndim(b) == 2 else arr(list(_mat(a).solve(sp.Matrix(list(b))))),
    'numpy.diag_indices': lambda n_, ndim=2: tuple(np.diag_indices(int(n_), int(ndim))),
    'numpy.fill_diagonal': lambda a, val, wrap=False: _fill_diagonal(a, val),
    'numpy.tril_indices': lambda n_, k=0, m=None: tuple(np.tril_indices(int(n_), int(k), None if m is None else int(m))),
    'numpy.triu_indices': lambda n_, k=0, m=None: tuple(np.triu_indices(int(n_), int(k), None if m is None else int(m))),
    'numpy.ix_': lambda *a: np.ix_(*[np.array([int(v) for v in np.ravel(x)], dtype=int) for x in a]),
    'numpy.iscomplexobj': lambda x: bool(any(sp.sympify(e).is_real is False or sp.im(sp.sympify(e)) != 0 for e in np.ravel(np.asarray(x, dtype=object)))),
    'numpy.true_divide': lambda a, b, out=None, **k: _ufunc_out(np.asarray(a, dtype=object) / b if is_arr(a) or is_arr(b) else a / b, out),
    'numpy.isclose': _isclose, 'numpy.allclose': lambda a, b, *ar, **k: _all(_isclose(a, b, *ar, **k)),
    'numpy.diag': lambda a: arr(sp.diag(*list(a)).tolist()) if np.ndim(a) == 1 else np.diagonal(a),
    'numpy.stack': lambda xs, axis=0: np.stack([np.asarray(x, dtype=object) for x in xs], axis=axis),
    'numpy.vstack': lambda xs: np.vstack([np.asarray(x, dtype=object) for x in xs]),
    'numpy.hstack': lambda xs: np.hstack([np.asarray(x, dtype=object) for x in xs]),
    'numpy.concatenate': lambda xs, axis=0: np.concatenate([np.asarray(x, dtype=object) for x in xs], axis=axis),
    'numpy.all': lambda x, axis=None, **k: _reduce_axis(_all, x, axis, **k), 'numpy.any': lambda x, axis=None, **k: _reduce_axis(_any, x, axis, **k),
    'numpy.mean': lambda x, axis=None, **k: _mean(x, axis, **k),
    'numpy.conj': lambda x: vmap(sp.conjugate, x),
    'numpy.min': lambda x, axis=None, **k: _reduce_axis(_minof, x, axis, **k), 'numpy.max': lambda x, axis=None, **k: _reduce_axis(_maxof, x, axis, **k),
    'numpy.amin': lambda x, axis=None, **k: _reduce_axis(_minof, x, axis, **k), 'numpy.amax': lambda x, axis=None, **k: _reduce_axis(_maxof, x, axis, **k),
    'numpy.logical_not': lambda x: (not x) if isinstance(x, bool) else np.array([not v if isinstance(v, (bool, np.bool_)) else sp.Not(v) for v in np.asarray(x, dtype=object).flat], dtype=object).reshape(np.shape(x)),
    'numpy.where': _np_where,
    'numpy.flatnonzero': lambda x: np.array([i for i, v in enumerate(np.ravel(np.asarray(x, dtype=object))) if _truth(v)], dtype=int),
    'numpy.nonzero': lambda x: _np_where(x),
    # (an expression in general position is not zero: the same reading as for closeness tests on symbolic quantities)
    'numpy.count_nonzero': lambda x, axis=None, **k: _reduce_axis(lambda a: sp.Integer(sum(1 for v in np.ravel(a) if (bool(v) if isinstance(v, (bool, np.bool_)) else sp.sympify(v) != 0))), x, axis, **k),
    'numpy.argmax': lambda x, axis=None, **k: _reduce_axis(lambda a: sp.Integer(max(range(a.size), key=lambda i: (sp.sympify(np.ravel(a)[i]), -i))), x, axis, **k),
    'numpy.argmin': lambda x, axis=None, **k: _reduce_axis(lambda a: sp.Integer(min(range(a.size), key=lambda i: (sp.sympify(np.ravel(a)[i]), i))), x, axis, **k),
    'numpy.prod': lambda x, axis=None, **k: _reduce_axis(lambda a: sp.Mul(*np.ravel(a)), x, axis, **k),
    'numpy.moveaxis': lambda a, s_, d: np.moveaxis(np.asarray(a, dtype=object), s_, d), 'numpy.swapaxes': lambda a, i, j: np.swapaxes(np.asarray(a, dtype=object), int(i), int(j)),
    'numpy.expand_dims': lambda a, axis: np.expand_dims(np.asarray(a, dtype=object), axis), 'numpy.squeeze': lambda a, axis=None: np.squeeze(np.asarray(a, dtype=object), axis=axis),
    'numpy.reshape': lambda a, shape: np.reshape(np.asarray(a, dtype=object), shape), 'numpy.ravel': lambda a: np.ravel(np.asarray(a, dtype=object)),
    'numpy.tile': lambda a, reps: np.tile(np.asarray(a, dtype=object), (int(reps) if np.ndim(reps) == 0 else tuple(int(v) for v in np.ravel(reps)))), 'numpy.repeat': lambda a, r, axis=None: np.repeat(np.asarray(a, dtype=object), (int(r) if np.ndim(r) == 0 else [int(v) for v in np.ravel(r)]), axis=axis),
    'numpy.apply_along_axis': lambda func1d=None, axis=None, arr=None, *args, **kw: _apply_along(func1d, axis, arr, args, kw),
    'numpy.block': lambda blocks: np.block([[np.asarray(b, dtype=object) for b in row] if isinstance(row, (list, tuple)) else np.asarray(row, dtype=object) for row in blocks]),
    'numpy.ascontiguousarray': lambda a, **k: np.array(np.asarray(a, dtype=object)), 'numpy.asfortranarray': lambda a, **k: np.array(np.asarray(a, dtype=object)),
    'numpy.copy': lambda a, **k: np.array(np.asarray(a, dtype=object)), 'numpy.linspace': lambda a, b, n_=50, **k: arr([a + (b - a) * sp.Rational(i, int(n_) - 1) for i in range(int(n_))]) if int(n_) > 1 else arr([a]),
    'numpy.triu': lambda a, k=0: np.triu(np.asarray(a, dtype=object), k), 'numpy.tril': lambda a, k=0: np.tril(np.asarray(a, dtype=object), k),
    'numpy.kron': lambda a, b: np.kron(np.asarray(a, dtype=object), np.asarray(b, dtype=object)),
    'numpy.flip': lambda a, axis=None: np.flip(np.asarray(a, dtype=object), axis), 'numpy.roll': lambda a, sh, axis=None: np.roll(np.asarray(a, dtype=object), int(sh), axis),
    'numpy.delete': lambda a, idx, axis=None: np.delete(np.asarray(a, dtype=object), idx, axis), 'numpy.insert': lambda a, idx, v, axis=None: np.insert(np.asarray(a, dtype=object), idx, v, axis),
    'numpy.append': lambda a, v, axis=None: np.append(np.asarray(a, dtype=object), np.asarray(v, dtype=object), axis),
    'numpy.cumsum': lambda a, axis=None: np.cumsum(np.asarray(a, dtype=object), axis), 'numpy.diff': lambda a, n=1, axis=-1: np.diff(np.asarray(a, dtype=object), int(n), axis),
    'numpy.isin': lambda a, b: np.array([any(is_zero(sp.sympify(x) - sp.sympify(y), deep=False) for y in np.ravel(np.asarray(b, dtype=object))) for x in np.ravel(np.asarray(a, dtype=object))]).reshape(np.shape(a)),
    'numpy.column_stack': lambda xs: np.column_stack([np.asarray(x, dtype=object) for x in xs]),
    'numpy.array_equal': lambda a, b: bool(np.shape(a) == np.shape(b) and all(is_zero(sp.sympify(x) - sp.sympify(y), deep=False) for x, y in zip(np.ravel(np.asarray(a, dtype=object)), np.ravel(np.asarray(b, dtype=object))))),
    'numpy.square': lambda x: vmap(lambda e: e ** 2, x), 'numpy.negative': lambda x: vmap(lambda e: -e, x), 'numpy.fabs': lambda x: vmap(sp.Abs, x),
    'numpy.hypot': lambda a, b: vmap(sp.sqrt, np.asarray(a, dtype=object) ** 2 + np.asarray(b, dtype=object) ** 2) if is_arr(a) or is_arr(b) else sp.sqrt(a ** 2 + b ** 2),
    'numpy.ndim': lambda x: np.ndim(x), 'numpy.shape': lambda x: np.shape(x), 'numpy.size': lambda x: np.size(x),
    'numpy.isscalar': lambda x: not is_arr(x) and not isinstance(x, (list, tuple)),
    'numpy.matmul': lambda a, b: np.matmul(np.asarray(a, dtype=object), np.asarray(b, dtype=object)), 'numpy.tensordot': lambda a, b, axes=2: np.tensordot(np.asarray(a, dtype=object), np.asarray(b, dtype=object), axes=axes),
    'numpy.linalg.multi_dot': lambda xs: __import__('functools').reduce(np.dot, [np.asarray(x, dtype=object) for x in xs]),
    'numpy.minimum': lambda a, b: _ew2(sp.Min, a, b), 'numpy.maximum': lambda a, b: _ew2(sp.Max, a, b),
    'numpy.clip': lambda x, lo, hi, out=None, **k: _clip(x, lo, hi, out),
    'numpy.logical_and': lambda a, b: _band(a, b), 'numpy.logical_or': lambda a, b: _bor(a, b),
    'numpy.less': lambda a, b: _cmp2(lambda x, y: x < y, a, b), 'numpy.less_equal': lambda a, b: _cmp2(lambda x, y: x <= y, a, b),
    'numpy.greater': lambda a, b: _cmp2(lambda x, y: x > y, a, b), 'numpy.greater_equal': lambda a, b: _cmp2(lambda x, y: x >= y, a, b),
    'numpy.equal': lambda a, b: _cmp2(lambda x, y: sp.Eq(x, y), a, b), 'numpy.not_equal': lambda a, b: _cmp2(lambda x, y: sp.Ne(x, y), a, b),
    'numpy.indices': lambda dims, dtype=None, **k: np.array(np.indices(tuple(int(d) for d in dims)), dtype=object),
    'numpy.subtract': lambda a, b, out=None, **k: _ufunc_out(np.asarray(a, dtype=object) - np.asarray(b, dtype=object), out),
    'numpy.add': lambda a, b, out=None, **k: _ufunc_out(np.asarray(a, dtype=object) + np.asarray(b, dtype=object), out),
    'numpy.multiply': lambda a, b, out=None, **k: _ufunc_out(np.asarray(a, dtype=object) * np.asarray(b, dtype=object), out),
    'numpy.divide': lambda a, b, out=None, **k: _ufunc_out(np.asarray(a, dtype=object) / np.asarray(b, dtype=object), out),
    'numpy.true_divide': lambda a, b, out=None, **k: _ufunc_out(np.asarray(a, dtype=object) / np.asarray(b, dtype=object), out),
    'numpy.power': lambda a, b, **k: np.asarray(a, dtype=object) ** b,
    'numpy.zeros_like': lambda x, *a, **k: _zeros(_like_shape(x, k)), 'numpy.ones_like': lambda x, *a, **k: _ones(_like_shape(x, k)),
    'numpy.full_like': lambda x, v, **k: _fill(np.shape(x), v),
    'numpy.real': lambda x: vmap(sp.re, x), 'numpy.imag': lambda x: vmap(sp.im, x),
    'copy.deepcopy': lambda x: _copy(x), 'copy.copy': lambda x: _copy(x),
}
NP_CONSTS = {'numpy.pi': sp.pi, 'numpy.e': sp.E, 'numpy.inf': sp.oo, 'numpy.newaxis': None, 'math.pi': sp.pi, 'math.e': sp.E, 'math.inf': sp.oo}


def _pylist(x):
    return list(x) if not is_arr(x) else [x[i] for i in range(x.shape[0])]


import itertools as _it
import functools as _ft
NP_FUNCS.update({
    'itertools.product': lambda *its, repeat=1: list(_it.product(*[_pylist(i) for i in its], repeat=int(repeat))),
    'itertools.permutations': lambda it, r=None: list(_it.permutations(_pylist(it), None if r is None else int(r))),
    'itertools.combinations': lambda it, r: list(_it.combinations(_pylist(it), int(r))),
    'itertools.chain': lambda *its: [v for i in its for v in _pylist(i)],
    'itertools.repeat': lambda v, n_: [v] * int(n_),
    'functools.reduce': lambda f, xs, *init: _ft.reduce(f, _pylist(xs), *init),
    'math.sqrt': lambda x: sp.sqrt(x), 'math.cos': lambda x: sp.cos(x), 'math.sin': lambda x: sp.sin(x), 'math.tan': lambda x: sp.tan(x), 'math.acos': lambda x: sp.acos(x), 'math.asin': lambda x: sp.asin(x),
    'math.atan': lambda x: sp.atan(x), 'math.atan2': lambda y, x: sp.atan2(y, x), 'math.log': lambda x, *b: sp.log(x, *b), 'math.exp': lambda x: sp.exp(x), 'math.floor': lambda x: sp.floor(x), 'math.ceil': lambda x: sp.ceiling(x),
    'math.fabs': lambda x: sp.Abs(x), 'math.radians': lambda x: x * sp.pi / 180, 'math.degrees': lambda x: x * 180 / sp.pi, 'math.gcd': lambda *a: sp.Integer(__import__('math').gcd(*[int(v) for v in a])),
    'math.hypot': lambda *a: sp.sqrt(sum(v ** 2 for v in a)), 'math.isclose': lambda a, b, **k: _isclose(a, b), 'math.prod': lambda xs: sp.Mul(*_pylist(xs)),
    'operator.index': lambda v: _op_index(v), 'operator.add': lambda a, b: a + b, 'operator.sub': lambda a, b: a - b, 'operator.mul': lambda a, b: a * b, 'operator.neg': lambda a: -a,
    'operator.itemgetter': lambda *ks: (lambda o: o[ks[0]] if len(ks) == 1 else tuple(o[k_] for k_ in ks)),
    'collections.OrderedDict': lambda *a, **k: dict(*a, **k), 'collections.defaultdict': lambda *a, **k: dict(),
    'copy.copy': lambda x: (x.copy() if is_arr(x) else (list(x) if isinstance(x, list) else (dict(x) if isinstance(x, dict) else x))),
})


def _copy(x):
    if is_arr(x):
        return x.copy()
    if isinstance(x, list):
        return [_copy(v) for v in x]
    return x


def _reduce_axis(f, x, axis=None, keepdims=False, **k):
    """apply a whole-array reduction model along one axis (numpy semantics); unknown keywords are refused, not ignored"""
    extra = {kk: v for kk, v in k.items() if kk not in ('out', 'dtype') and v is not None}
    if extra:
        raise Opaque('reduction keyword(s) %s are outside the model' % sorted(extra))
    a = np.asarray(x, dtype=object) if not is_arr(x) else x
    if axis is None:
        r = f(a)
        return np.array(r, dtype=object).reshape((1,) * a.ndim) if keepdims else r
    if isinstance(axis, (tuple, list)):
        raise Opaque('reduction over several axes')
    ax = int(axis)
    if not -a.ndim <= ax < max(a.ndim, 1):
        raise ModelError('AxisError', 'axis %d is out of bounds for array of dimension %d' % (ax, a.ndim))
    ax %= max(a.ndim, 1)
    moved = np.moveaxis(a, ax, -1)
    out = np.empty(moved.shape[:-1], dtype=object)
    for i in np.ndindex(out.shape):
        out[i] = f(moved[i])
    if out.ndim == 0:
        out = out[()]
    elif all(isinstance(v, (bool, np.bool_)) for v in out.flat):
        out = out.astype(bool)
    return np.expand_dims(out, ax) if keepdims else out


def _minof(a):
    if np.size(a) == 0:
        raise ModelError('ValueError', 'zero-size array to reduction operation minimum which has no identity')
    return sp.Min(*np.asarray(a, dtype=object).flat)


def _maxof(a):
    if np.size(a) == 0:
        raise ModelError('ValueError', 'zero-size array to reduction operation maximum which has no identity')
    return sp.Max(*np.asarray(a, dtype=object).flat)


def _rint(x):
    def one(v):
        v = sp.sympify(v)
        if v.is_integer:
            return v
        if v.is_Rational:
            return sp.Integer(round(v))          # Python rounds exact fractions half to even, as numpy does
        if v.is_Float:
            return sp.Integer(round(float(v)))
        return sp.floor(v + sp.Rational(1, 2))   # symbolic: nearest integer up to the tie rule
    return vmap(one, x)


def _ufunc_out(r, out):
    if out is None:
        return r if (np.ndim(r) or not is_arr(r)) else r[()]
    if not is_arr(out):
        raise ModelError('TypeError', 'return arrays must be of ArrayType')
    out[...] = r
    return out


def _cmp2(f, a, b):
    """elementwise comparison (numpy.less etc.): decided entries become Python bools, undecided ones stay relational"""
    def one(x, y):
        r = f(sp.sympify(x), sp.sympify(y))
        return bool(r) if r in (sp.true, sp.false) else r
    if is_arr(a) or is_arr(b) or isinstance(a, (list, tuple)) or isinstance(b, (list, tuple)):
        A, B = np.broadcast_arrays(np.asarray(a, dtype=object), np.asarray(b, dtype=object))
        out = np.empty(A.shape, dtype=object)
        for i in np.ndindex(A.shape):
            out[i] = one(A[i], B[i])
        return out
    return one(a, b)


def _clip(x, lo, hi, out=None):
    r = vmap(lambda e: sp.Max(lo, sp.Min(hi, e)), x)
    if out is not None:
        if not is_arr(out):
            raise ModelError('TypeError', 'return arrays must be of ArrayType')
        out[...] = r
        return out
    return r


def _ew2(f, a, b):
    if is_arr(a) or is_arr(b) or isinstance(a, (list, tuple)) or isinstance(b, (list, tuple)):
        A, B = np.broadcast_arrays(np.asarray(a, dtype=object), np.asarray(b, dtype=object))
        out = np.empty(A.shape, dtype=object)
        for i in np.ndindex(A.shape):
            out[i] = f(A[i], B[i])
        return out
    return f(a, b)


def _all(x):
    vals = list(x.flat) if is_arr(x) else (list(x) if isinstance(x, (list, tuple)) else [x])
    if any(v is False or v == sp.false for v in vals):
        return False
    rest = [v for v in vals if not (v is True or v == sp.true)]
    return True if not rest else sp.And(*rest)


def _any(x):
    vals = list(x.flat) if is_arr(x) else (list(x) if isinstance(x, (list, tuple)) else [x])
    if any(v is True or v == sp.true for v in vals):
        return True
    rest = [v for v in vals if not (v is False or v == sp.false)]
    return False if not rest else sp.Or(*rest)


BIN = {ast.Add: lambda a, b: a + b, ast.Sub: lambda a, b: a - b, ast.Mult: lambda a, b: a * b,
       ast.Div: lambda a, b: a / b, ast.Pow: lambda a, b: a ** b, ast.Mod: lambda a, b: a % b,
       ast.FloorDiv: lambda a, b: a // b, ast.MatMult: lambda a, b: np.dot(a, b),
       ast.BitAnd: lambda a, b: _band(a, b), ast.BitOr: lambda a, b: _bor(a, b)}


def _band(a, b):
    if is_arr(a) or is_arr(b):
        a, b = np.broadcast_arrays(np.asarray(a, dtype=object), np.asarray(b, dtype=object))
        out = np.empty(a.shape, dtype=object)
        for i in np.ndindex(a.shape):
            out[i] = _band(a[i], b[i])
        return out
    if a is False or b is False:
        return False
    if a is True:
        return b
    if b is True:
        return a
    return sp.And(a, b)


def _bor(a, b):
    if is_arr(a) or is_arr(b):
        a, b = np.broadcast_arrays(np.asarray(a, dtype=object), np.asarray(b, dtype=object))
        out = np.empty(a.shape, dtype=object)
        for i in np.ndindex(a.shape):
            out[i] = _bor(a[i], b[i])
        return out
    if a is True or b is True:
        return True
    if a is False:
        return b
    if b is False:
        return a
    return sp.Or(a, b)


CMP = {ast.Eq: sp.Eq, ast.NotEq: sp.Ne, ast.Lt: sp.Lt, ast.LtE: sp.Le, ast.Gt: sp.Gt, ast.GtE: sp.Ge}


class Path:
    def __init__(self, env, conds=None):
        self.env = env
        self.conds = list(conds or [])
        self.ret = None
        self.done = None  # None | 'return' | 'raise'
        self.raised = None

    def fork(self):
        p = Path({k: _copy(v) if is_arr(v) or isinstance(v, list) else (dict(v) if isinstance(v, dict) else v) for k, v in self.env.items()}, self.conds)
        return p


class SymEval:
    """aliases: local name -> dotted module path ('np' -> 'numpy').  funcs: dotted/local name -> FunctionDef to inline.
    decide(cond_text, cond_value, path) -> True/False/None lets a rule choose branches that only depend on its named inputs."""

    MAX_PATHS = 256

    def __init__(self, aliases=None, funcs=None, decide=None, opaque_calls=True, max_depth=6):
        self.aliases = {'np': 'numpy', 'numpy': 'numpy', 'deepcopy': 'copy.deepcopy', 'copy': 'copy', 'itertools': 'itertools', 'math': 'math', 'functools': 'functools', 'collections': 'collections', 'operator': 'operator'}
        self.aliases.update(aliases or {})
        self.funcs = dict(funcs or {})
        self.decide = decide
        self.opaque_calls = opaque_calls
        self.depth = 0
        self.skip = None       # predicate(stmt) -> True to treat a statement as the identity (declared per rule, with a reason)
        self.skipped = []
        self.classes = {}      # local class name -> (ClassDef, mro tuple) for instantiation
        self.max_depth = max_depth
        self.trace = []
        self.text_mode = False  # f-strings / %-formatting become Text values
        self.try_depth = 0
        self.fn_stack = []
        self.module = getattr(aliases, 'module', None)      # ast.Module: module-level `NAME = {}` / `[]` / constant bindings become visible (one fresh object per evaluator)
        self.np_override = {}   # dotted numpy name -> model function (consulted before NP_FUNCS)
        self._module_busy = set()
        self.globals = {}       # module-level names visible in every inlined function (rule-provided models of imports)

    # ------------------------------------------------------------ names
    def dotted(self, node):
        parts = []
        while isinstance(node, ast.Attribute):
            parts.append(node.attr)
            node = node.value
        if isinstance(node, ast.Name):
            parts.append(node.id)
            return list(reversed(parts))
        return None

    def resolve_global(self, node):
        d = self.dotted(node)
        if not d:
            return None
        if d[0] in self.aliases:
            return '.'.join([self.aliases[d[0]]] + d[1:])
        return None

    # ------------------------------------------------------------ expressions
    def ev(self, node, path):
        m = getattr(self, 'e_' + type(node).__name__, None)
        if m is None:
            raise Opaque('expression kind %s: %s' % (type(node).__name__, norm(node)))
        return m(node, path)

    def e_Constant(self, n, p):
        v = n.value
        if isinstance(v, (int, float, complex)) and not isinstance(v, bool):
            return S(v)
        return v

    def e_Name(self, n, p):
        if n.id in p.env:
            return p.env[n.id]
        if n.id in self.globals:
            return self.globals[n.id]
        if self.module is not None:
            for st in self.module.body:
                if isinstance(st, ast.Assign) and len(st.targets) == 1 and isinstance(st.targets[0], ast.Name) and st.targets[0].id == n.id:
                    v = st.value
                    if isinstance(v, ast.Constant) or (isinstance(v, ast.Dict) and not v.keys) or (isinstance(v, (ast.List, ast.Tuple)) and not v.elts):
                        self.globals[n.id] = self.ev(v, Path({}))
                        return self.globals[n.id]
                    # a computed module-level table / constant: evaluated once per evaluator, in the module's own scope
                    if n.id not in self._module_busy:
                        self._module_busy.add(n.id)
                        try:
                            self.globals[n.id] = self.ev(v, Path({}))
                        finally:
                            self._module_busy.discard(n.id)
                        return self.globals[n.id]
        if n.id in ('True', 'False', 'None'):
            return {'True': True, 'False': False, 'None': None}[n.id]
        if n.id in self.classes:
            return _ClassRef(n.id)
        if n.id in self.funcs:
            return Closure(self.funcs[n.id], self)
        if self.module is not None:
            for st in self.module.body:      # a helper function of the module under analysis
                if isinstance(st, ast.FunctionDef) and st.name == n.id:
                    return Closure(st, self)
        # a function inlined from another module of the repository (a method of a class defined elsewhere) sees that module's helpers and simple constants
        home = getattr(self.fn_stack[-1], '_mod', None) if self.fn_stack else None
        if home is not None and home is not self.module:
            for st in home.body:
                if isinstance(st, ast.FunctionDef) and st.name == n.id:
                    sub = SymEval(module_aliases(home))
                    sub.globals, sub.np_override, sub.decide, sub.classes = self.globals, self.np_override, self.decide, self.classes
                    return Closure(st, sub)
                if isinstance(st, ast.Assign) and len(st.targets) == 1 and isinstance(st.targets[0], ast.Name) and st.targets[0].id == n.id and isinstance(st.value, (ast.Constant, ast.Tuple, ast.List, ast.Dict)):
                    try:
                        return ast.literal_eval(st.value)
                    except ValueError:
                        pass
        g = self.resolve_global(n)
        if g in self.np_override:
            return self.np_override[g]
        if g in NP_FUNCS:
            return NP_FUNCS[g]
        if EXTERNAL_RESOLVER is not None and self.module is not None:
            ext = EXTERNAL_RESOLVER(self.module, n.id)      # a function of the repository imported from another module
            if ext is not None:
                fn_, mod_ = ext
                sub = SymEval(module_aliases(mod_))
                sub.globals, sub.np_override, sub.decide = self.globals, self.np_override, self.decide
                return Closure(fn_, sub)
        if n.id in ('range', 'len', 'int', 'float', 'abs', 'sum', 'min', 'max', 'list', 'tuple', 'isinstance', 'complex', 'round', 'zip', 'enumerate', 'str'):
            if n.id == 'len':
                def _len(x):
                    if isinstance(x, SymObj):
                        ln, _c = x.lookup('__len__')
                        if ln is None:
                            raise Opaque('len() of %s' % x.name)
                        return self.call_fn(ln, [x], {}, p)
                    return len(x)
                return _len
            return {'range': lambda *a: list(range(*[int(x) for x in a])), 'len': len, 'int': _int_model, 'float': lambda x: (S(int(x)) if isinstance(x, str) and x.strip().lstrip('+-').isdigit() else (S(float(x)) if isinstance(x, str) else x)),
                    'abs': lambda x: (vmap(sp.Abs, x) if is_arr(x) else sp.Abs(x)), 'sum': lambda x, start=0: sum(self.iterate(x, n), start), 'min': lambda *a, **k: self._scripted_minmax(True, a, k, p, n) if self._scriptable(a, k) else _minmax(sp.Min, min, a, k, lambda v: self.iterate(v, n)),
                    'max': lambda *a, **k: self._scripted_minmax(False, a, k, p, n) if self._scriptable(a, k) else _minmax(sp.Max, max, a, k, lambda v: self.iterate(v, n)), 'list': lambda *a: list(self.iterate(a[0], n)) if a else [], 'tuple': lambda *a: tuple(self.iterate(a[0], n)) if a else (),
                    'isinstance': lambda *a: Opaque, 'complex': lambda a, b=0: a + sp.I * b, 'round': lambda x, n=0: x,
                    'zip': lambda *a: list(zip(*[self.iterate(x, n) for x in a])), 'enumerate': lambda a, start=0: list(enumerate(self.iterate(a, n), int(start))), 'str': str}[n.id]
        if n.id == 'object':
            return object
        if n.id == 'iter':
            return lambda x: _ModelIter(self.iterate(x, n))
        if n.id == 'next':
            def _next(it, *default):
                if isinstance(it, (list, tuple)):      # a generator expression (evaluated eagerly): its first item
                    if it:
                        return it[0]
                    if default:
                        return default[0]
                    raise ModelError('StopIteration', 'iterator exhausted')
                if not isinstance(it, _ModelIter):
                    raise Opaque('next() of %s' % type(it).__name__)
                try:
                    return next(it)
                except StopIteration:
                    if default:
                        return default[0]
                    raise ModelError('StopIteration', 'iterator exhausted')
            return _next
        if n.id == 'reversed':
            return lambda x: list(reversed(self.iterate(x, n)))
        if n.id == 'setattr':
            def _setattr(o, a, v):
                if isinstance(o, SymObj):
                    # setattr(obj, 'name', value) is `obj.name = value`: a property setter of the class is called, a plain attribute is stored
                    sfn, _scls = o.lookup(str(a), setter=True)
                    if sfn is not None:
                        self.call_fn(sfn, [o, v], {}, p)
                    else:
                        o.attrs[str(a)] = v
                elif isinstance(o, PyStub):
                    setattr(o, a, v)
                else:
                    raise Opaque('setattr on %s' % type(o).__name__)
            return _setattr
        if n.id == 'getattr':
            def _getattr(o, a, *default):
                try:
                    return self.getattr(o, a, n, p)
                except Opaque:
                    if default:
                        return default[0]
                    raise
            return _getattr
        if n.id in ('divmod', 'pow', 'format', 'repr', 'frozenset', 'map', 'filter', 'type', 'id', 'callable', 'slice', 'print'):
            if n.id == 'print':
                return lambda *a, **k: None
            if n.id == 'map':
                return lambda f, *xs: [f(*t) for t in zip(*[self.iterate(x, n) for x in xs])]
            if n.id == 'filter':
                return lambda f, xs: [v for v in self.iterate(xs, n) if self.truth(f(v) if f is not None else v, n, p) is True]
            if n.id in ('divmod', 'pow', 'format', 'repr', 'frozenset', 'callable', 'slice'):
                return {'divmod': lambda a, b: (a // b, a % b), 'pow': lambda a, b: a ** b, 'format': format, 'repr': repr, 'frozenset': frozenset, 'callable': callable, 'slice': slice}[n.id]
        if n.id == 'hasattr':
            def _hasattr(o, a):
                if isinstance(o, SymObj):
                    return a in o.attrs or o.lookup(a)[0] is not None
                if isinstance(o, (PyStub, str, list, tuple, dict)) or o is None:
                    return hasattr(o, a)
                raise Opaque('hasattr on %s' % type(o).__name__)
            return _hasattr
        if n.id == 'bool':
            f = lambda x=False: self.truth(x, n, p)
            f._is_bool = True          # also used as a dtype
            return f
        if n.id == 'all':
            return lambda x: _all(list(x))
        if n.id == 'any':
            return lambda x: _any(list(x))
        if n.id in ('dict', 'set'):
            return {'dict': dict, 'set': set}[n.id]
        if n.id == 'sorted':
            def _sorted(x, key=None, reverse=False):
                x = list(x)
                ks = [key(v) for v in x] if key is not None else list(x)

                def kind(v):
                    if isinstance(v, str):
                        return 'str'
                    if isinstance(v, (bool, np.bool_)):
                        return 'num'
                    if isinstance(v, (int, float, np.integer, np.floating)) or (isinstance(v, sp.Basic) and v.is_number and v.is_real):
                        return 'num'
                    if isinstance(v, (tuple, list)):
                        ks_ = [kind(e) for e in v]
                        return None if None in ks_ else 'seq'
                    if isinstance(v, PyStub) and '__lt__' in type(v).__dict__:
                        return 'obj:' + type(v).__name__          # a model object that defines its own ordering (paths order by name)
                    return None
                kinds = {kind(v) for v in ks}
                if None in kinds or len(kinds) > 1:
                    if not ks:
                        return []
                    raise Opaque('sorted() of symbolic values')
                return [x[i] for i in sorted(range(len(x)), key=lambda i: ks[i], reverse=bool(self.truth(reverse, n, p)) if not isinstance(reverse, bool) else reverse)]
            return _sorted
        if n.id in p.env.get('__global_names__', ()):
            # declared `global`, never bound by the module or by an earlier call on this evaluator
            if self.try_depth > 0:
                raise _PyRaise('NameError')
            raise WouldRaise('NameError: global name %r is read before anything assigned it' % n.id)
        if self.fn_stack:
            fn = self.fn_stack[-1]
            loc = getattr(fn, '_am_locals', None)
            if loc is None:
                loc = {x.id for x in ast.walk(fn) if isinstance(x, ast.Name) and isinstance(x.ctx, ast.Store)}
                try:
                    fn._am_locals = loc
                except Exception:
                    pass
            if n.id in loc:
                if self.try_depth > 0:
                    raise _PyRaise('UnboundLocalError')
                raise WouldRaise('UnboundLocalError: local variable %r is read before it is assigned on this path' % n.id)
        raise Opaque('unbound name %s' % n.id)

    def e_UnaryOp(self, n, p):
        v = self.ev(n.operand, p)
        if isinstance(n.op, ast.USub):
            return -v
        if isinstance(n.op, ast.UAdd):
            return v
        if isinstance(n.op, ast.Not):
            d = self._decided(v)
            if d is not None:
                return not d
            return sp.Not(v)
        if isinstance(n.op, ast.Invert):
            if isinstance(v, (bool, np.bool_)):
                return not v
            if is_arr(v) and v.dtype == bool:
                return ~v
            if is_arr(v) and v.dtype == object and all(isinstance(e, (bool, np.bool_)) or e is sp.true or e is sp.false for e in v.ravel()):
                return np.array([not bool(e) for e in v.ravel()], dtype=bool).reshape(v.shape)
            # whole numbers: ~x is -(x + 1), as for Python and numpy integers (an index array is not complemented by ~)
            def _whole(e):
                return (isinstance(e, (int, np.integer)) and not isinstance(e, (bool, np.bool_))) or isinstance(e, sp.Integer)
            if _whole(v):
                return sp.Integer(-(int(v) + 1))
            if is_arr(v) and v.size and (np.issubdtype(v.dtype, np.integer) or (v.dtype == object and all(_whole(e) for e in v.ravel()))):
                return np.array([sp.Integer(-(int(e) + 1)) for e in v.ravel()], dtype=object).reshape(v.shape)
            return vmap(sp.Not, v)
        raise Opaque(norm(n))

    def e_BinOp(self, n, p):
        a, b = self.ev(n.left, p), self.ev(n.right, p)
        if isinstance(a, (list, tuple)) and isinstance(n.op, ast.Add) and isinstance(b, (list, tuple)):
            return type(a)(list(a) + list(b))
        if isinstance(a, (list, tuple)) and is_arr(b) or isinstance(b, (list, tuple)) and is_arr(a):
            a, b = _asarr(a), _asarr(b)
        if isinstance(a, (str, Text, StrLike)) or isinstance(b, (str, Text, StrLike)):
            if isinstance(n.op, ast.Add) and isinstance(a, (str, Text, StrLike)) and isinstance(b, (str, Text, StrLike)):
                return a + b
            if isinstance(n.op, ast.Mod) and isinstance(a, str):
                vals = tuple(b) if isinstance(b, (tuple, list)) else (b,)
                if not self.text_mode and all(isinstance(v, (str, int, sp.Integer)) and not isinstance(v, bool) for v in vals):
                    try:
                        return a % tuple(int(v) if isinstance(v, sp.Integer) else v for v in vals)       # concrete values: the text itself
                    except (TypeError, ValueError) as e:
                        raise WouldRaise('%s: %s in %s' % (type(e).__name__, e, norm(n)))
                return Text([('fmt', a, vals)])
            if isinstance(n.op, ast.Mult) and isinstance(a, str) and isinstance(b, (int, sp.Integer)):
                return a * int(b)
            other = b if isinstance(a, (str, Text, StrLike)) else a
            if isinstance(a, str) or isinstance(b, str):
                if (isinstance(other, sp.Basic) and not isinstance(other, sp.Integer)) or is_arr(other) or isinstance(n.op, (ast.Div, ast.Sub, ast.Pow, ast.FloorDiv)) and not isinstance(other, (Text, StrLike)):
                    # Python refuses arithmetic between text and a number / symbol
                    if self.try_depth > 0:
                        raise _PyRaise('TypeError')
                    raise WouldRaise('TypeError: unsupported operand types (text and number) in %s' % norm(n))
            raise Opaque('string arithmetic ' + norm(n))
        # booleans in arithmetic with exact values count as 0 / 1 (numpy does the same; sympy refuses bool operands)
        def _b2i(x, other):
            if is_arr(other) and other.dtype == object or isinstance(other, sp.Basic):
                if is_arr(x) and x.dtype == bool:
                    return np.array([sp.Integer(int(v)) for v in x.ravel()], dtype=object).reshape(x.shape)
                if is_arr(x) and x.dtype == object and x.size and all(isinstance(v, (bool, np.bool_)) for v in x.ravel()):
                    return np.array([sp.Integer(int(v)) for v in x.ravel()], dtype=object).reshape(x.shape)
                if isinstance(x, (bool, np.bool_)):
                    return sp.Integer(int(x))
            return x
        if not isinstance(n.op, (ast.BitAnd, ast.BitOr, ast.BitXor)):
            a, b = _b2i(a, b), _b2i(b, a)
        try:
            return BIN[type(n.op)](a, b)
        except KeyError:
            raise Opaque('operator ' + norm(n))
        except ValueError as e:
            if 'broadcast' in str(e):      # numpy itself refuses these operand shapes
                if self.try_depth > 0:
                    raise _PyRaise('ValueError', e)
                raise WouldRaise('ValueError: %s in %s' % (e, norm(n)))
            raise

    @staticmethod
    def _decided(v):
        """Python truth value of an analyser value when it is decided, else None"""
        if isinstance(v, (bool, np.bool_)):
            return bool(v)
        if v is None:
            return False
        if v is sp.true or v is sp.false:
            return bool(v)
        if isinstance(v, (list, tuple, dict, str, set)):
            return len(v) > 0
        if isinstance(v, (int, float, sp.Number)):
            return v != 0
        return None

    def e_BoolOp(self, n, p):
        is_and = isinstance(n.op, ast.And)
        last = len(n.values) - 1
        und = []                           # operands whose truth is not decided
        for i, x in enumerate(n.values):   # short circuit on decided operands, as Python does (the operand itself is the value)
            v = self.ev(x, p)
            if is_arr(v) and v.size > 1 and i != last:
                # `array or default`: the truth value of an array with more than one element is ambiguous
                if self.try_depth > 0:
                    raise _PyRaise('ValueError')
                raise WouldRaise('ValueError: the truth value of an array with more than one element is ambiguous in %s' % norm(n))
            d = self._decided(v)
            if d is None:
                und.append(v)
                continue
            if is_and:
                if not d:
                    return v if not und else False
                if i == last:
                    if not und:
                        return v
                    break
            else:
                if d:
                    return v if not und else True
                if i == last:
                    if not und:
                        return v
                    break
        if len(und) == 1:
            return und[0]
        return sp.And(*und) if is_and else sp.Or(*und)

    def e_Compare(self, n, p):
        left = self.ev(n.left, p)
        res = []
        for op, c in zip(n.ops, n.comparators):
            right = self.ev(c, p)
            res.append(self.compare(op, left, right, n))
            left = right
        if len(res) == 1:
            return res[0]
        if any(r is False for r in res):
            return False
        rest = [r for r in res if r is not True]
        return True if not rest else sp.And(*rest)

    def compare(self, op, a, b, n=None):
        if isinstance(op, (ast.In, ast.NotIn)):
            if isinstance(b, (dict, list, tuple, set, str)) or (isinstance(b, PyStub) and hasattr(b, '__contains__')):
                r = a in b
                return r if isinstance(op, ast.In) else not r
            raise Opaque('membership ' + norm(n))
        if isinstance(op, (ast.Is, ast.IsNot)):
            a = bool(a) if (a is sp.true or a is sp.false) else a
            b = bool(b) if (b is sp.true or b is sp.false) else b
            r = (a is b) if (a is None or b is None or isinstance(a, bool) or isinstance(b, bool) or (isinstance(a, (SymObj, PyStub)) and isinstance(b, (SymObj, PyStub)))) else None
            if r is None:
                raise Opaque('identity ' + norm(n))
            return r if isinstance(op, ast.Is) else not r
        if (isinstance(a, PyStub) or isinstance(b, PyStub)) and isinstance(op, (ast.Lt, ast.Gt, ast.LtE, ast.GtE)):
            import operator as _op
            f = {ast.Lt: _op.lt, ast.Gt: _op.gt, ast.LtE: _op.le, ast.GtE: _op.ge}[type(op)]
            try:
                return f(a, b)          # model objects define their own ordering comparisons (columns, frames)
            except TypeError as e:
                raise Opaque('comparison of model objects %s: %s' % (norm(n), e))
        if isinstance(a, (tuple, list)) and isinstance(b, (tuple, list)):
            r = tuple(a) == tuple(b)
            return r if isinstance(op, ast.Eq) else (not r if isinstance(op, ast.NotEq) else False)
        if isinstance(a, str) or isinstance(b, str) or a is None or b is None:
            r = a == b
            return r if isinstance(op, ast.Eq) else (not r if isinstance(op, ast.NotEq) else False)
        if is_arr(a) or is_arr(b):
            d = np.asarray(a - b, dtype=object)
            out = np.empty(d.shape, dtype=object)
            for i in np.ndindex(d.shape):
                out[i] = self.compare(op, d[i], sp.Integer(0))
            return out
        a, b = sp.sympify(a), sp.sympify(b)
        r = CMP[type(op)](a, b)
        if r == sp.true:
            return True
        if r == sp.false:
            return False
        d = a - b
        if d.is_positive:
            return isinstance(op, (ast.Gt, ast.GtE, ast.NotEq))
        if d.is_negative:
            return isinstance(op, (ast.Lt, ast.LtE, ast.NotEq))
        if d.is_zero:
            return isinstance(op, (ast.Eq, ast.LtE, ast.GtE))
        if isinstance(op, (ast.Lt, ast.LtE, ast.Gt, ast.GtE)):
            # the explicit spelling of a closeness test, |e| <= c (or <) with c a tiny positive constant, is idealised like np.isclose(e, 0): a symbolic quantity in
            # general position is "tiny" only when it is identically zero
            dd = d if isinstance(op, (ast.Lt, ast.LtE)) else -d
            c_, rest = dd.as_coeff_Add()
            if c_.is_number and c_.is_negative and -c_ <= sp.Rational(1, 10 ** 6) and rest.free_symbols and (rest.has(sp.Abs) or rest.is_nonnegative):
                z = is_zero(rest, deep=False)
                tiny = bool(z)
                return tiny if isinstance(op, (ast.Lt, ast.LtE)) else tiny
        return r

    def _scriptable(self, a, k):
        """min(x, y) / max(x, y) of two symbolic scalars while a rule scripts every data-dependent comparison: the choice is a comparison like any other"""
        if getattr(self, 'decide', None) is None or k or len(a) != 2:
            return False
        try:
            x, y = sp.sympify(a[0]), sp.sympify(a[1])
        except (sp.SympifyError, TypeError):
            return False
        return not is_arr(a[0]) and not is_arr(a[1]) and (x - y).is_number is not True

    def _scripted_minmax(self, is_min, a, k, p, n):
        x, y = sp.sympify(a[0]), sp.sympify(a[1])
        rel = sp.StrictLessThan(y, x) if is_min else sp.StrictGreaterThan(y, x)      # Python (and C) take the second argument only if it is strictly smaller / larger
        d = self.decide(norm(n) if n is not None else 'min', rel, p)
        if d is None:
            return sp.Min(x, y) if is_min else sp.Max(x, y)
        return a[1] if d else a[0]

    def e_Lambda(self, n, p):
        """a lambda is a nested function with one return statement; it sees the enclosing function's current bindings"""
        fn = getattr(n, '_am_fn', None)
        if fn is None:
            fn = ast.FunctionDef(name='<lambda>', args=n.args, body=[ast.Return(value=n.body)], decorator_list=[], returns=None, type_params=[])
            ast.copy_location(fn, n)
            ast.fix_missing_locations(fn)
            fn._mod = getattr(self.fn_stack[-1], '_mod', None) if self.fn_stack else None
            n._am_fn = fn
        return Closure(fn, self, outer=self.fn_stack[-1] if self.fn_stack else None, env=p.env)

    def e_Yield(self, n, p):
        p.env.setdefault('__yielded__', [])
        p.env['__yielded__'] = p.env['__yielded__'] + [self.ev(n.value, p) if n.value is not None else None]
        return None

    def e_YieldFrom(self, n, p):
        p.env['__yielded__'] = p.env.get('__yielded__', []) + list(self.iterate(self.ev(n.value, p), n.value))
        return None

    def e_IfExp(self, n, p):
        t = self.truth(self.ev(n.test, p), n.test, p)
        if t is None:
            raise Opaque('undecided conditional expression ' + norm(n))
        return self.ev(n.body if t else n.orelse, p)

    def _display(self, n, p):
        out = []
        for e in n.elts:
            if isinstance(e, ast.Starred):
                out.extend(self.iterate(self.ev(e.value, p), e.value))      # [*a, x, *b]
            else:
                out.append(self.ev(e, p))
        return out

    def e_Tuple(self, n, p):
        return tuple(self._display(n, p))

    def e_List(self, n, p):
        return self._display(n, p)

    def e_Dict(self, n, p):
        return {self.ev(k, p): self.ev(v, p) for k, v in zip(n.keys, n.values)}

    def e_JoinedStr(self, n, p):
        if not self.text_mode:
            # concrete when every interpolated value is (a plain str / int / model object that formats itself); the source text otherwise (messages)
            out = []
            try:
                for v in n.values:
                    if isinstance(v, ast.Constant):
                        out.append(str(v.value))
                        continue
                    if v.conversion != -1:
                        return norm(n)
                    spec = ''
                    if v.format_spec is not None:
                        if not (isinstance(v.format_spec, ast.JoinedStr) and all(isinstance(c, ast.Constant) for c in v.format_spec.values)):
                            return norm(n)
                        spec = ''.join(str(c.value) for c in v.format_spec.values)
                    x = self.ev(v.value, p)
                    if x is None and not spec:
                        out.append('None')
                        continue
                    if isinstance(x, bool) or not (isinstance(x, (str, int, sp.Integer)) or (isinstance(x, PyStub) and '__format__' in type(x).__dict__)):
                        return norm(n)
                    if spec:
                        if isinstance(x, PyStub):
                            return norm(n)
                        out.append(format(int(x) if isinstance(x, sp.Integer) else x, spec))
                    else:
                        out.append(format(x) if isinstance(x, PyStub) else str(x))
            except (Opaque, WouldRaise, _PyRaise):
                return norm(n)
            return ''.join(out)
        pieces = []
        for v in n.values:
            if isinstance(v, ast.Constant):
                pieces.append(v.value)
            else:
                x = self.ev(v.value, p)
                pieces.append(x if isinstance(x, (str, Text)) else ('val', x))
        t = Text(pieces)
        if all(isinstance(x, str) for x in t.pieces):
            return ''.join(t.pieces)
        return t

    def _comp_envs(self, generators, p):
        """environments of a comprehension: nested `for` clauses with decided `if` filters"""
        envs = [p]
        for g in generators:
            nxt = []
            for q0 in envs:
                it = self.ev(g.iter, q0)
                for v in self.iterate(it, g.iter):
                    q = q0.fork()
                    q.conds = q0.conds
                    self.assign(g.target, v, q)
                    keep = True
                    for cond in g.ifs:
                        t = self.truth(self.ev(cond, q), cond, q)
                        if t is None:
                            raise Opaque('comprehension filter not decided: ' + norm(cond))
                        if not t:
                            keep = False
                            break
                    if keep:
                        nxt.append(q)
            envs = nxt
        return envs

    def e_ListComp(self, n, p):
        return [self.ev(n.elt, q) for q in self._comp_envs(n.generators, p)]

    def e_SetComp(self, n, p):
        return set(self.ev(n.elt, q) for q in self._comp_envs(n.generators, p))

    def e_DictComp(self, n, p):
        out = {}
        for q in self._comp_envs(n.generators, p):
            out[self.ev(n.key, q)] = self.ev(n.value, q)
        return out

    e_GeneratorExp = e_ListComp

    def iterate(self, it, node):
        if isinstance(it, (list, tuple)):
            return list(it)
        if is_arr(it):
            return [it[i] for i in range(it.shape[0])]
        if isinstance(it, PyStub) and hasattr(it, '__iter__'):
            return list(it)
        if isinstance(it, dict):
            return list(it.keys())
        if isinstance(it, (range, zip, map, enumerate, reversed, set, frozenset, type({}.items()), type({}.keys()), type({}.values()))) or isinstance(it, _ModelIter):
            return list(it)
        if isinstance(it, str):
            return list(it)
        if isinstance(it, (int, float, bool)) or it is None or (isinstance(it, sp.Basic) and (it.is_number or it.is_Symbol)):
            # a plain number is not iterable
            if self.try_depth > 0:
                raise _PyRaise('TypeError')
            raise WouldRaise('TypeError: %s is not iterable' % norm(node))
        raise Opaque('loop over non-literal iterable ' + norm(node))

    def e_Attribute(self, n, p):
        d = self.dotted(n)
        g = None if (d and (d[0] in p.env or d[0] in self.globals)) else self.resolve_global(n)
        if g is not None:
            if g in self.np_override:
                return self.np_override[g]
            if g in NP_CONSTS:
                return NP_CONSTS[g]
            if g in NP_FUNCS:
                return NP_FUNCS[g]
            if g in self.funcs:
                return Closure(self.funcs[g], self)
            return OpaqueFn(g)
        base = self.ev(n.value, p)
        return self.getattr(base, n.attr, n, p)

    def getattr(self, base, attr, n, p):
        if isinstance(base, PyStub):
            if not hasattr(base, attr):
                raise Opaque('model object %s has no attribute %s' % (type(base).__name__, attr))
            return getattr(base, attr)
        if isinstance(base, SymObj):
            for key in (attr, '_%s%s' % (base.cls.name, attr) if (base.cls is not None and attr.startswith('__')) else attr):
                if key in base.attrs:
                    return base.attrs[key]
            fn, cls = base.lookup(attr)
            if fn is None and attr.startswith('__') and not attr.endswith('__') and base.cls is not None:
                fn, cls = base.lookup('_%s%s' % (base.cls.name, attr))
            if fn is not None:
                if any(norm(d) == 'property' for d in fn.decorator_list):
                    return self.call_fn(fn, [base], {}, p)
                if any(norm(d) == 'staticmethod' for d in fn.decorator_list):
                    return Closure(fn, self)
                return Closure(fn, self, base)
            if self.try_depth > 0 and base.cls is not None and attr.startswith('__') and not attr.endswith('__'):
                # a private attribute that only the function being evaluated ever assigns: absent until that assignment ran (AttributeError, as in Python)
                writers = {f.name for f in base.cls.body if isinstance(f, ast.FunctionDef) for t in ast.walk(f)
                           if isinstance(t, ast.Attribute) and isinstance(t.ctx, ast.Store) and t.attr == attr and isinstance(t.value, ast.Name) and t.value.id == 'self'}
                cur = self.fn_stack[-1].name if self.fn_stack else None
                if writers and writers <= {cur}:
                    raise _PyRaise('AttributeError', AttributeError(attr))
            if attr.startswith('__') and not attr.endswith('__'):
                # the model supplied the value of a public property directly; the private attribute that property hands out (return self.__x / a copy of it) has that value
                for c in base.mro:
                    for f in c.body:
                        if isinstance(f, ast.FunctionDef) and f.name in base.attrs and any(norm(d) == 'property' for d in f.decorator_list):
                            rets = [r for r in ast.walk(f) if isinstance(r, ast.Return) and r.value is not None]
                            if len(rets) == 1:
                                v = rets[0].value
                                if isinstance(v, ast.Call) and norm(v.func) in ('deepcopy', 'copy.deepcopy', 'np.array', 'numpy.array') and len(v.args) == 1:
                                    v = v.args[0]
                                if isinstance(v, ast.Call) and isinstance(v.func, ast.Attribute) and v.func.attr == 'copy' and not v.args:
                                    v = v.func.value
                                if isinstance(v, ast.Attribute) and isinstance(v.value, ast.Name) and v.value.id == 'self' and v.attr == attr:
                                    return base.attrs[f.name]
            # an attribute the model did not supply but the constructor initialises to a constant (a cache set to None, a flag, a counter): it has that constant until
            # something assigns it (the model stands for an object that went through __init__)
            for c in base.mro:
                init = [f for f in c.body if isinstance(f, ast.FunctionDef) and f.name == '__init__']
                consts = [st.value.value for f in init for st in ast.walk(f) if isinstance(st, ast.Assign) and len(st.targets) == 1 and isinstance(st.targets[0], ast.Attribute)
                          and isinstance(st.targets[0].value, ast.Name) and st.targets[0].value.id == 'self' and st.targets[0].attr == attr and isinstance(st.value, ast.Constant)]
                others = [st for f in init for st in ast.walk(f) if isinstance(st, (ast.Assign, ast.AugAssign, ast.AnnAssign)) for t in (st.targets if isinstance(st, ast.Assign) else [st.target])
                          if isinstance(t, ast.Attribute) and isinstance(t.value, ast.Name) and t.value.id == 'self' and t.attr == attr and not (isinstance(st, ast.Assign) and isinstance(st.value, ast.Constant))]
                if consts and not others and len(set(map(repr, consts))) == 1:
                    key = ('_%s%s' % (c.name, attr)) if attr.startswith('__') and not attr.endswith('__') else attr
                    base.attrs[key] = consts[0]
                    return consts[0]
            raise Opaque('attribute %s.%s unknown' % (base.name, attr))
        if is_arr(base):
            if attr in getattr(base, '_am_attrs', ()):        # a rule's model array that carries attributes of its own (element type, raw views)
                return base._am_attrs[attr]
            if attr == 'T':
                return base.T
            if attr == 'shape':
                return tuple(base.shape)
            if attr == 'ndim':
                return base.ndim
            if attr == 'size':
                return base.size
            if attr == 'dtype':
                return None
            if attr == 'flat':
                return list(base.flat)
            if attr == 'real':
                return vmap(sp.re, base)
            if attr == 'imag':
                return vmap(sp.im, base)
            if attr in ('min', 'max'):
                return lambda axis=None, **k: _reduce_axis(_minof if attr == 'min' else _maxof, base, axis, **k)
            if attr in ('argmin', 'argmax') and ('numpy.' + attr) in NP_FUNCS:
                return lambda *a, **k: NP_FUNCS['numpy.' + attr](base, *a, **k)
            if attr in ('dot', 'sum', 'copy', 'transpose', 'conjugate', 'conj', 'reshape', 'tolist', 'all', 'any', 'flatten', 'astype', 'prod'):
                return {'dot': lambda b: np.dot(base, b), 'sum': lambda axis=None, **k: _sum(base, axis, **k), 'copy': lambda: base.copy(),
                        'transpose': lambda *a: base.transpose(*a), 'conjugate': lambda: vmap(sp.conjugate, base), 'conj': lambda: vmap(sp.conjugate, base),
                        'reshape': lambda *a: base.reshape(*a), 'tolist': lambda: base.tolist(), 'all': lambda axis=None, **k: _reduce_axis(_all, base, axis, **k), 'any': lambda axis=None, **k: _reduce_axis(_any, base, axis, **k),
                        'flatten': lambda *a, **k: base.flatten(*a, **k), 'astype': lambda *a, **k: base, 'prod': lambda: sp.Mul(*base.flat)}[attr]
            if attr == 'ravel':
                return lambda *a, **k: base.ravel(*a, **k)
            if attr == 'repeat':
                return lambda r, axis=None: NP_FUNCS['numpy.repeat'](base, r, axis=axis)
            if attr == 'round':
                return lambda *a, **k: base      # exact arithmetic: rounding to a number of decimals is the identity on the model values
            if attr == 'mean':
                return lambda axis=None, **k: _mean(base, axis, **k)
            if attr == 'swapaxes':
                return lambda a, b: base.swapaxes(a, b)
            if attr == 'to_numpy':      # arrays stand in for table columns (pandas Series) in the models
                return lambda *a, **k: base
            if attr == 'values':
                return base
        if isinstance(base, (bool, np.bool_)) or base is sp.true or base is sp.false:
            if attr in ('all', 'any'):
                return lambda *a, **k: bool(base)
            if attr == 'sum':
                return lambda *a, **k: sp.Integer(int(bool(base)))
        if isinstance(base, sp.Basic):
            if attr == 'real':
                return sp.re(base)
            if attr == 'imag':
                return sp.im(base)
            if attr in ('conjugate', 'conj'):
                return lambda: sp.conjugate(base)
            if attr in ('tolist', 'item'):       # a numpy scalar: the plain Python number
                return lambda: base
            if attr == 'shape':
                return ()
            if attr == 'ndim':
                return 0
            if attr == 'dtype':
                return None
        if isinstance(base, dict):
            if attr == 'pop':
                return lambda k, *d: base.pop(k, *d)
            if attr == 'get':
                return lambda k, d=None: base.get(k, d)
            if attr == 'keys':
                return lambda: list(base.keys())
            if attr == 'values':
                return lambda: list(base.values())
            if attr == 'items':
                return lambda: list(base.items())
            if attr == 'update':
                return base.update
            if attr == 'clear':
                return base.clear
            if type(base).__name__ == 'DataModelDict' and attr in ('find', 'finds', 'aslist', 'iteraslist', 'append', 'paths', 'path'):
                m = getattr(base, attr)
                return (lambda *a, **k: list(m(*a, **k))) if attr == 'iteraslist' else m
            if attr == 'setdefault':
                return base.setdefault
        if isinstance(base, list) and attr in ('append', 'index', 'pop', 'insert', 'extend', 'count', 'copy'):
            return getattr(base, attr)
        if isinstance(base, str) and attr in ('strip', 'split', 'lower', 'upper', 'startswith', 'endswith', 'isalpha', 'isdigit', 'find', 'rfind', 'replace', 'lstrip', 'rstrip', 'count'):
            return getattr(base, attr)
        if isinstance(base, str) and attr in ('format', 'partition', 'rpartition', 'splitlines', 'title', 'capitalize', 'zfill', 'ljust', 'rjust', 'center', 'isspace', 'isnumeric', 'isalnum', 'casefold', 'rsplit', 'rindex', 'encode', 'removeprefix', 'removesuffix'):
            if attr == 'format':
                def _format(*a, **k):
                    conv = lambda v: int(v) if isinstance(v, sp.Integer) else v
                    if not all(v is None or (isinstance(v, (str, int, sp.Integer)) and not isinstance(v, bool)) for v in list(a) + list(k.values())):
                        raise Opaque('str.format of symbolic values')
                    return base.format(*[conv(v) for v in a], **{kk: conv(v) for kk, v in k.items()})
                return _format
            return getattr(base, attr)
        if isinstance(base, str) and attr == 'format_map':
            def _format_map(m):
                conv = lambda v: int(v) if isinstance(v, sp.Integer) else v
                if not isinstance(m, dict):
                    raise Opaque('str.format_map of a non-dict')
                used = {k_: conv(v) for k_, v in m.items() if isinstance(k_, str) and ('{' + k_) in base}
                if not all(v is None or (isinstance(v, (str, int)) and not isinstance(v, bool)) for v in used.values()):
                    raise Opaque('str.format_map of symbolic values')
                return base.format_map(used)
            return _format_map
        if base is dict and attr == 'fromkeys':
            return lambda keys, value=None: dict.fromkeys(list(self.iterate(keys, n)), value)
        if isinstance(base, list) and attr in ('sort', 'reverse', 'clear', 'remove'):
            return getattr(base, attr)
        if isinstance(base, (tuple,)) and attr in ('index', 'count'):
            return getattr(base, attr)
        if isinstance(base, set) and attr in ('add', 'update', 'discard', 'remove', 'union', 'intersection', 'difference', 'issubset', 'issuperset', 'copy'):
            return getattr(base, attr)
        if isinstance(base, str) and attr == 'index':
            def _index(sub):
                if sub not in base:
                    raise ModelError('ValueError', 'substring not found')
                return base.index(sub)
            return _index
        if isinstance(base, str) and attr == 'join':
            def _join(items):
                items = list(items)
                if all(isinstance(x, str) for x in items):
                    return base.join(items)
                out = []
                for k, x in enumerate(items):
                    if k:
                        out.append(base)
                    out.append(x)
                return Text(out)
            return _join
        if self.try_depth > 0:
            raise _PyRaise('AttributeError')
        raise Opaque('attribute .%s of %s in %s' % (attr, type(base).__name__, norm(n)))

    def e_Subscript(self, n, p):
        base = self.ev(n.value, p)
        idx = self.index(n.slice, p)
        if isinstance(base, OpaqueFn) and base.name in ('numpy.r_', 'numpy.c_') and not any(isinstance(i, (slice, str)) for i in (idx if isinstance(idx, tuple) else (idx,))):
            # numpy.r_[a, b, ...]: scalars and one-dimensional arrays joined end to end (numpy.c_ of one-dimensional pieces: the same values as columns)
            items = idx if isinstance(idx, tuple) else (idx,)
            parts = [np.ravel(np.asarray(i, dtype=object)) if (is_arr(i) and i.dtype == object) or isinstance(i, sp.Basic) else np.ravel(np.asarray(i)) for i in items]
            if base.name == 'numpy.r_' and all(np.ndim(i) <= 1 for i in items):
                if all(q.dtype == bool for q in parts):
                    return np.concatenate(parts)
                return np.concatenate([q.astype(object) for q in parts])
            raise Opaque('index-trick expression outside the model: ' + norm(n))
        try:
            if isinstance(base, PyStub):
                return base[idx]
            if isinstance(base, SymObj):
                gi, _c = base.lookup('__getitem__')
                if gi is not None:
                    return self.call_fn(gi, [base, idx], {}, p)
            if isinstance(base, dict):
                if idx not in base:
                    raise WouldRaise('KeyError: %s in %s' % (idx, norm(n)))
                return base[idx]
            if isinstance(base, (list, tuple, str)):
                return base[int(idx)] if not isinstance(idx, slice) else base[idx]
            if is_arr(base):
                r = base[idx]
                return r
        except WouldRaise:
            if self.try_depth > 0:
                raise _PyRaise('KeyError')
            raise
        except (KeyError, IndexError, TypeError, ValueError) as e:
            if self.try_depth > 0:
                raise _PyRaise(type(e).__name__, e)
            if isinstance(e, IndexError) and isinstance(base, (list, tuple, str)) and isinstance(idx, int):
                raise WouldRaise('IndexError: %s in %s' % (e, norm(n)))       # a concrete sequence indexed past its end: Python raises here too
            raise Opaque('subscript %s: %s' % (norm(n), e))
        if isinstance(base, sp.Basic) and idx is Ellipsis:
            return base
        if isinstance(base, (int, float)) or (isinstance(base, sp.Basic) and (base.is_number or base.is_Symbol)):
            # a number taken out of an array is a numpy scalar: it can be read through `...`, newaxis, () or a 0-d boolean (giving an array), nothing else
            parts = idx if isinstance(idx, tuple) else (idx,)
            if all(q is Ellipsis or q is None or isinstance(q, (bool, np.bool_)) or (is_arr(q) and q.dtype == bool and q.ndim == 0) for q in parts):
                try:
                    return np.asarray(base, dtype=object)[idx]
                except (IndexError, TypeError):
                    pass
            if self.try_depth > 0:
                raise _PyRaise('IndexError')
            raise WouldRaise('IndexError: invalid index to scalar variable in %s' % norm(n))
        raise Opaque('subscript of %s: %s' % (type(base).__name__, norm(n)))

    def index(self, s, p):
        if isinstance(s, ast.Slice):
            def f(x):
                if x is None:
                    return None
                v = self.ev(x, p)
                return None if v is None else int(v)
            return slice(f(s.lower), f(s.upper), f(s.step))
        if isinstance(s, ast.Tuple):
            return tuple(self.index(e, p) for e in s.elts)
        v = self.ev(s, p)
        if isinstance(v, sp.Integer):
            return int(v)
        if isinstance(v, slice):
            g = lambda b: None if b is None else int(b)
            return slice(g(v.start), g(v.stop), g(v.step))
        if isinstance(v, tuple) and any(is_arr(x) for x in v):
            return tuple(_intidx(x) for x in v)            # multi-dimensional fancy index, e.g. the tuple returned by np.where
        if is_arr(v) and v.dtype == object:
            return _intidx(v)
        if isinstance(v, (list, tuple)):
            if v and all(isinstance(x, bool) for x in v):
                return np.array(v, dtype=bool)
            if any(isinstance(x, str) for x in v):
                return list(v) if isinstance(v, list) else v
            if isinstance(v, tuple):      # a tuple is one index per axis, not a selection of rows
                return tuple(int(x) if isinstance(x, (int, sp.Integer)) and not isinstance(x, bool) else x for x in v)
            return [int(x) for x in v]
        if is_arr(v) and v.dtype == object and v.size and all(isinstance(x, (bool, np.bool_)) for x in v.flat):
            return v.astype(bool)
        return v

    _TYPES = {'int': (int, sp.Integer), 'float': (float, sp.Float, sp.Rational), 'str': (str,), 'tuple': (tuple,), 'list': (list,), 'dict': (dict,),
              'bool': (bool,), 'np.bool_': (np.bool_,), 'numpy.bool_': (np.bool_,), 'np.integer': (int, sp.Integer), 'numpy.integer': (int, sp.Integer), 'np.ndarray': (np.ndarray,), 'numpy.ndarray': (np.ndarray,),
              'np.floating': (float, sp.Float), 'Integral': (int, sp.Integer), 'Real': (int, float, sp.Integer, sp.Float, sp.Rational)}

    def _type_exprs(self, t, depth=0):
        """the type expressions a second argument of isinstance stands for: a tuple literal, or a name bound once to one (e.g. `inttypes = (int, np.integer)`)"""
        if isinstance(t, ast.Tuple):
            out = []
            for e in t.elts:
                out.extend(self._type_exprs(e, depth))
            return out
        if isinstance(t, ast.Name) and norm(t) not in self._TYPES and depth < 3:
            scopes = ([self.fn_stack[-1]] if self.fn_stack else []) + ([self.module] if self.module is not None else [])
            for sc in scopes:
                defs = [a for a in ast.walk(sc) if isinstance(a, ast.Assign) and len(a.targets) == 1 and isinstance(a.targets[0], ast.Name) and a.targets[0].id == t.id]
                if len(defs) == 1 and isinstance(defs[0].value, (ast.Tuple, ast.Name, ast.Attribute)):
                    return self._type_exprs(defs[0].value, depth + 1)
        return [t]

    def _isinstance(self, n, p):
        v = self.ev(n.args[0], p)
        tys = self._type_exprs(n.args[1])
        out = False
        for t in tys:
            key = norm(t)
            if key not in self._TYPES:
                # a class of the repository: decided for model objects that say what they are
                short = key.split('.')[-1]
                if isinstance(v, SymObj) and v.mro:
                    out = out or any(c.name == short for c in v.mro)
                    continue
                if isinstance(v, PyStub) and hasattr(v, '_isa'):
                    out = out or short in v._isa
                    continue
                if v is None or isinstance(v, (bool, int, float, str, list, tuple, dict, sp.Basic, np.ndarray)):
                    if short in ('OrderedDict',) and isinstance(v, dict):
                        out = True
                    continue          # a plain value is not an instance of a repository class
                raise Opaque('isinstance against %s' % key)
            if isinstance(v, self._TYPES[key]) and not (isinstance(v, bool) and key != 'bool'):
                out = True
        return out

    def e_Call(self, n, p):
        # kwargs.pop / 'K' in kwargs etc. are handled by getattr on dict
        if isinstance(n.func, ast.Name) and n.func.id == 'isinstance' and 'isinstance' not in p.env and len(n.args) == 2:
            return self._isinstance(n, p)
        f = self.ev(n.func, p)
        args = []
        for a in n.args:
            if isinstance(a, ast.Starred):
                args.extend(self.ev(a.value, p))
            else:
                args.append(self.ev(a, p))
        kw = {}
        for k in n.keywords:
            if k.arg is None:
                v = self.ev(k.value, p)
                if isinstance(v, dict):
                    kw.update(v)
                else:
                    raise Opaque('**%s' % norm(k.value))
            else:
                kw[k.arg] = self.ev(k.value, p)
        if isinstance(f, _ClassRef):
            cls, mro = self.classes[f.name]
            obj = SymObj(cls, {}, f.name.lower(), mro)
            init, _ = obj.lookup('__init__')
            if init is not None:
                self.call_fn(init, [obj] + args, kw, p, want_none=True)
            return obj
        if isinstance(f, Closure):
            a2 = ([f.selfobj] if f.selfobj is not None else []) + args
            outer_env = None
            if f.outer is not None:
                outer_env = p.env if (self.fn_stack and self.fn_stack[-1] is f.outer) else f.env
            elif f.env is not None:
                # a nested function defined in a block that is being evaluated on its own (no enclosing call on the stack): its free variables are those of the block
                outer_env = p.env if f.env is p.env else f.env
            return self.call_fn(f.fn, a2, kw, p, outer_env=outer_env)
        if isinstance(f, OpaqueFn):
            if not self.opaque_calls:
                raise Opaque('call outside vocabulary: ' + norm(n))
            return f(*args, **kw)
        if callable(f):
            try:
                kw2 = kw if getattr(f, '_wants_dtype', False) else {k: v for k, v in kw.items() if k not in ('dtype',)}
                return f(*args, **kw2)
            except (Opaque, AnalysisError, _PyRaise, _Break, _Continue, _FnRaise):
                raise
            except ModelError as e:
                if self.try_depth > 0:
                    raise _PyRaise(e.name, e)
                raise WouldRaise('%s in %s' % (e, norm(n)))
            except Exception as e:
                if self.try_depth > 0:
                    raise _PyRaise(type(e).__name__, e)
                if isinstance(e, ValueError) and ('not aligned' in str(e) or 'could not be broadcast' in str(e) or 'mismatch in its core dimension' in str(e) or 'nonzero on 0d arrays' in str(e)):
                    raise WouldRaise('ValueError: %s in %s' % (e, norm(n)))      # numpy refuses these operand shapes for real arrays too
                if isinstance(e, ValueError) and isinstance(n.func, ast.Name) and n.func.id in ('float', 'int') and len(args) == 1 and isinstance(args[0], str) and not kw:
                    raise WouldRaise('ValueError: %s in %s' % (e, norm(n)))      # float('') / int('x') on a concrete string: Python itself refuses
                raise Opaque('cannot evaluate %s: %s: %s' % (norm(n), type(e).__name__, e))
        raise Opaque('call of %s' % norm(n.func))

    # ------------------------------------------------------------ functions
    def bind(self, fn, args, kw):
        a = fn.args
        names = [x.arg for x in a.posonlyargs + a.args]
        env = {}
        defaults = dict(zip(names[len(names) - len(a.defaults):], a.defaults))
        for i, nm in enumerate(names):
            if i < len(args):
                env[nm] = args[i]
            elif nm in kw:
                env[nm] = kw.pop(nm)
            elif nm in defaults:
                env[nm] = self.ev(defaults[nm], Path({}))
            else:
                raise Opaque('missing argument %s for %s' % (nm, fn.name))
        for ko, d in zip(a.kwonlyargs, a.kw_defaults):
            if ko.arg in kw:
                env[ko.arg] = kw.pop(ko.arg)
            elif d is not None:
                env[ko.arg] = self.ev(d, Path({}))
        if a.kwarg is not None:
            env[a.kwarg.arg] = dict(kw)
        elif kw:
            raise Opaque('unexpected keyword(s) %s for %s' % (sorted(kw), fn.name))
        if a.vararg is not None:
            env[a.vararg.arg] = tuple(args[len(names):])
        return env

    def call_fn(self, fn, args, kw, p, want_none=False, outer_env=None):
        """inline a repository function: single-path result required at call sites"""
        self.depth += 1
        if self.depth > self.max_depth:
            self.depth -= 1
            if self.try_depth > 0:
                # unbounded mutual recursion inside a try block: Python raises RecursionError at its own limit and the innermost handler sees it
                raise _PyRaise('RecursionError')
            raise Opaque('inlining depth exceeded at %s' % fn.name)
        try:
            paths = self.run_fn(fn, args, dict(kw), conds=p.conds, outer_env=outer_env)
            live = [q for q in paths if q.done != 'raise']
            if not live and paths:
                raise _FnRaise(paths[0].raised)
            if len(live) != 1:
                raise Opaque('call to %s does not reduce to one path (%d live)' % (fn.name, len(live)))
            p.conds = live[0].conds
            return live[0].ret
        finally:
            self.depth -= 1

    def run_fn(self, fn, args=(), kw=None, env=None, conds=None, outer_env=None):
        """all syntactic paths through fn: list of Path (done in {'return','raise',None})"""
        e = self.bind(fn, list(args), dict(kw or {})) if env is None else dict(env)
        if outer_env:
            e2 = dict(outer_env)
            e2.update(e)
            e = e2
        start = Path(e, conds)
        self.fn_stack.append(fn)
        try:
            paths = self.block(fn.body, [start])
        except _PyRaise as ex:
            if self.try_depth > 0:
                raise
            raise WouldRaise('uncaught %s in %s: %s' % (ex.name, fn.name, ex.exc))
        finally:
            self.fn_stack.pop()
        is_gen = getattr(fn, '_am_is_gen', None)
        if is_gen is None:
            is_gen = any(isinstance(x, (ast.Yield, ast.YieldFrom)) for x in _own_walk(fn))
            try:
                fn._am_is_gen = is_gen
            except Exception:
                pass
        for q in paths:
            if q.done is None:
                q.done = 'return'
                q.ret = None
            if is_gen and q.done == 'return':
                q.ret = _ModelIter(q.env.get('__yielded__', []))     # a generator function, run eagerly: the values it yields, in order
        return paths

    # ------------------------------------------------------------ statements
    def block(self, stmts, paths):
        for s in stmts:
            live = [q for q in paths if q.done is None]
            if not live:
                break
            dead = [q for q in paths if q.done is not None]
            out = []
            for q in live:
                out.extend(self.stmt(s, q))
            paths = dead + out
            if len(paths) > self.MAX_PATHS:
                raise PathLimit('more than %d syntactic paths' % self.MAX_PATHS)
        return paths

    def stmt(self, s, p):
        if self.skip is not None and self.skip(s):
            self.skipped.append(s)
            return [p]
        m = getattr(self, 's_' + type(s).__name__, None)
        if m is None:
            raise Opaque('statement kind %s: %s' % (type(s).__name__, norm(s)[:80]))
        if isinstance(s, (ast.Assign, ast.AugAssign, ast.Expr, ast.Return, ast.AnnAssign)):
            try:
                return m(s, p)
            except _FnRaise as e:
                p.done, p.raised = 'raise', e.node
                return [p]
        return m(s, p)

    def s_Expr(self, s, p):
        if isinstance(s.value, ast.Constant):
            return [p]
        self.ev(s.value, p)
        return [p]

    def s_Pass(self, s, p):
        return [p]

    def s_Import(self, s, p):
        return [p]

    s_ImportFrom = s_Import

    def s_Assign(self, s, p):
        v = self.ev(s.value, p)
        for t in s.targets:
            self.assign(t, v, p)
        return [p]

    def s_AnnAssign(self, s, p):
        if s.value is not None:
            self.assign(s.target, self.ev(s.value, p), p)
        return [p]

    def s_AugAssign(self, s, p):
        t = s.target
        if isinstance(t, ast.Subscript):
            # container and index are evaluated once, as Python does
            base = self.ev(t.value, p)
            idx = self.index(t.slice, p)
            if is_arr(base) or isinstance(base, (list, dict, PyStub)):
                try:
                    cur = base[idx]
                    v = self.ev(s.value, p)
                    base[idx] = BIN[type(s.op)](cur, v)
                except (KeyError, IndexError, ValueError, TypeError) as e:
                    raise Opaque('augmented store into %s: %s' % (norm(t), e))
                return [p]
            if (isinstance(base, (sp.Basic, int, float, tuple, str)) and not isinstance(base, bool)):
                # a number (numpy scalar), tuple or str does not support item assignment
                if self.try_depth > 0:
                    raise _PyRaise('TypeError')
                raise WouldRaise('TypeError: %s object does not support item assignment in %s' % (type(base).__name__, norm(t)))
        load = ast.copy_location(_as_load(s.target), s.target)
        cur = self.ev(load, p)
        v = self.ev(s.value, p)
        if is_arr(cur) and cur.dtype == object and cur.ndim >= 1:
            # ndarray op= is in place: every other name bound to the same array sees the change
            res = np.asarray(BIN[type(s.op)](cur, v), dtype=object)
            if res.shape != cur.shape:
                raise WouldRaise('ValueError: non-broadcastable output operand with shape %s in %s' % (cur.shape, norm(s)))
            cur[...] = res
            return [p]
        if isinstance(cur, list) and isinstance(s.op, ast.Add) and isinstance(v, (list, tuple)):
            cur.extend(v)
            return [p]
        self.assign(s.target, BIN[type(s.op)](cur, v), p)
        return [p]

    def assign(self, t, v, p):
        if isinstance(t, ast.Name):
            if t.id in p.env.get('__global_names__', ()):
                self.globals[t.id] = v       # declared `global`: the binding outlives the call (same evaluator = same module state)
                p.env.pop(t.id, None)
                return
            p.env[t.id] = v
        elif isinstance(t, (ast.Tuple, ast.List)):
            vs = list(v) if not is_arr(v) else [v[i] for i in range(v.shape[0])]
            star = [i for i, e in enumerate(t.elts) if isinstance(e, ast.Starred)]
            if len(star) == 1 and len(vs) >= len(t.elts) - 1:      # a, *rest, z = values
                i = star[0]
                tail = len(t.elts) - i - 1
                for e, x in zip(t.elts[:i], vs[:i]):
                    self.assign(e, x, p)
                self.assign(t.elts[i].value, list(vs[i:len(vs) - tail]), p)
                for e, x in zip(t.elts[i + 1:], vs[len(vs) - tail:]):
                    self.assign(e, x, p)
                return
            if len(vs) != len(t.elts):
                raise Opaque('unpack arity')
            for e, x in zip(t.elts, vs):
                self.assign(e, x, p)
        elif isinstance(t, ast.Subscript):
            base = self.ev(t.value, p)
            idx = self.index(t.slice, p)
            if isinstance(base, (dict, PyStub)):
                base[idx] = v
            elif is_arr(base) or isinstance(base, list):
                try:
                    base[idx] = v
                except (IndexError, ValueError, TypeError) as e:
                    if isinstance(e, ValueError) and 'broadcast' in str(e):       # numpy refuses these shapes for real arrays too
                        if self.try_depth > 0:
                            raise _PyRaise('ValueError', e)
                        raise WouldRaise('ValueError: %s in store into %s' % (e, norm(t)))
                    if isinstance(e, IndexError) and 'out of bounds' in str(e):   # a slot outside the array: an IndexError (memory corruption where bounds checks are compiled out)
                        if self.try_depth > 0:
                            raise _PyRaise('IndexError', e)
                        raise WouldRaise('IndexError: %s in store into %s' % (e, norm(t)))
                    raise Opaque('store into %s: %s' % (norm(t), e))
            elif isinstance(base, (sp.Basic, int, float, tuple, str)) and not isinstance(base, bool):
                # a number (numpy scalar), tuple or str does not support item assignment
                if self.try_depth > 0:
                    raise _PyRaise('TypeError')
                raise WouldRaise('TypeError: %s object does not support item assignment in %s' % (type(base).__name__, norm(t)))
            else:
                raise Opaque('store into %s' % norm(t))
        elif isinstance(t, ast.Attribute):
            base = self.ev(t.value, p)
            if isinstance(base, SymObj):
                fn, cls = base.lookup(t.attr, setter=True)
                if fn is not None:
                    self.call_fn(fn, [base, v], {}, p)
                else:
                    key = '_%s%s' % (base.cls.name, t.attr) if (base.cls is not None and t.attr.startswith('__') and not t.attr.endswith('__')) else t.attr
                    base.attrs[key] = v
            elif isinstance(base, PyStub):
                setattr(base, t.attr, v)
            elif is_arr(base) and t.attr == 'shape':
                base.shape = tuple(int(x) for x in v)
            else:
                raise Opaque('store into %s' % norm(t))
        else:
            raise Opaque('assignment target %s' % norm(t))

    def truth(self, v, node, p):
        if isinstance(v, bool):
            return v
        if v is None:
            return False
        if v == sp.true:
            return True
        if v == sp.false:
            return False
        if isinstance(v, (list, tuple, dict, str)):
            return len(v) > 0
        if isinstance(v, (int, float, sp.Number, np.bool_)):
            return bool(v != 0)
        if isinstance(v, set):
            return len(v) > 0
        if self.decide is not None:
            r = self.decide(norm(node), v, p)
            if r is not None:
                return r
        return None

    def s_If(self, s, p):
        v = self.ev(s.test, p)
        t = self.truth(v, s.test, p)
        if t is True:
            return self.block(s.body, [p])
        if t is False:
            return self.block(s.orelse, [p])
        q = p.fork()
        p.conds.append((norm(s.test), True, v))
        q.conds.append((norm(s.test), False, v))
        return self.block(s.body, [p]) + self.block(s.orelse, [q])

    def s_Return(self, s, p):
        p.ret = self.ev(s.value, p) if s.value is not None else None
        p.done = 'return'
        return [p]

    def s_Raise(self, s, p):
        p.done = 'raise'
        p.raised = s
        return [p]

    def s_Assert(self, s, p):
        try:
            v = self.ev(s.test, p)
        except Opaque:
            p.conds.append((norm(s.test), True, None))
            return [p]
        t = self.truth(v, s.test, p)
        if t is False:
            p.done = 'raise'
            p.raised = s
            return [p]
        if t is None:
            p.conds.append((norm(s.test), True, v))
        return [p]

    def s_For(self, s, p):
        it = self.ev(s.iter, p)
        paths = [p]
        broke = []
        for v in self.iterate(it, s.iter):
            nxt = []
            for q in paths:
                if q.done is not None:
                    nxt.append(q)
                    continue
                self.assign(s.target, v, q)
                try:
                    nxt.extend(self.block(s.body, [q]))
                except _Continue as c:
                    nxt.append(c.path)
                except _Break as b:
                    b.path.done = None
                    broke.append(b.path)
            paths = nxt
            if len(paths) > self.MAX_PATHS:
                raise PathLimit('loop forks too many paths')
        if s.orelse:          # `for ... else`: the else suite runs on the paths that left the loop without `break`
            fin = [q for q in paths if q.done is not None]
            live = [q for q in paths if q.done is None]
            paths = fin + (self.block(s.orelse, live) if live else [])
        return paths + broke

    MAX_ITER = 400

    def s_While(self, s, p):
        paths = [p]
        done = []
        for it in range(self.MAX_ITER):
            nxt = []
            for q in paths:
                if q.done is not None:
                    done.append(q)
                    continue
                t = self.truth(self.ev(s.test, q), s.test, q)
                if t is None:
                    raise Opaque('undecided loop condition ' + norm(s.test))
                if not t:
                    done.append(q)
                    continue
                try:
                    nxt.extend(self.block(s.body, [q]))
                except _Continue as c:
                    nxt.append(c.path)
                except _Break as b:
                    done.append(b.path)
            paths = nxt
            if not paths:
                return done
        raise PathLimit('while loop does not terminate within %d iterations' % self.MAX_ITER)

    def s_Break(self, s, p):
        raise _Break(p)

    def s_Continue(self, s, p):
        raise _Continue(p)

    def _handler_for(self, s, name):
        name = (name or '').split('.')[-1] or name
        for cand in s.handlers:
            tys = [] if cand.type is None else ([norm(t) for t in cand.type.elts] if isinstance(cand.type, ast.Tuple) else [norm(cand.type)])
            if cand.type is None or name in tys or 'Exception' in tys or 'BaseException' in tys or any(t in tys for t in _EXC_PARENTS.get(name, ())):
                return cand
        return None

    def s_Try(self, s, p):
        """try body; a path that ends in a syntactic raise / failed assert inside the body, or in an evaluated library call or
        subscript that raises, continues in the first handler whose type matches (bare, Exception, BaseException, the raised name)"""
        paths = [p]
        out = []
        if s.handlers:
            self.try_depth += 1
        try:
            for st in s.body:
                live = [q for q in paths if q.done is None]
                if not live:
                    break
                try:
                    paths = self.block([st], paths)
                except _PyRaise as e:
                    h = self._handler_for(s, e.name)
                    if h is None:
                        raise
                    if len(live) != 1:
                        raise Opaque('exception inside try with %d live paths' % len(live))
                    q = live[0]
                    paths = [x for x in paths if x is not q and x.done is not None]
                    self.try_depth -= 1
                    try:
                        if h.name:
                            q.env[h.name] = None
                        out.extend(self.block(h.body, [q]))
                    finally:
                        self.try_depth += 1
                    break
        finally:
            if s.handlers:
                self.try_depth -= 1
        normal = []
        for q in paths:
            if q.done == 'raise' and s.handlers and q.raised is not None:
                if isinstance(q.raised, ast.Assert):
                    name = 'AssertionError'
                else:
                    exc = q.raised.exc
                    name = norm(exc.func if isinstance(exc, ast.Call) else exc) if exc is not None else None
                h = self._handler_for(s, name)
                if h is not None:
                    q.done, q.raised = None, None
                    if h.name:
                        q.env[h.name] = None
                    out.extend(self.block(h.body, [q]))
                    continue
            if q.done is None:
                normal.append(q)
            else:
                out.append(q)
        if normal:
            out.extend(self.block(s.orelse, normal) if s.orelse else normal)
        return self.block(s.finalbody, out) if s.finalbody else out

    def s_With(self, s, p):
        # `with contextlib.suppress(E1, ...): body` is `try: body / except (E1, ...): pass`
        if len(s.items) == 1 and isinstance(s.items[0].context_expr, ast.Call) and self.resolve_global(s.items[0].context_expr.func) == 'contextlib.suppress' \
                and not s.items[0].context_expr.keywords and s.items[0].optional_vars is None:
            typ = ast.Tuple(elts=list(s.items[0].context_expr.args), ctx=ast.Load())
            t = ast.Try(body=s.body, handlers=[ast.ExceptHandler(type=typ, name=None, body=[ast.Pass()])], orelse=[], finalbody=[])
            ast.copy_location(t, s)
            ast.fix_missing_locations(t)
            return self.s_Try(t, p)
        for it in s.items:
            cm = self.ev(it.context_expr, p)
            if isinstance(cm, PyStub) and hasattr(cm, '__enter__'):
                cm = cm.__enter__()
            if it.optional_vars is not None:
                self.assign(it.optional_vars, cm, p)
        return self.block(s.body, [p])

    def s_FunctionDef(self, s, p):
        p.env[s.name] = Closure(s, self, outer=self.fn_stack[-1] if self.fn_stack else None, env=p.env)
        return [p]

    def s_Delete(self, s, p):
        return [p]

    def s_Global(self, s, p):
        p.env.setdefault('__global_names__', set()).update(s.names)
        return [p]


def _as_load(t):
    t2 = ast.parse(norm(t), mode='eval').body
    return t2


# ---------------------------------------------------------------- convenience

def _like_shape(x, k):
    """shape of np.*_like(x, shape=...)"""
    for name in k:
        if name not in ('dtype', 'shape', 'order', 'subok'):
            raise Opaque('keyword %s of a numpy *_like constructor' % name)
    sh = k.get('shape')
    if sh is None:
        return np.shape(x)
    return tuple(int(v) for v in (sh if isinstance(sh, (tuple, list)) else [sh]))


def _generic(e):
    """mask entry in general position: an equality between symbolic quantities that is not an identity does not hold, an inequality (!=) does"""
    if isinstance(e, sp.And) and len(e.args) == 2 and all(isinstance(a_, sp.core.relational.Relational) for a_ in e.args) and e.free_symbols:
        # (e > -c) & (e < c) with c tiny: the written-out |e| < c
        lo = hi = None
        for a_ in e.args:
            d_ = (a_.lhs - a_.rhs) if isinstance(a_, (sp.StrictLessThan, sp.LessThan)) else ((a_.rhs - a_.lhs) if isinstance(a_, (sp.StrictGreaterThan, sp.GreaterThan)) else None)
            if d_ is None:
                return e
            c_, rest = d_.as_coeff_Add()          # rest + c_ < 0
            if not (c_.is_number and c_.is_negative and -c_ <= sp.Rational(1, 10 ** 6)):
                return e
            if lo is None:
                lo = rest
            else:
                hi = rest
        if lo is not None and hi is not None and sp.simplify(lo + hi) == 0:
            return bool(is_zero(lo, deep=False))
        return e
    if isinstance(e, sp.Equality) and e.free_symbols:
        return False
    if isinstance(e, sp.Unequality) and e.free_symbols:
        return True
    return e


def _intidx(x):
    """an index array of exact integers (or decided booleans) as a numpy index array"""
    if is_arr(x) and x.dtype == object and not x.size:
        return np.zeros(x.shape, dtype=int)            # nothing selected (element types of empty arrays are not tracked)
    if is_arr(x) and x.dtype == object and x.size:
        flat = [_generic(e) for e in x.ravel()]
        if all(isinstance(e, (bool, np.bool_)) or e is sp.true or e is sp.false for e in flat):
            return np.array([bool(e) for e in flat], dtype=bool).reshape(x.shape)
        if all(isinstance(e, (int, np.integer, sp.Integer)) and not isinstance(e, (bool, np.bool_)) for e in flat):
            return np.array([int(e) for e in flat], dtype=int).reshape(x.shape)
    return x


def _op_index(v):
    if isinstance(v, (bool, np.bool_)):
        return int(v)
    if isinstance(v, (int, np.integer, sp.Integer)):
        return sp.Integer(int(v))
    if isinstance(v, sp.Basic) and v.is_integer and v.is_number:
        return sp.Integer(int(v))
    if isinstance(v, sp.Basic) and not v.is_number:
        raise Opaque('operator.index of a symbolic value')
    raise ModelError('TypeError', "'%s' object cannot be interpreted as an integer" % type(v).__name__)


def _minmax(symf, pyf, a, k, it):
    """builtin min / max: over an iterable or several arguments, with `default` for an empty iterable"""
    if 'key' in k:
        raise Opaque('min/max with key=')
    vals = list(it(a[0])) if len(a) == 1 else list(a)
    if not vals:
        if 'default' in k:
            return k['default']
        raise ModelError('ValueError', 'min()/max() arg is an empty sequence')
    if all(isinstance(v, (int, sp.Integer)) and not isinstance(v, bool) for v in vals):
        return sp.Integer(pyf(int(v) for v in vals))
    return symf(*vals)


def _int_model(x=0, *base):
    """builtin int(): text and concrete numbers are converted (truncation towards zero); a symbolic value is left as it is (its integrality is the rule's assumption)"""
    if isinstance(x, str):
        try:
            return S(int(x, *[int(b) for b in base]))
        except ValueError as e:
            raise ModelError('ValueError', str(e))
    if isinstance(x, (bool, np.bool_)):
        return S(int(x))
    if isinstance(x, (int, float)):
        return S(int(x))
    if isinstance(x, sp.Basic) and x.is_number and x.is_real and x.is_finite:
        return sp.Integer(int(x))
    return x


_int_model._is_int = True


def _apply_along(f, axis, a_, args, kw):
    a_ = np.asarray(a_, dtype=object)
    ax = int(axis) % max(a_.ndim, 1)
    if a_.ndim <= 1:
        return f(a_, *args, **kw)
    moved = np.moveaxis(a_, ax, -1)
    res = [np.asarray(f(moved[i], *args, **kw), dtype=object) for i in np.ndindex(moved.shape[:-1])]
    out = np.array(res, dtype=object).reshape(moved.shape[:-1] + np.shape(res[0]))
    return np.moveaxis(out, -1, ax) if np.ndim(res[0]) == 1 else out


def _own_walk(fn):
    """nodes of a function body, not of functions nested in it"""
    stack = list(fn.body)
    while stack:
        x = stack.pop()
        yield x
        for c in ast.iter_child_nodes(x):
            if not isinstance(c, (ast.FunctionDef, ast.Lambda, ast.ClassDef)):
                stack.append(c)


class _ModelIter:
    """iterator object produced by the builtin iter() on a model sequence: consumed by next() and by loops, as in Python"""
    def __init__(self, items):
        self.items = list(items)
        self.pos = 0

    def __iter__(self):
        return self

    def __next__(self):
        if self.pos >= len(self.items):
            raise StopIteration
        self.pos += 1
        return self.items[self.pos - 1]


class _Aliases(dict):
    module = None


def module_aliases(mod):
    """import aliases of a module: local name -> dotted path (the mapping remembers the module, so that an evaluator built from it
    resolves the module's own helper functions and constants)"""
    out = _Aliases()
    out.module = mod
    for n in ast.walk(mod):
        if isinstance(n, ast.Import):
            for a in n.names:
                out[a.asname or a.name.split('.')[0]] = a.name if a.asname else a.name.split('.')[0]
        elif isinstance(n, ast.ImportFrom) and n.level == 0 and n.module:
            for a in n.names:
                out[a.asname or a.name] = n.module + '.' + a.name
    return out
