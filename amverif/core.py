"""Core plumbing: source tree, obligation context, evidence, known findings, driver.

No module of atomman is imported or executed by anything in this package: every
verdict comes from the text of /repo/atomman (ast / Cython parse tree) and from
the metadata (signatures, attribute tables) of the installed third-party
libraries.
"""
import ast
import fnmatch
import hashlib
import json
import os
import re
import sys
import time
import traceback
import warnings

warnings.filterwarnings('ignore', category=SyntaxWarning)   # docstrings of the analysed sources
warnings.filterwarnings('ignore', message='.*non-Expr objects in a Matrix.*')   # mutants that put a non-number into a matrix are reported through the obligation, not through sympy's warning

VERIF = os.path.dirname(os.path.dirname(os.path.abspath(__file__)))
REPO = os.environ.get('AMVERIF_REPO', '/repo')
DEPS = os.path.join(VERIF, '.deps')
WHEELS = '/opt/veriftools/wheels'


def ensure_deps():
    """sympy / networkx / lark: from /verif/.deps (setup_cmd) or, failing that, straight from the wheels."""
    if os.path.isdir(os.path.join(DEPS, 'sympy')):
        if DEPS not in sys.path:
            sys.path.insert(0, DEPS)
        return 'deps'
    import glob
    for pat in ('sympy-*.whl', 'mpmath-*.whl', 'networkx-*.whl', 'lark-*.whl'):
        for w in glob.glob(os.path.join(WHEELS, pat)):
            if w not in sys.path:
                sys.path.insert(0, w)
    return 'wheels'


class AnalysisError(Exception):
    """The analysis itself cannot proceed (anchor vanished, unknown construct, floor missed)."""


class SourceTree:
    """{relpath -> text} view of the repository; overlay replaces files in memory (self-tests)."""

    def __init__(self, root=REPO, overlay=None):
        self.root = root
        self.overlay = dict(overlay or {})
        self._ast = {}
        self.consulted = set()

    def exists(self, rel):
        return rel in self.overlay or os.path.isfile(os.path.join(self.root, rel))

    def text(self, rel):
        self.consulted.add(rel)
        if rel in self.overlay:
            return self.overlay[rel]
        p = os.path.join(self.root, rel)
        if not os.path.isfile(p):
            raise AnalysisError('anchor file vanished: %s' % rel)
        with open(p, encoding='utf-8') as f:
            return f.read()

    def ast(self, rel):
        if rel not in self._ast:
            txt = self.text(rel)
            try:
                if rel.endswith('.pyx'):
                    from .pyxfront import pyx_text_to_ast, Unsupported
                    try:
                        mod, _ad = pyx_text_to_ast(txt, rel)
                        mod._cdecls = list(_ad.cdecls)
                    except Unsupported as e:
                        raise AnalysisError('pyx adapter: %s in %s' % (e, rel))
                else:
                    mod = ast.parse(txt)
            except SyntaxError as e:
                raise AnalysisError('cannot parse %s: %s' % (rel, e))
            except AnalysisError:
                raise
            except Exception as e:  # Cython CompileError etc.
                raise AnalysisError('cannot parse %s: %s: %s' % (rel, type(e).__name__, e))
            for n in ast.walk(mod):
                for c in ast.iter_child_nodes(n):
                    c._parent = n
                if isinstance(n, (ast.FunctionDef, ast.ClassDef)):
                    n._mod = mod          # the module whose global scope the definition sees
            self._ast[rel] = mod
        return self._ast[rel]

    def rel_of(self, mod):
        for rel, m in self._ast.items():
            if m is mod:
                return rel
        return None

    def resolve_import(self, mod, name, depth=0):
        """a repository function bound to `name` in module `mod` by a (relative or absolute) `from ... import`: (FunctionDef, defining module) or None"""
        rel = self.rel_of(mod)
        if rel is None or depth > 3:
            return None
        for st in mod.body:
            if not isinstance(st, ast.ImportFrom):
                continue
            for al in st.names:
                if (al.asname or al.name) != name:
                    continue
                parts = rel.split('/')[:-1]
                if st.level > 0:
                    base = parts[:len(parts) - (st.level - 1)] if st.level > 1 else parts
                elif st.module and st.module.split('.')[0] == 'atomman':
                    base = []
                else:
                    continue
                modparts = (st.module.split('.') if st.module else [])
                cands = []
                stem = '/'.join(base + modparts)
                if stem:
                    cands += [stem + '.py', stem + '.pyx', stem + '/__init__.py']
                # `from . import name` / `from .pkg import name` where name is itself a module or re-exported
                cands += ['/'.join(base + modparts + [al.name]) + '.py', '/'.join(base + modparts + [al.name]) + '/__init__.py']
                for c in cands:
                    if not self.exists(c):
                        continue
                    try:
                        m2 = self.ast(c)
                    except AnalysisError:
                        continue
                    for n2 in m2.body:
                        if isinstance(n2, ast.FunctionDef) and n2.name == al.name:
                            return n2, m2
                    r = self.resolve_import(m2, al.name, depth + 1)
                    if r is not None:
                        return r
        return None

    def files(self, pattern='atomman/**/*.py'):
        out = set()
        for dp, dn, fn in os.walk(os.path.join(self.root, 'atomman')):
            dn[:] = [d for d in dn if d != '__pycache__']
            for f in fn:
                rel = os.path.relpath(os.path.join(dp, f), self.root)
                out.add(rel)
        out |= set(self.overlay)
        pat = pattern.replace('**/', '*')
        return sorted(r for r in out if fnmatch.fnmatch(r, pattern) or fnmatch.fnmatch(r, pat))

    def digest(self):
        h = hashlib.sha256()
        for rel in sorted(self.consulted):
            h.update(rel.encode())
            try:
                h.update(self.text(rel).encode())
            except AnalysisError:
                h.update(b'<missing>')
        return h.hexdigest()[:16]


# ---------------------------------------------------------------- ast helpers

def is_setter(fn):
    return any(isinstance(d, ast.Attribute) and d.attr == 'setter' for d in fn.decorator_list)


def find_def(mod, qualname, setter=False):
    """'Class.method' / 'function' / 'Class.method.inner' -> FunctionDef | ClassDef | None."""
    parts = qualname.split('.')
    scope = mod.body
    node = None
    for i, p in enumerate(parts):
        node = None
        cands = [n for n in scope if isinstance(n, (ast.FunctionDef, ast.ClassDef, ast.AsyncFunctionDef)) and n.name == p]
        if i == len(parts) - 1 and cands and isinstance(cands[0], ast.FunctionDef):
            cands = [c for c in cands if not isinstance(c, ast.FunctionDef) or is_setter(c) == setter]
        if not cands:
            return None
        node = cands[-1] if not setter else cands[0]
        scope = node.body
    return node


def norm(node):
    """Normalised text of a construct (position independent)."""
    if node is None:
        return 'None'
    if isinstance(node, str):
        return re.sub(r'\s+', ' ', node).strip()
    try:
        return re.sub(r'\s+', ' ', ast.unparse(node)).strip()
    except Exception:
        return repr(node)


def short(s, n=160):
    s = norm(s) if not isinstance(s, str) else s
    return s if len(s) <= n else s[:n - 3] + '...'


def walk_no_nested(node):
    """ast.walk that does not descend into nested function/class definitions."""
    todo = list(ast.iter_child_nodes(node))
    while todo:
        n = todo.pop()
        yield n
        if isinstance(n, (ast.FunctionDef, ast.AsyncFunctionDef, ast.ClassDef, ast.Lambda)):
            continue
        todo.extend(ast.iter_child_nodes(n))


def calls_in(node, name=None):
    """Call nodes under node (not nested defs); name matches the dotted callee text or its last part."""
    out = []
    for n in ast.walk(node):
        if isinstance(n, ast.Call):
            t = norm(n.func)
            if name is None or t == name or t.split('.')[-1] == name:
                out.append(n)
    out.sort(key=lambda c: (getattr(c, 'lineno', 0), getattr(c, 'col_offset', 0)))
    return out


def kwarg(call, name, pos=None):
    for k in call.keywords:
        if k.arg == name:
            return k.value
    if pos is not None and pos < len(call.args):
        return call.args[pos]
    return None


def parent_chain(node):
    while getattr(node, '_parent', None) is not None:
        node = node._parent
        yield node


def enclosing_stmt(node):
    n = node
    while not isinstance(n, ast.stmt):
        n = n._parent
    return n


# ---------------------------------------------------------------- context

class Obligation:
    __slots__ = ('rule', 'locator', 'desc', 'ok', 'detail', 'file', 'line', 'key', 'known')

    def __init__(self, rule, locator, desc, ok, detail, file, line, key):
        self.rule, self.locator, self.desc, self.ok = rule, locator, desc, bool(ok)
        self.detail, self.file, self.line, self.key = detail, file, line, key
        self.known = None

    def as_dict(self):
        d = {'rule': self.rule, 'locator': self.locator, 'obligation': self.desc, 'holds': self.ok}
        if self.detail:
            d['detail'] = short(self.detail, 400)
        if self.file:
            d['at'] = '%s:%s' % (self.file, self.line or '?')
        return d


class Ctx:
    def __init__(self, prop, tier='quick', tree=None):
        self.prop = prop
        self.tier = tier
        self.tree = tree or SourceTree()
        from . import symx as _symx
        _symx.EXTERNAL_RESOLVER = self.tree.resolve_import       # functions imported from other repository modules are inlined from their source
        self.obs = []
        self.notes = []
        self.functions = set()
        self.floors = {}
        self.explanation = ''
        self.assumptions = []
        self.extra = {}

    # -- lookup (vanished anchors are analysis errors, never silent passes)
    def mod(self, rel):
        return self.tree.ast(rel)

    def fn(self, rel, qualname, setter=False):
        node = find_def(self.mod(rel), qualname, setter)
        if node is None:
            raise AnalysisError('anchor vanished: %s::%s%s' % (rel, qualname, ' (setter)' if setter else ''))
        self.functions.add('%s::%s%s' % (rel, qualname, '.setter' if setter else ''))
        return node

    def fn_opt(self, rel, qualname, setter=False):
        if not self.tree.exists(rel):
            return None
        node = find_def(self.mod(rel), qualname, setter)
        if node is not None:
            self.functions.add('%s::%s' % (rel, qualname))
        return node

    def need(self, cond, msg):
        if not cond:
            raise AnalysisError(msg)

    # -- obligations
    def ob(self, rule, locator, desc, ok, detail='', node=None, file=None, key=None):
        line = getattr(node, 'lineno', None) if node is not None else None
        if file is None and '::' in locator:
            file = locator.split('::')[0]
        k = key if key is not None else desc
        o = Obligation(rule, locator, desc, ok, detail, file, line, '%s|%s|%s' % (rule, locator, short(k, 120)))
        self.obs.append(o)
        return o.ok

    def floor(self, rule, n, expected_min):
        """Instance floor: a rule matching fewer sites than were confirmed by hand is an analysis error."""
        self.floors[rule] = (n, expected_min)
        if n < expected_min:
            raise AnalysisError('rule %s matched %d instance(s), floor is %d (confirmed by hand); the rule no longer sees its sites' % (rule, n, expected_min))

    def note(self, s):
        self.notes.append(s)

    def run_rules(self, rules):
        """run each sub-rule; an analysis error in one does not hide violations found by the others"""
        errs = []
        for r in rules:
            try:
                r(self)
            except AnalysisError as e:
                errs.append('%s: %s' % (getattr(r, '__name__', 'rule'), e))
        if errs:
            raise AnalysisError(' || '.join(errs))


# ---------------------------------------------------------------- known findings

def load_known(prop):
    p = os.path.join(VERIF, 'KNOWN_FINDINGS.json')
    if not os.path.isfile(p):
        return []
    with open(p) as f:
        data = json.load(f)
    return [e for e in data.get('findings', []) if e.get('property') == prop and e.get('status') == 'known']


def match_known(o, known):
    for e in known:
        if e.get('rule') == o.rule and e.get('locator') == o.locator and e.get('key_contains', '') in o.key:
            return e
    return None


# ---------------------------------------------------------------- driver

LEVEL = 'other'


class _Timeout(BaseException):
    pass


class _watchdog:
    """bounds the analysis time of one property (main thread only; elsewhere it is a no-op)"""

    def __init__(self, seconds):
        self.seconds, self.armed = seconds, False

    def __enter__(self):
        import signal
        import threading
        # the limit is on the processor time of this process (ITIMER_PROF), so a loaded machine does not turn a finishing analysis into a timeout
        if threading.current_thread() is threading.main_thread() and signal.getsignal(signal.SIGPROF) in (signal.SIG_DFL, None):
            def _h(sig, frm):
                raise _Timeout()
            signal.signal(signal.SIGPROF, _h)
            signal.setitimer(signal.ITIMER_PROF, self.seconds)
            self.armed = True
        return self

    def __exit__(self, *a):
        if self.armed:
            import signal
            signal.setitimer(signal.ITIMER_PROF, 0)
            signal.signal(signal.SIGPROF, signal.SIG_DFL)
        return False


def run_property(prop, tier='quick', tree=None, quiet=False):
    """Run the rule module of one property. Returns (ctx, error|None)."""
    import importlib
    ensure_deps()
    ctx = Ctx(prop, tier, tree)
    try:
        mod = importlib.import_module('amverif.rules.%s' % prop.lower())
        with _watchdog(int(os.environ.get('AMVERIF_TIMEOUT', '1500'))):
            err = None
            try:
                mod.run(ctx)
            except AnalysisError as e:
                err = e
            # every repository module the rules consulted is also read against the installed third-party libraries (keywords, attributes, changed semantics)
            from . import apicompat
            for rel in sorted(ctx.tree.consulted):
                if not rel.endswith(('.py', '.pyx')):
                    continue
                try:
                    issues, stats = apicompat.scan(ctx.mod(rel))
                except AnalysisError:
                    continue
                ctx.ob('API-COMPAT', rel, 'third-party calls in this module exist with these keywords and this meaning in the installed numpy / pandas / scipy (%d calls resolved)' % stats['calls_resolved'],
                       not issues, '; '.join(i.what for i in issues)[:400], node=issues[0].node if issues else None, file=rel, key='api generic ' + rel)
            # ... and for state that outlives a call: module-level arrays / containers written in place inside functions, class-level mutable defaults mutated through self
            from . import lints as _lints
            for rel in sorted(ctx.tree.consulted):
                if not rel.endswith('.py'):
                    continue
                try:
                    m_ = ctx.mod(rel)
                except AnalysisError:
                    continue
                hits = _lints.module_state_writes(m_)
                memo_ = _lints.guarded_memos(m_, hits)
                hits = [h for h in hits if h[2] not in _lints.DOCUMENTED_MODULE_STATE and h[2] not in memo_] + _lints.class_state_writes(m_)
                ctx.ob('SHARED-STATE', rel, 'no function writes in place into a module-level array / container or into a class-level mutable default (what one call, or one object, leaves behind would be seen by the next)',
                       not hits, '; '.join('line %d: %s %s is %s' % (st_.lineno, kind_, g_, how_) for _f, st_, g_, how_, kind_ in [(h + ('module-level',))[:5] if len(h) == 4 else h for h in hits][:3]),
                       node=hits[0][1] if hits else None, file=rel, key='shared state ' + rel)
            if err is not None:
                raise err
        if not ctx.obs:
            raise AnalysisError('no obligations were generated')
        return ctx, None
    except AnalysisError as e:
        return ctx, 'ANALYSIS-ERROR property=%s %s' % (prop, e)
    except _Timeout:
        return ctx, 'ANALYSIS-ERROR property=%s analysis did not finish within its time limit (obligations evaluated so far are reported)' % prop
    except RecursionError as e:
        return ctx, 'ANALYSIS-ERROR property=%s RecursionError' % prop
    except Exception as e:
        tb = traceback.format_exc()
        return ctx, 'ANALYSIS-ERROR property=%s internal %s: %s\n%s' % (prop, type(e).__name__, e, tb)


def write_evidence(ctx, t0, violations, err=None, selftest=None):
    ev_dir = os.path.join(VERIF, 'evidence')
    os.makedirs(ev_dir, exist_ok=True)
    obs = ctx.obs
    per_rule = {}
    for o in obs:
        per_rule.setdefault(o.rule, [0, 0])
        per_rule[o.rule][0] += 1
        per_rule[o.rule][1] += 1 if o.ok else 0
    samples = []
    seen_rules = set()
    for o in obs:  # one sample per rule first, then fill
        if o.rule not in seen_rules:
            seen_rules.add(o.rule)
            samples.append(o.as_dict())
    for o in obs:
        if len(samples) >= 60:
            break
        d = o.as_dict()
        if d not in samples:
            samples.append(d)
    failing = [o.as_dict() for o in obs if not o.ok]
    cov = {
        'explanation': ctx.explanation or 'static obligations over the current source of /repo',
        'rule': 'every rule instance of the property module is evaluated on the syntax trees of the current working tree; an obligation is one (rule, construct) pair; distinct = distinct (rule, locator, key)',
        'obligations': len(obs),
        'discharged': sum(1 for o in obs if o.ok),
        'evaluations': max(len(obs), 1),
        'distinct_nontrivial': max(len({o.key for o in obs}), 0),
        'samples': samples or [{'note': 'no obligation generated'}],
        'instances_per_rule': {r: {'obligations': a, 'holding': b} for r, (a, b) in sorted(per_rule.items())},
        'instance_floors': {r: {'matched': a, 'floor': b} for r, (a, b) in sorted(ctx.floors.items())},
        'files_analysed': sorted(ctx.tree.consulted),
        'functions_analysed': sorted(ctx.functions),
        'source_digest': ctx.tree.digest(),
        'failing': failing,
        'exhaustive': True,
        'notes': ctx.notes,
    }
    cov.update(ctx.extra)
    if selftest is not None:
        cov['checker_validation'] = selftest
    if err:
        cov['analysis_error'] = err.splitlines()[0]
    ev = {
        'property_id': ctx.prop,
        'tier': ctx.tier,
        'seed': int(os.environ.get('VERIF_SEED', '0') or 0),
        'level': LEVEL,
        'coverage': cov,
        'assumptions': ctx.assumptions or ['CPython and Cython parsers; the rule tables and oracles in amverif/rules; sympy simplification on the small expressions involved'],
        'wall_s': round(time.time() - t0, 3),
        'violations': violations,
    }
    with open(os.path.join(ev_dir, '%s.json' % ctx.prop), 'w') as f:
        json.dump(ev, f, indent=1, default=str)
        f.write('\n')


def report(ctx, err, t0, selftest=None, replay_key=None):
    """Print report lines, write evidence and replay files; return exit code."""
    known = load_known(ctx.prop)
    nviol = 0
    lines = []
    rdir = os.path.join(VERIF, 'evidence', 'replay')
    for o in ctx.obs:
        if o.ok:
            continue
        if replay_key and replay_key != o.key:
            continue
        e = match_known(o, known)
        where = '%s:%s' % (o.file or '?', o.line or '?')
        if e is not None:
            lines.append('KNOWN-FINDING: property=%s %s %s -- %s' % (ctx.prop, o.rule, o.locator, e.get('what', o.desc)))
            continue
        nviol += 1
        os.makedirs(rdir, exist_ok=True)
        hid = hashlib.sha256(o.key.encode()).hexdigest()[:10]
        rp = os.path.join(rdir, '%s-%s-%s.json' % (ctx.prop, re.sub(r'[^A-Za-z0-9]+', '_', o.rule)[:30], hid))
        with open(rp, 'w') as f:
            json.dump({'property': ctx.prop, 'key': o.key, 'rule': o.rule, 'locator': o.locator, 'obligation': o.desc,
                       'detail': o.detail, 'at': where, 'replay': './check %s --replay %s' % (ctx.prop, rp)}, f, indent=1, default=str)
        lines.append('%s %s %s %s: %s%s' % (where, ctx.prop, o.rule, o.locator, o.desc, (' -- ' + short(o.detail, 300)) if o.detail else ''))
        lines.append('VIOLATION property=%s replay=%s' % (ctx.prop, rp))
    if selftest is not None:
        for f in selftest.get('failures', []):
            err = (err + '\n' if err else '') + 'ANALYSIS-ERROR property=%s checker-validation: %s' % (ctx.prop, f)
    write_evidence(ctx, t0, nviol, err, selftest)
    for l in lines:
        print(l)
    n = len(ctx.obs)
    d = sum(1 for o in ctx.obs if o.ok)
    print('%s tier=%s obligations=%d discharged=%d violations=%d files=%d functions=%d wall=%.1fs' % (
        ctx.prop, ctx.tier, n, d, nviol, len(ctx.tree.consulted), len(ctx.functions), time.time() - t0))
    if err:
        print(err)
    if nviol:
        return 1
    if err:
        return 2
    return 0


def main(argv=None):
    import argparse
    ap = argparse.ArgumentParser(prog='check')
    ap.add_argument('prop')
    ap.add_argument('--tier', default=os.environ.get('VERIF_TIER', 'quick'), choices=['quick', 'thorough'])
    ap.add_argument('--replay', default=None)
    ap.add_argument('--no-selftest', action='store_true')
    a = ap.parse_args(argv)
    t0 = time.time()
    if a.prop == 'all':
        return run_all(a.tier)
    prop = a.prop.upper()
    replay_key = None
    if a.replay:
        with open(a.replay) as f:
            replay_key = json.load(f)['key']
    ctx, err = run_property(prop, a.tier)
    selftest = None
    if a.tier == 'thorough' and not a.no_selftest and not a.replay:
        from . import selftest as st
        selftest = st.run_for(prop)
    assert not any(m == 'atomman' or m.startswith('atomman.') for m in sys.modules), 'atomman was imported: not a static check'
    return report(ctx, err, t0, selftest, replay_key)


def run_all(tier):
    import subprocess
    from concurrent.futures import ThreadPoolExecutor
    props = ['C%02d' % i for i in range(1, 21)]

    def one(p):
        r = subprocess.run([os.path.join(VERIF, 'check'), p, '--tier', tier], capture_output=True, text=True)
        return p, r.returncode, r.stdout + r.stderr
    rc = 0
    with ThreadPoolExecutor(16) as ex:
        for p, code, out in ex.map(one, props):
            print(out.rstrip())
            rc = max(rc, code)
    return rc


# ---------------------------------------------------------------- small structural helpers used by several rule modules

def string_dispatch(stmts, var):
    """if/elif chains keyed on `var == 'lit'` (or `var == 'a' or var == 'b'`) -> {literal: body}, plus '__else__'."""
    out = {}

    def lits(test):
        if isinstance(test, ast.Compare) and len(test.ops) == 1 and isinstance(test.ops[0], ast.Eq) and norm(test.left) == var \
                and isinstance(test.comparators[0], ast.Constant):
            return [test.comparators[0].value]
        if isinstance(test, ast.BoolOp) and isinstance(test.op, ast.Or):
            r = []
            for v in test.values:
                x = lits(v)
                if x is None:
                    return None
                r.extend(x)
            return r
        return None
    for s in stmts:
        if isinstance(s, ast.If):
            cur = s
            while True:
                ls = lits(cur.test)
                if ls is None:
                    break
                for l in ls:
                    out.setdefault(l, cur.body)
                if len(cur.orelse) == 1 and isinstance(cur.orelse[0], ast.If):
                    cur = cur.orelse[0]
                    continue
                if cur.orelse:
                    out.setdefault('__else__', cur.orelse)
                break
    return out


def cmp_canon(c):
    """Compare node -> (greater_text, op, lesser_text) with op in {'>', '>=', '==', '!='} or None"""
    if not (isinstance(c, ast.Compare) and len(c.ops) == 1):
        return None
    a, b, op = norm(c.left), norm(c.comparators[0]), c.ops[0]
    if isinstance(op, ast.Gt):
        return (a, '>', b)
    if isinstance(op, ast.GtE):
        return (a, '>=', b)
    if isinstance(op, ast.Lt):
        return (b, '>', a)
    if isinstance(op, ast.LtE):
        return (b, '>=', a)
    if isinstance(op, ast.Eq):
        return tuple(sorted([a, b])[:1]) + ('==',) + tuple(sorted([a, b])[1:])
    if isinstance(op, ast.NotEq):
        return tuple(sorted([a, b])[:1]) + ('!=',) + tuple(sorted([a, b])[1:])
    return None


def assigns_to(fn, name):
    """Assign/AugAssign statements in fn (not nested defs) whose target text is `name`"""
    out = []
    for n in ast.walk(fn):
        if isinstance(n, ast.Assign) and any(norm(t) == name for t in n.targets):
            out.append(n)
        elif isinstance(n, ast.AugAssign) and norm(n.target) == name:
            out.append(n)
        elif isinstance(n, ast.Assign):
            for t in n.targets:
                if isinstance(t, (ast.Tuple, ast.List)) and any(norm(e) == name for e in t.elts):
                    out.append(n)
    out.sort(key=lambda s: s.lineno)
    return out


def precedes(a, b):
    return (a.lineno, a.col_offset) < (b.lineno, b.col_offset)
