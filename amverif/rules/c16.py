"""C16 Miller index conversions, plane normals, centering tables, index utilities, crystal-family identification.

Decided statically (functions of tools/miller.py and the Box family methods are evaluated on symbolic indices / cells):
 * MAP34: vector4to3∘vector3to4 and plane4to3∘plane3to4 are the identity for any leading shape; 3to4∘4to3 is the identity on
   u+v+t=0; the four-index vector [uvtw] and its three-index form denote the same Cartesian vector in a cell with a3=-(a1+a2);
   wrong last dimension and a violated sum rule are refused; the result buffer is floating point (thirds are not truncated).
 * PLANE-NORMAL: for all 26 zero/sign patterns of (hkl), the two lattice vectors chosen satisfy the zone law, their cross
   product in index space is a *positive* multiple of (h,k,l) (so the normal is along +g), the divisor indices are covered by
   the lcm, the returned vector is s·(a·V)×(b·V)/norm; (000), non-integers and 4 indices in a non-hexagonal cell are refused.
 * CENTERING: (shared with C04) the eight table pairs are mutually inverse with the lattice-point determinants.
 * UTIL: reduce_indices divides by the gcd along the last axis; all_indices(1) is {-1,0,1}^3 minus the origin, each once;
   fromstring parses the four bracket pairs with an optional leading fraction.
 * FAMILY: each family constructor's generic member satisfies its own predicate and identifyfamily returns that family (finite
   model over the equality pattern of a,b,c,alpha,beta,gamma); tools/crystalsystem agrees with the Box methods.
Declined: tolerance behaviour for nearly coincident parameters.
"""
import ast
import itertools

import numpy as np
import sympy as sp

from ..core import norm, calls_in, AnalysisError
from ..symx import SymEval, SymObj, PyStub, Path, Opaque, WouldRaise, module_aliases, symarray, is_zero, equal, arr, is_arr, S
from .. import apicompat, dtypeflow, lints
from . import c04

MIL = 'atomman/tools/miller.py'
BOX = 'atomman/core/Box.py'
CS = 'atomman/tools/crystalsystem.py'


def _run1(ctx, rel, name, args, kw=None, ev=None):
    fn = ctx.fn(rel, name)
    ev = ev or SymEval(module_aliases(ctx.mod(rel)))
    paths = ev.run_fn(fn, args, kw or {})
    return paths


def _ret(paths):
    live = [p for p in paths if p.done == 'return']
    return live[0].ret if len(live) == 1 else None


def map34(ctx):
    x = symarray('x', (2, 3), real=True)
    loc = MIL + '::'
    for f34, f43, what in (('vector3to4', 'vector4to3', 'vector'), ('plane3to4', 'plane4to3', 'plane')):
        y = _ret(_run1(ctx, MIL, f34, [x]))
        ok = y is not None and np.shape(y) == (2, 4)
        ctx.ob('MAP34', loc + f34, '%s 3->4 keeps the leading shape and appends one index' % what, ok, node=ctx.fn(MIL, f34))
        if not ok:
            continue
        ctx.ob('MAP34', loc + f34, '%s 3->4: the first three of the four indices sum to zero' % what, all(is_zero(y[r, 0] + y[r, 1] + y[r, 2]) for r in range(2)), node=ctx.fn(MIL, f34))
        ev = SymEval(module_aliases(ctx.mod(MIL)))
        paths = ev.run_fn(ctx.fn(MIL, f43), [y], {})
        back = _ret(paths)
        ctx.ob('MAP34', loc + f43, '%s 4->3 after 3->4 is the identity (no loss)' % what, back is not None and equal(back, x, deep=False), 'got %s' % (None if back is None else back.tolist(),), node=ctx.fn(MIL, f43))
        # a block of index sets with two leading axes (planes on a grid): every leading axis kept in the caller's order, both ways
        g3 = symarray('g', (2, 3, 3), real=True)
        try:
            g4 = _ret(_run1(ctx, MIL, f34, [g3]))
            okg = g4 is not None and np.shape(g4) == (2, 3, 4) and all(equal(np.asarray(g4[i_, j_], dtype=object), np.asarray(_ret(_run1(ctx, MIL, f34, [g3[i_, j_]])), dtype=object), deep=False) for i_ in range(2) for j_ in range(3))
            gb = _ret(SymEval(module_aliases(ctx.mod(MIL))).run_fn(ctx.fn(MIL, f43), [g4], {})) if okg else None
            okg = okg and gb is not None and np.shape(gb) == (2, 3, 3) and equal(np.asarray(gb, dtype=object), g3, deep=False)
            detg = 'shape %s' % (None if g4 is None else np.shape(g4),)
        except (Opaque, WouldRaise) as e:
            okg, detg = False, str(e)[:200]
        ctx.ob('MAP34', loc + f34, '%s 3->4 and back on a (2, 3, 3) block: entry [i, j] of the result is the conversion of entry [i, j] (leading axes in the caller\'s order)' % what, bool(okg), detg, node=ctx.fn(MIL, f34), key='block ' + f34)
        # 3->4 after 4->3 on the constraint surface
        u = symarray('u', (2, 4), real=True)
        for r in range(2):
            u[r, 2] = -(u[r, 0] + u[r, 1])
        z = _ret(SymEval(module_aliases(ctx.mod(MIL))).run_fn(ctx.fn(MIL, f43), [u], {}))
        okz = z is not None
        if okz:
            w = _ret(_run1(ctx, MIL, f34, [z]))
            okz = w is not None and equal(w, u, deep=False)
        ctx.ob('MAP34', loc + f34, '%s 3->4 after 4->3 is the identity on indices with vanishing sum' % what, bool(okz), node=ctx.fn(MIL, f34))
        # refusals
        def accepted(v):
            try:
                return bool([p for p in SymEval(module_aliases(ctx.mod(MIL))).run_fn(ctx.fn(MIL, f43), [arr(v)], {}) if p.done == 'return'])
            except WouldRaise:
                return False
        verdicts = [(v, accepted(v)) for v in ([1, 2, 3, 5], [[1, 2, -3, 5], [1, 1, 1, 0]], [[1, 0, 0, 0], [-1, 0, 0, 0]], [0, 0, 1, 0])] + [(v, not accepted(v)) for v in ([1, 2, -3, 5], [[1, 2, -3, 5], [2, -1, -1, 0]], [0, 0, 0, 4])]
        ok = not any(a for v, a in verdicts[:4]) and not any(a for v, a in verdicts[4:])
        ctx.ob('MAP34', loc + f43, '%s 4->3: indices whose first three do not sum to zero are refused (also one bad row in a batch, and rows whose violations cancel over the batch); indices that do are accepted' % what, ok,
               'wrongly accepted %s; wrongly refused %s' % ([v for v, a in verdicts[:4] if a], [v for v, a in verdicts[4:] if a]), node=ctx.fn(MIL, f43))
        for fn_, bad in ((f34, symarray('b', (4,))), (f43, symarray('b', (3,)))):
            paths = SymEval(module_aliases(ctx.mod(MIL))).run_fn(ctx.fn(MIL, fn_), [bad], {})
            ctx.ob('MAP34', loc + fn_, 'a wrong number of indices is refused', not [p for p in paths if p.done == 'return'], node=ctx.fn(MIL, fn_), key='shape ' + fn_)
        # the result must hold fractions: whatever element type the caller's indices have, what is returned is a float array (decided from how the result is made)
        for fn_ in (f34, f43):
            f = ctx.fn(MIL, fn_)
            fl = dtypeflow.DtypeFlow(f)
            rt = frozenset().union(*[v_ for _n, v_ in fl.returns]) if fl.returns else frozenset()
            und = dtypeflow.undecided(rt)
            other = [x_ for x_ in rt if x_ != dtypeflow.FLOAT and x_ not in und]
            ctx.need(fl.returns and (other or not und), '%s: the element type of the result is not decided: %s' % (fn_, dtypeflow.describe(rt)))
            ctx.ob('MAP34', loc + fn_, 'the result is a float array whatever the element type of the input (integer input must not truncate thirds)', not other, 'may be: ' + dtypeflow.describe(rt), node=f, key='dtype ' + fn_)
    # same Cartesian vector: [uvtw] = u a1 + v a2 + t a3 + w c with a3 = -(a1 + a2)
    u = symarray('u', (4,), real=True)
    u[2] = -(u[0] + u[1])
    z = _ret(SymEval(module_aliases(ctx.mod(MIL))).run_fn(ctx.fn(MIL, 'vector4to3'), [u], {}))
    a1, a2, cc = symarray('p', (3,), real=True), symarray('q', (3,), real=True), symarray('r', (3,), real=True)
    ok = z is not None and equal(z[0] * a1 + z[1] * a2 + z[2] * cc, u[0] * a1 + u[1] * a2 + u[2] * (-(a1 + a2)) + u[3] * cc, deep=False)
    ctx.ob('MAP34', loc + 'vector4to3', 'four-index and three-index vectors denote the same Cartesian vector in a cell with a3 = -(a1+a2)', bool(ok), node=ctx.fn(MIL, 'vector4to3'))
    # plane: (hkil) and (hkl) have the same intercepts: h,k,l are kept, i dropped / recomputed
    h = symarray('h', (4,), real=True)
    h[2] = -(h[0] + h[1])
    z = _ret(SymEval(module_aliases(ctx.mod(MIL))).run_fn(ctx.fn(MIL, 'plane4to3'), [h], {}))
    ctx.ob('MAP34', loc + 'plane4to3', '(hkil) -> (hkl) keeps h, k, l', z is not None and [z[0], z[1], z[2]] == [h[0], h[1], h[3]], node=ctx.fn(MIL, 'plane4to3'))
    # vector_crystal_to_cartesian
    V = symarray('v', (3, 3), real=True)

    class B(PyStub):
        vects = V
        origin = symarray('o', (3,), real=True)       # a vector conversion must not pick up the cell's origin

        def ishexagonal(self):
            return self.hex

        def position_relative_to_cartesian(self, r):
            return np.asarray(r, dtype=object).dot(V) + self.origin
    b = B()
    b.hex = True
    x3 = symarray('x', (3,), real=True)
    r = _ret(_run1(ctx, MIL, 'vector_crystal_to_cartesian', [x3, b], ev=_ev_with_funcs(ctx)))
    ctx.ob('MAP34', loc + 'vector_crystal_to_cartesian', '[uvw] -> u a + v b + w c', r is not None and equal(r, x3.dot(V), deep=False), node=ctx.fn(MIL, 'vector_crystal_to_cartesian'))
    r = _ret(_run1(ctx, MIL, 'vector_crystal_to_cartesian', [u, b], ev=_ev_with_funcs(ctx)))
    ctx.ob('MAP34', loc + 'vector_crystal_to_cartesian', '[uvtw] in a hexagonal cell -> (2u+v) a + (u+2v) b + w c', r is not None and equal(r, arr([2 * u[0] + u[1], 2 * u[1] + u[0], u[3]]).dot(V), deep=False),
           node=ctx.fn(MIL, 'vector_crystal_to_cartesian'), key='4 hex')
    b2 = B()
    b2.hex = False
    paths = _run1(ctx, MIL, 'vector_crystal_to_cartesian', [u, b2], ev=_ev_with_funcs(ctx))
    ctx.ob('MAP34', loc + 'vector_crystal_to_cartesian', 'four indices with a non-hexagonal cell are refused', not [p for p in paths if p.done == 'return'], node=ctx.fn(MIL, 'vector_crystal_to_cartesian'), key='4 nonhex')


def _ev_with_funcs(ctx):
    mod = ctx.mod(MIL)
    ev = SymEval(module_aliases(mod), funcs={n.name: n for n in mod.body if isinstance(n, ast.FunctionDef)})
    return ev


def plane_normal(ctx):
    """plane_crystal_to_cartesian interpreted end to end: concrete integer indices in all 26 zero/sign patterns on a symbolic cell; the result is compared with the
    reciprocal-lattice direction h·(b×c) + k·(c×a) + l·(a×b) (right-handed cell), which does not depend on how the function picks its in-plane vectors"""
    import math
    outer = ctx.fn(MIL, 'plane_crystal_to_cartesian')
    loc = MIL + '::plane_crystal_to_cartesian'
    V = symarray('v', (3, 3), real=True)
    NRM = sp.Function('nrm')

    class B(PyStub):
        def __init__(self, hexagonal=False):
            self.hexagonal = hexagonal

        @property
        def vects(self):
            return V.copy()

        def ishexagonal(self, *a, **k):
            return self.hexagonal

        def iscubic(self, *a, **k):
            return False
        alpha, beta, gamma = sp.Symbol('alpha_deg', positive=True), sp.Symbol('beta_deg', positive=True), sp.Symbol('gamma_deg', positive=True)

    def norm_(v, **k):
        v = [sp.expand(x) for x in np.ravel(v)]
        return NRM(*v)

    def run(idx, box=None):
        ev = SymEval(module_aliases(ctx.mod(MIL)))
        ev.np_override = {'numpy.lcm': lambda a, b: sp.Integer(math.lcm(int(a), int(b))), 'numpy.lcm.reduce': lambda a: sp.Integer(math.lcm(*[int(x) for x in a])), 'numpy.linalg.norm': norm_,
                          'numpy.allclose': lambda a, b, **k: all(sp.simplify(sp.sympify(x) - sp.sympify(y)) == 0 for x, y in zip(np.ravel(np.asarray(a, dtype=object)), np.ravel(np.asarray(b, dtype=object))))}
        try:
            live = [q for q in ev.run_fn(outer, [idx, box or B()], {}) if q.done == 'return']
        except WouldRaise as e:
            return None, str(e)
        except Opaque as e:
            raise AnalysisError('plane_crystal_to_cartesian(%s): %s' % (idx, e))
        return (live[0].ret, '') if len(live) == 1 else (None, '%d returning paths' % len(live))
    cof = [np.cross(V[1], V[2]), np.cross(V[2], V[0]), np.cross(V[0], V[1])]
    mags = (2, 3, 5)
    n = 0
    for pat in itertools.product((-1, 0, 1), repeat=3):
        if pat == (0, 0, 0):
            continue
        n += 1
        hkl = [p_ * m_ for p_, m_ in zip(pat, mags)]
        tag = '(%s)' % ' '.join(str(x) for x in hkl)
        got, why = run(arr(hkl))
        if got is None or np.shape(got) != (3,):
            ctx.ob('PLANE-NORMAL', loc, '%s: a normal is produced' % tag, False, why, node=outer, key=tag)
            continue
        G = sum(h_ * c_ for h_, c_ in zip(hkl, cof))
        cr = np.cross(np.asarray(got, dtype=object), G)
        par = all(is_zero(sp.expand(sp.together(x).as_numer_denom()[0]), deep=False) for x in cr)
        # the common factor got = r·G: r = (positive rational)/|…|
        ratios = [sp.cancel(sp.together(got[i] / G[i])) for i in range(3)]
        r0 = ratios[0]
        same = all(sp.simplify(r_ - r0) == 0 for r_ in ratios)
        # got = r0·G with one common factor r0.  Unit length: r0²·|G|² = 1 (a length taken by np.linalg.norm or written out as a square root of a sum of squares is the
        # same thing); sense: r0 > 0 -- r0 is continuous and never zero on the right-handed cells, so its sign at one sample cell is its sign
        unit = False
        pos = False
        if same:
            r1 = sp.sympify(r0).replace(lambda t: isinstance(t, sp.Function) and t.func == NRM, lambda t: sp.sqrt(sum(sp.expand(a_) ** 2 for a_ in t.args)))
            GG = sum(sp.expand(g_) ** 2 for g_ in G)
            unit = sp.simplify(sp.expand(sp.together(r1 ** 2).as_numer_denom()[0] * GG) - sp.expand(sp.together(r1 ** 2).as_numer_denom()[1])) == 0
            sample = {V[i, j]: val for (i, j), val in np.ndenumerate(np.array([[3, sp.Rational(1, 7), sp.Rational(-2, 9)], [sp.Rational(-1, 3), 4, sp.Rational(1, 5)], [sp.Rational(2, 7), sp.Rational(-1, 4), 5]], dtype=object))}
            try:
                pos = bool(sp.N(r1.subs(sample), 30) > 0)
            except TypeError:
                pos = False
        ctx.ob('PLANE-NORMAL', loc, '%s: the result is the unit vector along +(h·b×c + k·c×a + l·a×b), the reciprocal-lattice vector of the plane (both in-plane lattice vectors obey the zone law, are integer, and the sense is +g)' % tag,
               bool(par and same and pos and unit), 'parallel %s, one common factor %s, positive sense %s, unit length %s; factor %s' % (par, same, pos, unit, r0), node=outer, key=tag)
    # the same cell in other length units (micrometres ... metres): the normal is a direction, it does not depend on the unit of length.  Concrete numbers, so that any
    # closeness test in the function is evaluated with numpy's semantics |a - b| <= atol + rtol·|b| (an absolute tolerance on a cross product, a length squared, would show)
    R = sp.Rational
    base = np.array([[R(7, 2), 0, 0], [R(-3, 10), R(18, 5), 0], [R(1, 5), R(-1, 10), R(41, 10)]], dtype=object)
    hkls = [[-2, 1, -2], [1, 0, 0], [0, 1, 1], [3, -1, 2]]

    def at_scale(sc, hkl, cell=None):
        Vs = (base if cell is None else cell) * sc

        def _ang(u, v):
            c_ = sp.nsimplify(u.dot(v)) / sp.sqrt(sp.nsimplify(u.dot(u)) * sp.nsimplify(v.dot(v)))
            return sp.Integer(90) if c_ == 0 else sp.acos(c_) * 180 / sp.pi

        class Bs(PyStub):
            vects = property(lambda self: Vs.copy())
            avect = property(lambda self: Vs[0].copy())
            bvect = property(lambda self: Vs[1].copy())
            cvect = property(lambda self: Vs[2].copy())
            a = property(lambda self: sp.sqrt(Vs[0].dot(Vs[0])))
            b = property(lambda self: sp.sqrt(Vs[1].dot(Vs[1])))
            c = property(lambda self: sp.sqrt(Vs[2].dot(Vs[2])))
            alpha = property(lambda self: _ang(Vs[1], Vs[2]))
            beta = property(lambda self: _ang(Vs[0], Vs[2]))
            gamma = property(lambda self: _ang(Vs[0], Vs[1]))

            def ishexagonal(self, *a, **k):
                return False

            def iscubic(self, *a, **k):
                return bool(all(Vs[i, j] == 0 for i in range(3) for j in range(3) if i != j) and Vs[0, 0] == Vs[1, 1] == Vs[2, 2])
        ev = SymEval(module_aliases(ctx.mod(MIL)))
        ev.np_override = {'numpy.lcm': lambda a, b: sp.Integer(math.lcm(int(a), int(b))), 'numpy.lcm.reduce': lambda a: sp.Integer(math.lcm(*[int(x) for x in a]))}
        try:
            live = [q for q in ev.run_fn(outer, [arr(hkl), Bs()], {}) if q.done == 'return']
        except WouldRaise as e:
            return 'raises: %s' % e
        except Opaque as e:
            raise AnalysisError('plane_crystal_to_cartesian on a concrete cell at scale %s: %s' % (sc, e))
        return np.asarray(live[0].ret, dtype=object) if len(live) == 1 else None
    for hkl in hkls:
        ref = at_scale(sp.Integer(1), hkl)
        bad = []
        for sc in (R(1, 10 ** 4), R(1, 10 ** 10), sp.Integer(10 ** 6)):
            got = at_scale(sc, hkl)
            if ref is None or got is None or isinstance(got, str) or isinstance(ref, str) or np.shape(got) != (3,) or not all(is_zero(sp.nsimplify(a_) - sp.nsimplify(b_)) for a_, b_ in zip(got, ref)):
                bad.append('lengths x %s: %s' % (sc, got if isinstance(got, str) else [str(sp.N(x, 6)) for x in (got if got is not None else [])]))
        n += 1
        ctx.ob('PLANE-NORMAL', loc, '(%s) in a triclinic cell: the same unit normal whatever the unit of length (cell scaled by 1e-4, 1e-10, 1e+6)' % ' '.join(map(str, hkl)), not bad,
               '; '.join(bad)[:300] + ' [at scale 1: %s]' % ([str(sp.N(x, 6)) for x in ref] if ref is not None and not isinstance(ref, str) else ref), node=outer, key='scale %s' % (hkl,))

    # orthogonal cells that are not cubic: the normal of (hkl) is along (h/a, k/b, l/c), not along (h, k, l)
    for cname, cell in (('tetragonal 3 x 3 x 47/10', np.array([[3, 0, 0], [0, 3, 0], [0, 0, R(47, 10)]], dtype=object)), ('orthorhombic 3 x 4 x 5', np.array([[3, 0, 0], [0, 4, 0], [0, 0, 5]], dtype=object))):
        for hkl in ([1, 1, 1], [-3, -3, -3], [2, 0, 1]):
            got = at_scale(sp.Integer(1), hkl, cell)
            g = np.array([sp.nsimplify(h_) / cell[i, i] for i, h_ in enumerate(hkl)], dtype=object)
            want = g / sp.sqrt(sum(x ** 2 for x in g))
            ok = got is not None and not isinstance(got, str) and np.shape(got) == (3,) and all(abs(float(sp.N(sp.sympify(a_) - b_, 30))) < 1e-12 for a_, b_ in zip(got, want))
            n += 1
            ctx.ob('PLANE-NORMAL', loc, '%s cell, (%s): the unit normal is along (h/a, k/b, l/c)' % (cname, ' '.join(map(str, hkl))), bool(ok),
                   'got %s, expected %s' % (got if isinstance(got, str) or got is None else [str(sp.N(x, 6)) for x in got], [str(sp.N(x, 6)) for x in want]), node=outer, key='orthogonal %s %s' % (cname[:5], hkl))
    ctx.floor('PLANE-NORMAL', n, 26)
    # batches, Miller-Bravais input, refusals
    got, why = run(arr([[2, 3, 5], [0, -3, 0]]))
    one, _w = run(arr([2, 3, 5]))
    two, _w = run(arr([0, -3, 0]))
    ctx.ob('PLANE-NORMAL', loc, 'a stack of planes is converted plane by plane (leading shape kept)', got is not None and np.shape(got) == (2, 3) and one is not None and two is not None and equal(np.asarray(got[0], dtype=object), np.asarray(one, dtype=object), deep=False)
           and equal(np.asarray(got[1], dtype=object), np.asarray(two, dtype=object), deep=False), why, node=outer, key='stack')
    got4, why = run(arr([2, 3, -5, 7]), B(hexagonal=True))
    got3, _w = run(arr([2, 3, 7]), B(hexagonal=True))
    ctx.ob('PLANE-NORMAL', loc, 'four indices (hkil) on a hexagonal cell give the normal of (hkl)', got4 is not None and got3 is not None and equal(np.asarray(got4, dtype=object), np.asarray(got3, dtype=object), deep=False), why, node=outer, key='hkil')
    verd = [('(000)', run(arr([0, 0, 0]))[0]), ('four indices on a non-hexagonal cell', run(arr([2, 3, -5, 7]), B(hexagonal=False))[0]), ('non-integer indices', run(arr([sp.Rational(1, 2), 1, 0]))[0]), ('two indices', run(arr([1, 2]))[0])]
    ctx.ob('PLANE-NORMAL', loc, '(000), four indices on a non-hexagonal cell, non-integer indices and a wrong number of indices are refused', all(v is None for t_, v in verd), str([t_ for t_, v in verd if v is not None]), node=outer, key='refusals')


def util(ctx):
    loc = MIL + '::'
    # reduce_indices
    g = sp.Symbol('g', positive=True, integer=True)
    pq = [sp.Symbol(n, integer=True) for n in 'pqr']
    ev = SymEval(module_aliases(ctx.mod(MIL)))
    calls = []

    def gcd_reduce(a, axis=None):
        calls.append((a, axis))
        return g
    ev.np_override = {'numpy.gcd.reduce': gcd_reduce}
    x = arr([g * v for v in pq])
    r = _ret(ev.run_fn(ctx.fn(MIL, 'reduce_indices'), [x], {}))
    ok = r is not None and len(calls) == 1 and calls[0][1] in (-1, np.ndim(calls[0][0]) - 1) and all(sp.simplify(a - b) == 0 for a, b in zip(list(r), pq))
    ctx.ob('UTIL', loc + 'reduce_indices', 'indices are divided by their greatest common divisor taken along the last axis', bool(ok), 'got %s' % (None if r is None else list(r),), node=ctx.fn(MIL, 'reduce_indices'))
    # concrete batches (3 and 4 indices): the divisor is the gcd of *all* indices of each vector
    import math

    def gcd_model(a, axis=None):
        a = np.asarray(a, dtype=object)
        if axis is None:
            return sp.Integer(math.gcd(*[int(v) for v in a.ravel()]))
        return np.apply_along_axis(lambda row: sp.Integer(math.gcd(*[int(v) for v in row])), axis, a) if a.ndim > 1 else sp.Integer(math.gcd(*[int(v) for v in a]))
    for tag, batch in (('three indices', [[2, 4, 6], [3, 0, -9], [0, 0, 5], [7, -3, 2]]), ('four indices', [[2, 2, -4, 1], [2, -2, 0, 4], [0, 0, 0, 2], [4, -2, -2, 6], [-4, -4, 8, -3]]),
                       ('single four-index vector', [2, 2, -4, 1]),
                       ('a 3 x 3 block of three-index vectors', [[[3, 6, 9], [2, 0, 0], [4, 4, 4]], [[2, 4, 6], [0, 5, 0], [1, 2, 3]], [[6, 0, 3], [7, 7, 0], [0, 0, 8]]]),
                       ('a 2 x 3 block of three-index vectors', [[[3, 6, 9], [2, 0, 0], [4, 4, 4]], [[2, 4, 6], [0, 5, 0], [10, -5, 15]]]),
                       ('a 1 x 2 block of four-index vectors', [[[2, 2, -4, 6], [3, -3, 0, 9]]])):
        ev = SymEval(module_aliases(ctx.mod(MIL)))
        ev.np_override = {'numpy.gcd.reduce': gcd_model}
        try:
            r = _ret(ev.run_fn(ctx.fn(MIL, 'reduce_indices'), [arr(batch)], {}))
        except (Opaque, WouldRaise, ZeroDivisionError) as e:      # a zero divisor: numpy integer division yields zeros with a warning, wrong either way
            r = None
        rows = np.asarray(batch, dtype=object).reshape(-1, np.shape(batch)[-1])
        want = np.array([[sp.Integer(v) / math.gcd(*[int(x) for x in row]) for v in row] for row in rows], dtype=object).reshape(np.shape(batch))
        ctx.ob('UTIL', loc + 'reduce_indices', '%s: each vector is divided by the gcd of all its indices (same direction, coprime)' % tag, r is not None and np.shape(r) == np.shape(batch) and equal(np.asarray(r, dtype=object), want, deep=False),
               'got %s' % (None if r is None else np.asarray(r).tolist(),), node=ctx.fn(MIL, 'reduce_indices'), key='reduce ' + tag)
    paths = SymEval(module_aliases(ctx.mod(MIL))).run_fn(ctx.fn(MIL, 'reduce_indices'), [symarray('b', (5,))], {})
    ctx.ob('UTIL', loc + 'reduce_indices', 'neither 3 nor 4 indices: refused', not [p for p in paths if p.done == 'return'], node=ctx.fn(MIL, 'reduce_indices'), key='reduce shape')
    # all_indices(1)
    ev = SymEval(module_aliases(ctx.mod(MIL)))

    def meshgrid(*xs):
        return [np.asarray(m, dtype=object) for m in np.meshgrid(*[np.asarray(v, dtype=object) for v in xs])]
    ev.np_override = {'numpy.meshgrid': meshgrid, 'numpy.abs': lambda v: np.array([sp.Abs(e) for e in np.ravel(v)], dtype=object).reshape(np.shape(v))}
    try:
        r = _ret(ev.run_fn(ctx.fn(MIL, 'all_indices'), [1], {}))
        rows = sorted(tuple(int(v) for v in row) for row in r) if r is not None else None
        want = sorted(t for t in itertools.product((-1, 0, 1), repeat=3) if t != (0, 0, 0))
        ctx.ob('UTIL', loc + 'all_indices', 'all_indices(1) lists every triple of {-1,0,1}^3 except (000), each exactly once', rows == want, 'got %d rows' % (len(rows) if rows else -1), node=ctx.fn(MIL, 'all_indices'))
    except Opaque as e:
        raise AnalysisError('all_indices: %s' % e)
    # all_indices(2, reduce=True): every coprime triple within the range, each exactly once
    def unique(a, axis=None, return_index=False, **k):
        if k:
            raise Opaque('np.unique keyword(s) %s outside the model' % sorted(k))
        ai = np.array([[int(v) for v in row] for row in np.asarray(a, dtype=object)] if np.ndim(a) == 2 else [int(v) for v in np.ravel(a)], dtype=np.int64)
        out = np.unique(ai, axis=axis, return_index=return_index)
        conv = lambda z: np.array([sp.Integer(int(v)) for v in np.ravel(z)], dtype=object).reshape(np.shape(z))
        return (conv(out[0]), out[1]) if return_index else conv(out)
    evr = SymEval(module_aliases(ctx.mod(MIL)), funcs={'reduce_indices': ctx.fn(MIL, 'reduce_indices')})
    evr.np_override = dict(ev.np_override, **{'numpy.unique': unique, 'numpy.gcd.reduce': gcd_model})
    try:
        r = _ret(evr.run_fn(ctx.fn(MIL, 'all_indices'), [2], {'reduce': True}))
        rows = sorted(tuple(int(v) for v in row) for row in r) if r is not None else None
        want = sorted(t for t in itertools.product(range(-2, 3), repeat=3) if t != (0, 0, 0) and math.gcd(*t) == 1)
        ctx.ob('UTIL', loc + 'all_indices', 'all_indices(2, reduce=True) lists every coprime triple with indices between -2 and 2 (98 directions), each exactly once', rows == want,
               'got %d rows, %d of the expected ones missing' % (len(rows) if rows else -1, len(set(want) - set(rows or []))), node=ctx.fn(MIL, 'all_indices'), key='all_indices reduced')
    except WouldRaise as e:
        ctx.ob('UTIL', loc + 'all_indices', 'all_indices(2, reduce=True) lists every coprime triple with indices between -2 and 2 (98 directions), each exactly once', False, str(e)[:200], node=ctx.fn(MIL, 'all_indices'), key='all_indices reduced')
    except Opaque as e:
        raise AnalysisError('all_indices(reduce=True): %s' % e)
    # fromstring
    from fractions import Fraction

    def np_fromstring(text, dtype=None, sep=' '):
        return arr([S(int(t)) if t.lstrip('+-').isdigit() else S(float(t)) for t in text.split()])
    for s, want in (('[1 -1 0]', [1, -1, 0]), ('1/2<1 1 0>', [sp.Rational(1, 2), sp.Rational(1, 2), 0]), ('1/3 [1 1 -2 0]', [sp.Rational(1, 3), sp.Rational(1, 3), sp.Rational(-2, 3), 0]),
                    ('(1 1 1)', [1, 1, 1]), ('{1 0 -1 0}', [1, 0, -1, 0]), ('1 2 3', [1, 2, 3]), ('3/2 (0 0 2)', [0, 0, 3])):
        ev = SymEval(module_aliases(ctx.mod(MIL)))
        ev.np_override = {'numpy.fromstring': np_fromstring}
        try:
            r = _ret(ev.run_fn(ctx.fn(MIL, 'fromstring'), [s], {}))
        except WouldRaise as e:
            r = None
        except Opaque as e:
            raise AnalysisError('fromstring(%r): %s' % (s, e))
        ok = r is not None and len(r) == len(want) and all(sp.simplify(a - b) == 0 for a, b in zip(list(r), want))
        ctx.ob('UTIL', loc + 'fromstring', 'fromstring(%r) = %s' % (s, want), bool(ok), 'got %s' % (None if r is None else list(r),), node=ctx.fn(MIL, 'fromstring'), key='fromstring ' + s)
    issues, stats = apicompat.scan(ctx.mod(MIL))
    ctx.ob('API-COMPAT', MIL, 'numpy calls of miller.py exist with these keywords in the installed numpy (%d calls)' % stats['calls_resolved'], not issues, '; '.join(i.what for i in issues)[:300], file=MIL, key='api')


FAMILIES = {  # constructor -> generic member's equality pattern: lengths classes, angle classes (value or symbol)
    'cubic': ((1, 1, 1), (90, 90, 90)), 'hexagonal': ((1, 1, 2), (90, 90, 120)), 'tetragonal': ((1, 1, 2), (90, 90, 90)), 'trigonal': ((1, 1, 1), ('w', 'w', 'w')),
    'orthorhombic': ((1, 2, 3), (90, 90, 90)), 'monoclinic': ((1, 2, 3), (90, 'w', 90)), 'triclinic': ((1, 2, 3), ('u', 'v', 'w')),
}
FAMILY_NAME = {'trigonal': 'rhombohedral'}


def family(ctx):
    cls = ctx.fn(BOX, 'Box')
    aliases = module_aliases(ctx.mod(BOX))
    n = 0
    for ctor, (lens, angs) in FAMILIES.items():
        n += 1
        fam = FAMILY_NAME.get(ctor, ctor)
        # evaluate the constructor classmethod to see which lattice parameters it passes on
        cfn = ctx.fn(BOX, 'Box.' + ctor)
        L = {1: sp.Symbol('l1', positive=True), 2: sp.Symbol('l2', positive=True), 3: sp.Symbol('l3', positive=True)}
        A = {'u': sp.Symbol('ang_u', positive=True), 'v': sp.Symbol('ang_v', positive=True), 'w': sp.Symbol('ang_w', positive=True)}
        argmap = {'a': L[1], 'b': L[2], 'c': L[3] if ctor not in ('hexagonal', 'tetragonal') else L[2], 'alpha': A['u'] if ctor == 'triclinic' else A['w'], 'beta': A['v'] if ctor == 'triclinic' else A['w'], 'gamma': A['w']}
        names = [x.arg for x in cfn.args.args[1:]]
        made = []
        ev = SymEval(aliases)

        def decide(text, v, p):
            return False      # generic member: none of the refusing coincidences (a == c, alpha >= 120, ...) holds
        ev.decide = decide
        try:
            paths = ev.run_fn(cfn, [lambda **kw: made.append(kw) or 'BOX'] + [argmap[x] for x in names], {})
        except Opaque as e:
            raise AnalysisError('Box.%s: %s' % (ctor, e))
        ctx.need(len(made) == 1, 'Box.%s does not construct exactly one box' % ctor)
        kw = made[0]
        vals = [kw.get(k) for k in ('a', 'b', 'c', 'alpha', 'beta', 'gamma')]
        # expected pattern
        exp_l = [L[i] for i in lens]
        if ctor in ('hexagonal', 'tetragonal'):
            exp_l = [L[1], L[1], L[2]]
        exp_a = [sp.Integer(x) if isinstance(x, int) else A[x] for x in angs]
        okc = all(sp.simplify(sp.sympify(v) - e) == 0 for v, e in zip(vals, exp_l + exp_a))
        ctx.ob('FAMILY', BOX + '::Box.' + ctor, 'Box.%s passes the family\'s lattice-parameter pattern to the constructor' % ctor, okc, str(kw), node=cfn, key='ctor ' + ctor)
        # model box: equality pattern only (distinct symbols are distinct values: generic, non-coincident)
        pvals = dict(zip(('a', 'b', 'c', 'alpha', 'beta', 'gamma'), exp_l + exp_a))
        for rel, owner in ((BOX, 'Box.'), (CS, '')):
            def isclose(x, y, **k):
                if is_arr(x) or is_arr(y) or isinstance(x, (list, tuple)) or isinstance(y, (list, tuple)):
                    X, Y = np.broadcast_arrays(np.asarray(x, dtype=object), np.asarray(y, dtype=object))
                    return np.array([bool(sp.simplify(sp.sympify(a_) - sp.sympify(b_)) == 0) for a_, b_ in zip(X.ravel(), Y.ravel())]).reshape(X.shape)
                return sp.simplify(sp.sympify(x) - sp.sympify(y)) == 0
            res = {}
            mod = ctx.mod(rel)
            for pred in ('iscubic', 'ishexagonal', 'istetragonal', 'isrhombohedral', 'isorthorhombic', 'ismonoclinic', 'istriclinic'):
                pfn = ctx.fn(rel, owner + pred)
                ev = SymEval(module_aliases(mod))
                ev.np_override = {'numpy.isclose': isclose}
                ev.globals = {'warnings': _Warn(), 'warnmsg': '', 'PendingDeprecationWarning': 'PendingDeprecationWarning'}
                boxm = SymObj(None, dict(pvals), 'self')
                try:
                    r = _ret(ev.run_fn(pfn, [boxm], {}))
                except Opaque as e:
                    raise AnalysisError('%s%s on a %s cell: %s' % (owner, pred, ctor, e))
                res[pred] = r
            own = 'is' + fam
            ctx.ob('FAMILY', rel + '::' + owner + own, 'a generic %s cell satisfies %s' % (fam, own), res.get(own) is True, str(res), key='%s own %s' % (rel, ctor))
            idf = ctx.fn(rel, owner + 'identifyfamily')
            # identifyfamily itself, interpreted on the same model cell (the predicates are the class's / module's own)
            ev = SymEval(module_aliases(mod))
            ev.np_override = {'numpy.isclose': isclose}
            ev.globals = {'warnings': _Warn(), 'warnmsg': '', 'PendingDeprecationWarning': 'PendingDeprecationWarning'}
            boxm = SymObj(cls if rel == BOX else None, dict(pvals), 'self')
            try:
                first = _ret(ev.run_fn(idf, [boxm], {}))
            except Opaque as e:
                raise AnalysisError('%sidentifyfamily on a %s cell: %s' % (owner, ctor, e))
            ctx.ob('FAMILY', rel + '::' + owner + 'identifyfamily', 'a generic %s cell is identified as %s' % (fam, fam), first == fam, 'identified as %s (predicates %s)' % (first, res), node=idf, key='%s identify %s' % (rel, ctor))
    ctx.floor('FAMILY', n, 7)
    # triclinic cells with exactly one right angle (three different angles, three different lengths): accepted by Box.triclinic, so they are triclinic for the predicates too
    L1, L2, L3 = [sp.Symbol('l%d' % i, positive=True) for i in (1, 2, 3)]
    AU, AV = sp.Symbol('ang_u', positive=True), sp.Symbol('ang_v', positive=True)

    def _isclose(x, y, **k):
        return sp.simplify(sp.sympify(x) - sp.sympify(y)) == 0
    for tag, angs in (('gamma = 90', (AU, AV, sp.Integer(90))), ('alpha = 90', (sp.Integer(90), AU, AV)), ('beta = 90', (AU, sp.Integer(90), AV))):
        pvals = dict(zip(('a', 'b', 'c', 'alpha', 'beta', 'gamma'), (L1, L2, L3) + angs))
        for rel, owner in ((BOX, 'Box.'), (CS, '')):
            mod = ctx.mod(rel)
            out = {}
            for what in ('istriclinic', 'identifyfamily'):
                ev = SymEval(module_aliases(mod))
                ev.np_override = {'numpy.isclose': _isclose}
                ev.globals = {'warnings': _Warn(), 'warnmsg': '', 'PendingDeprecationWarning': 'PendingDeprecationWarning'}
                try:
                    out[what] = _ret(ev.run_fn(ctx.fn(rel, owner + what), [SymObj(cls if rel == BOX else None, dict(pvals), 'self')], {}))
                except Opaque as e:
                    raise AnalysisError('%s%s on a triclinic cell with %s: %s' % (owner, what, tag, e))
            ctx.ob('FAMILY', rel + '::' + owner + 'istriclinic', 'a cell with three different lengths and three different angles of which one is a right angle (%s) is triclinic, and identified as such' % tag,
                   out['istriclinic'] is True and out['identifyfamily'] == 'triclinic', str(out), node=ctx.fn(rel, owner + 'istriclinic'), key='%s one right angle %s' % (rel, tag))


class _Warn(PyStub):
    def warn(self, *a, **k):
        return None


def centering(ctx):
    c04.centering(ctx)


def index_types(ctx):
    """the per-plane arithmetic (lcm, products of indices, sign) is exact only in wide integers: whatever container and element type the caller used (int8, unsigned,
    float whole numbers, lists), the indices handed to the per-plane helper are of the default integer type on every path"""
    fn = ctx.fn(MIL, 'plane_crystal_to_cartesian')
    fl = dtypeflow.DtypeFlow(fn)
    def _arr_arg(c):
        kw = {k.arg: k.value for k in c.keywords if k.arg}
        return c.args[2] if len(c.args) >= 3 else kw.get('arr')
    sites = [c for c in calls_in(fn) if norm(c.func) in ('np.apply_along_axis', 'numpy.apply_along_axis') and _arr_arg(c) is not None]
    ctx.need(len(sites) >= 1, 'plane_crystal_to_cartesian no longer applies a per-plane helper along the last axis')
    for c in sites:
        a = _arr_arg(c)
        t = fl.uses.get(id(a)) if isinstance(a, ast.Name) else fl.ev(a, fl.final)
        ctx.need(t is not None, 'element type of %s at the per-plane call is not decided' % norm(a))
        other = [x for x in t if x != dtypeflow.INT and x not in dtypeflow.undecided(t)]
        ctx.need(other or not dtypeflow.undecided(t), 'element type of %s at the per-plane call is not decided: %s' % (norm(a), dtypeflow.describe(t)))
        ctx.ob('INDEX-TYPES', MIL + '::plane_crystal_to_cartesian', 'the indices given to the per-plane helper are default (wide) integers whatever element type the caller passed', not other,
               'may be: ' + dtypeflow.describe(t), node=c, key='index types plane normal')
    lints.fresh_results(ctx, 'FRESH-RESULTS', MIL, floor=11)


def angle_scale(ctx, rule='FAMILY'):
    """vect_angle (behind the cell angles the family predicates and the hexagonal tests read): the angle between two vectors does not depend on the unit of length"""
    VA = 'atomman/tools/vect_angle.py'
    fn = ctx.fn(VA, 'vect_angle')
    loc = VA + '::vect_angle'
    R = sp.Rational
    for tag, a, b, want in (('the a and b vectors of a hexagonal cell', [1, 0, 0], [R(-1, 2), sp.sqrt(3) / 2, 0], 120), ('two vectors 60 degrees apart', [2, 0, 0], [R(1, 2), 0, sp.sqrt(3) / 2], 60),
                            ('perpendicular vectors', [0, 3, 0], [0, 0, 5], 90)):
        bad = []
        for sc in (sp.Integer(1), R(1, 10 ** 10), sp.Integer(10 ** 8)):
            ev = SymEval(module_aliases(ctx.mod(VA)))
            try:
                live = [q for q in ev.run_fn(fn, [arr([x * sc for x in a]), arr([x * sc for x in b])], {}) if q.done == 'return']
                got = live[0].ret if len(live) == 1 else None
                okv = got is not None and abs(float(sp.N(sp.sympify(got) - want, 30))) < 1e-9
            except WouldRaise as e:
                got, okv = 'raises: %s' % e, False
            except Opaque as e:
                raise AnalysisError('vect_angle on concrete vectors: %s' % e)
            if not okv:
                bad.append('lengths x %s: %s' % (sc, got if isinstance(got, str) else (None if got is None else sp.N(got, 8))))
        ctx.ob(rule, loc, '%s: %d degrees whatever the unit of length (vectors scaled by 1, 1e-10, 1e+8)' % (tag, want), not bad, '; '.join(bad), node=fn, key='angle ' + tag[:30])


def run(ctx):
    ctx.explanation = ('C16: the index conversion functions are evaluated on symbolic indices and compared with their defining linear maps; the plane-normal table is evaluated for '
                       'all 26 zero/sign patterns and shown to give the +g direction by exact rational algebra; the centering tables are checked as exact rational matrices; '
                       'reduce/all_indices/fromstring are evaluated on model inputs; family predicates are evaluated on the equality pattern of each constructor\'s generic member. '
                       'Not decided: tolerance behaviour near coincident parameters.')
    ctx.run_rules([map34, plane_normal, centering, util, family, index_types, angle_scale])
