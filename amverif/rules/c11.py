"""C11 Elastic-constant representations are one tensor; rotation is a tensor rotation.

Decided statically (methods of ElasticConstants are evaluated on a generic symmetric 6x6 matrix of symbols):
 * VOIGT: the 81 entries of the Cijkl getter are c[V(ij),V(kl)] (hence minor and major symmetry); the 81 of Cij9 follow the
   9-index map; the Cijkl and Cij9 setters composed with the getters are the identity on Cij.
 * COMPLIANCE: Sijkl = s[V(ij),V(kl)] / (w w) with w = 1 (normal) / 2 (shear); with these weights the full contraction
   Cijkl Sklmn equals (c·s)[V(ij),V(mn)] / w — i.e. the symmetric identity once s = c^-1; the Sijkl setter inverts the getter.
 * TRANSFORM: the einsum network equals T_ig T_jh T_km T_ln C_ghmn entry by entry (polynomial identity), the result is passed on
   as a full tensor, and the near-zero clean-up is sign-symmetric (never removes an entry as large as the largest).
 * CRYSTAL: each crystal-system constructor (every "two of three" arm) yields a symmetric matrix whose 4-tensor is invariant under
   the generators of that system's rotation group (generic angle for the hexagonal axis, exact rational parametrisation).
 * ISOTROPIC: every one of the 15 modulus pairs, fed with its definition in terms of (lambda, mu), returns (lambda+2mu, lambda, mu).
 * NORMALIZED: normalized_as(system) composed with the system's constructor is the identity on its constants (so it is
   idempotent and is_normal is true there); Voigt/Reuss/Hill bulk and shear are the textbook formulas.
Declined: positive-definiteness, conditioning of the numerical inverse, tolerance behaviour of is_normal.
"""
import ast
import itertools

import numpy as np
import sympy as sp

from ..core import norm, AnalysisError, calls_in
from ..symx import SymEval, SymObj, PyStub, Path, Opaque, WouldRaise, module_aliases, symarray, is_zero, equal, arr, is_arr

EC = 'atomman/core/ElasticConstants.py'
VOIGT = {(0, 0): 0, (1, 1): 1, (2, 2): 2, (1, 2): 3, (2, 1): 3, (0, 2): 4, (2, 0): 4, (0, 1): 5, (1, 0): 5}
V9 = [0, 1, 2, 3, 4, 5, 3, 4, 5]


def sym6(name, **k):
    a = np.empty((6, 6), dtype=object)
    for i in range(6):
        for j in range(i, 6):
            a[i, j] = a[j, i] = sp.Symbol('%s%d%d' % (name, i + 1, j + 1), **k)
    return a


def tensor4(c):
    t = np.empty((3, 3, 3, 3), dtype=object)
    for i, j, k, l in itertools.product(range(3), repeat=4):
        t[i, j, k, l] = c[VOIGT[i, j], VOIGT[k, l]]
    return t


def _is_cleanup(s):
    """statements of a round-off clean-up, skipped when a function is interpreted on *symbolic* tensors (generic values are never "tiny"; the clean-up itself is judged on
    concrete tensors by cleanup_keeps_signs): a store of zero through a boolean mask, and the locals that only build that mask (a ratio to `.max()`, a comparison of it)"""
    if not (isinstance(s, ast.Assign) and len(s.targets) == 1):
        return False
    t = s.targets[0]
    if isinstance(t, ast.Subscript) and isinstance(s.value, ast.Constant) and s.value.value == 0:
        sl = t.slice
        return isinstance(sl, (ast.Name, ast.Compare, ast.Call, ast.BinOp, ast.BoolOp, ast.UnaryOp))       # a mask, not an integer / slice position
    if isinstance(t, ast.Name):
        v = norm(s.value)
        if '.max()' in v and isinstance(s.value, ast.BinOp) and isinstance(s.value.op, ast.Div):
            return True                                                                                    # ratio = C / C.max()
        if any(isinstance(x, ast.Compare) for x in ast.walk(s.value)) and ('tol' in v or '1e-' in v) and not any(isinstance(x, ast.IfExp) for x in ast.walk(s.value)):
            return True                                                                                    # negligible = (ratio < tol) & (ratio > -tol)
    return False


class Made(PyStub):
    def __init__(self, **kw):
        self.kw = kw


def _obj(ctx, c, extra=None):
    cls = ctx.fn(EC, 'ElasticConstants')
    attrs = {'_ElasticConstants__c_ij': c.copy() if c is not None else None}
    attrs.update(extra or {})
    return SymObj(cls, attrs, 'self')


def _ev(ctx, skipped=None):
    ev = SymEval(module_aliases(ctx.mod(EC)))
    ev.skip = _is_cleanup
    ev.globals = {'ElasticConstants': lambda **kw: Made(**kw)}
    return ev


def _get(ctx, obj, attr, ev=None):
    ev = ev or _ev(ctx)
    return ev.getattr(obj, attr, None, Path({})), ev


def voigt(ctx):
    c = sym6('c', real=True)
    loc = EC + '::ElasticConstants.'
    cls = ctx.fn(EC, 'ElasticConstants')
    # Cijkl getter
    t, _ = _get(ctx, _obj(ctx, c), 'Cijkl')
    ctx.need(is_arr(t) and t.shape == (3, 3, 3, 3), 'Cijkl getter does not return a 3x3x3x3 array')
    want = tensor4(c)
    bad = [idx for idx in itertools.product(range(3), repeat=4) if t[idx] != want[idx]]
    ctx.ob('VOIGT', loc + 'Cijkl', 'each of the 81 entries of the full tensor is c[V(ij), V(kl)] (Voigt map 11,22,33,23,13,12 -> 1..6)', not bad,
           'wrong at (i,j,k,l) = %s: got %s, expected %s' % (bad[:3], [str(t[b]) for b in bad[:3]], [str(want[b]) for b in bad[:3]]), node=ctx.fn(EC, 'ElasticConstants.Cijkl'))
    sym_bad = [idx for idx in itertools.product(range(3), repeat=4) if t[idx] != t[idx[1], idx[0], idx[2], idx[3]] or t[idx] != t[idx[0], idx[1], idx[3], idx[2]] or t[idx] != t[idx[2], idx[3], idx[0], idx[1]]]
    ctx.ob('VOIGT', loc + 'Cijkl', 'the full tensor has the minor and major symmetries for every symmetric Cij', not sym_bad, 'violated at %s' % sym_bad[:3], node=ctx.fn(EC, 'ElasticConstants.Cijkl'))
    # Cij9 getter
    n9, _ = _get(ctx, _obj(ctx, c), 'Cij9')
    ctx.need(is_arr(n9) and n9.shape == (9, 9), 'Cij9 getter does not return a 9x9 array')
    bad = [(i, j) for i in range(9) for j in range(9) if n9[i, j] != c[V9[i], V9[j]]]
    ctx.ob('VOIGT', loc + 'Cij9', 'each of the 81 entries of the 9x9 form is c[v(i), v(j)] with v = 1..6,4,5,6', not bad, 'wrong at %s' % bad[:4], node=ctx.fn(EC, 'ElasticConstants.Cij9'))
    # setters composed with getters
    for name, val in (('Cijkl', want), ('Cij9', np.array([[c[V9[i], V9[j]] for j in range(9)] for i in range(9)], dtype=object))):
        obj = _obj(ctx, None)
        ev = _ev(ctx)
        fn, _c = obj.lookup(name, setter=True)
        ctx.need(fn is not None, '%s setter vanished' % name)
        try:
            paths = ev.run_fn(fn, [obj, val.copy()], {})
        except Opaque as e:
            raise AnalysisError('%s setter: %s' % (name, e))
        live = [p for p in paths if p.done == 'return']
        got = obj.attrs.get('_ElasticConstants__c_ij')
        ok = len(live) == 1 and got is not None and np.shape(got) == (6, 6) and all(got[i, j] == c[i, j] for i in range(6) for j in range(6))
        ctx.ob('VOIGT', loc + name + '.setter', 'setting %s from the getter\'s value restores the same 6x6 matrix (no assertion fails on a symmetric tensor)' % name, ok,
               'raised on %d path(s)' % len([p for p in paths if p.done == 'raise']) if not live else 'stored %s' % (None if got is None else [str(x) for x in np.ravel(got)[:8]],), node=fn)
    # the symmetry test of the 6x6 setter is relative: the inverse of a compliance and a rotated tensor are symmetric only up to round-off (1e-16 of the entries), whatever
    # the size of the entries -- a stiffness written in Pa (1e11) is as valid as one in eV/angstrom^3 (1)
    fn6, _c = _obj(ctx, None).lookup('Cij', setter=True)
    ctx.need(fn6 is not None, 'Cij setter vanished')
    R = sp.Rational
    for tag, scale, eps, want_ok in (('entries of order 1e11 (Pa), asymmetric by 1e-5 absolute = 1e-16 relative', R(10) ** 10, R(1, 100000), True),
                                     ('entries of order 1, asymmetric by 1e-12', R(1), R(1, 10 ** 12), True),
                                     ('entries of order 1e11, asymmetric by one part in a thousand', R(10) ** 10, R(10) ** 8, False)):
        M = np.empty((6, 6), dtype=object)
        for i in range(6):
            for j in range(6):
                M[i, j] = (R(30) if i == j else R(10 + min(i, j) + max(i, j))) * scale + (eps if i > j else 0)
        obj = _obj(ctx, None)
        try:
            live = [q for q in _ev(ctx).run_fn(fn6, [obj, M], {}) if q.done == 'return']
            acc = len(live) == 1 and obj.attrs.get('_ElasticConstants__c_ij') is not None
        except WouldRaise:
            acc = False
        except Opaque as e:
            raise AnalysisError('Cij setter (%s): %s' % (tag, e))
        ctx.ob('VOIGT', loc + 'Cij.setter', 'a 6x6 matrix with %s is %s' % (tag, 'accepted' if want_ok else 'refused as not symmetric'), acc == want_ok, 'accepted' if acc else 'refused', node=fn6, key='cij symmetry ' + tag[:40])
    # every representation is computed from the stored 6x6 matrix; a caller who edits what a getter returned (cij /= unit) must not edit the tensor
    from .. import effects
    summ = effects.class_property_summaries(cls, base={'deepcopy': ('fresh',)})
    names = ('Cij', 'Sij', 'Cij9', 'Cijkl', 'Sijkl')
    stale = [n_ for n_ in names if 'self.' + n_ not in summ]
    ctx.ob('VOIGT', loc + 'Cij', 'the getters of the representations (%s) return new arrays on every path, never the stored matrix' % ', '.join(names), not stale, 'may return the object\'s own storage: %s' % stale,
           node=ctx.fn(EC, 'ElasticConstants.Cij'), key='getters fresh')
    # the symmetry assertions of the Cijkl setter enumerate the seven images
    fn, _c = _obj(ctx, None).lookup('Cijkl', setter=True)
    asserts = [a for a in ast.walk(fn) if isinstance(a, ast.Assert) and 'isclose' in norm(a.test)]
    imgs = set()
    for a in asserts:
        call = a.test
        if isinstance(call, ast.Call) and len(call.args) >= 2:
            imgs.add(norm(call.args[1]).replace(' ', ''))
    want_imgs = {'c[j,i,k,l]', 'c[j,i,l,k]', 'c[k,l,j,i]', 'c[l,k,j,i]', 'c[i,j,l,k]', 'c[k,l,i,j]', 'c[l,k,i,j]'}
    ctx.ob('VOIGT', loc + 'Cijkl.setter', 'a tensor lacking a minor or major symmetry is refused: the seven images of (ijkl) are all compared', imgs >= want_imgs, 'compared: %s' % sorted(imgs), node=fn)


def compliance(ctx):
    loc = EC + '::ElasticConstants.'
    # a concrete, fully populated symmetric positive-definite stiffness with exact entries: its exact inverse has no vanishing entry, so every weight is exercised whether the
    # getter goes through the Sij property or inverts the stored matrix itself
    A_ = sp.Matrix(6, 6, lambda i, j: sp.Integer(((3 * i + 5 * j + i * j) % 7) - 3))
    Cc = A_ * A_.T + 11 * sp.eye(6)
    c = np.array(Cc.tolist(), dtype=object)
    s = np.array(Cc.inv().tolist(), dtype=object)
    w = [1, 1, 1, 2, 2, 2]
    obj = _obj(ctx, c)
    t, _ = _get(ctx, obj, 'Sijkl')
    ctx.need(is_arr(t) and t.shape == (3, 3, 3, 3), 'Sijkl getter does not return a 3x3x3x3 array')
    bad = []
    for idx in itertools.product(range(3), repeat=4):
        I, J = VOIGT[idx[0], idx[1]], VOIGT[idx[2], idx[3]]
        if not is_zero(t[idx] - s[I, J] / (w[I] * w[J]), deep=False):
            bad.append(idx)
    g = ctx.fn(EC, 'ElasticConstants.Sijkl')
    ctx.ob('COMPLIANCE', loc + 'Sijkl', 'each entry is s[V(ij),V(kl)] divided by 2 per shear index pair (1, 1/2, 1/4)', not bad, 'wrong at %s: %s' % (bad[:3], [str(t[b]) for b in bad[:3]]), node=g)
    if not bad:
        C4 = tensor4(c)
        prod = np.einsum('ijkl,klmn->ijmn', C4, t)
        cs = c.dot(s)
        bad2 = []
        for idx in itertools.product(range(3), repeat=4):
            I, J = VOIGT[idx[0], idx[1]], VOIGT[idx[2], idx[3]]
            if not is_zero(sp.expand(prod[idx] - cs[I, J] / w[J]), deep=False):
                bad2.append(idx)
        ctx.ob('COMPLIANCE', loc + 'Sijkl', 'stiffness contracted with compliance over both index pairs equals (c·s)[V(ij),V(mn)]/w — the symmetric identity when s is the inverse of c', not bad2,
               'polynomial identity fails at %s' % bad2[:3], node=g)
    # Sij getter is the inverse of Cij; setter inverts back
    gfn = ctx.fn(EC, 'ElasticConstants.Sij')
    sij, _ = _get(ctx, _obj(ctx, c), 'Sij')
    ctx.ob('COMPLIANCE', loc + 'Sij', 'the 6x6 compliance is the matrix inverse of the 6x6 stiffness (exact inverse of a fully populated stiffness)',
           is_arr(sij) and sij.shape == (6, 6) and all(is_zero(sp.nsimplify(a_) - b_, deep=False) for a_, b_ in zip(np.ravel(sij), np.ravel(s))), node=gfn)
    # Sijkl setter composed with getter: argument of the inverse equals s
    obj = _obj(ctx, None)
    ev = _ev(ctx)
    seen = []

    def inv(a):
        seen.append(np.array(a, dtype=object))
        return sym6('z', real=True)
    ev.np_override = {'numpy.linalg.inv': inv}
    fn, _c = obj.lookup('Sijkl', setter=True)
    s4 = np.empty((3, 3, 3, 3), dtype=object)
    for idx in itertools.product(range(3), repeat=4):
        I, J = VOIGT[idx[0], idx[1]], VOIGT[idx[2], idx[3]]
        s4[idx] = s[I, J] / (w[I] * w[J])
    try:
        paths = ev.run_fn(fn, [obj, s4], {})
    except Opaque as e:
        raise AnalysisError('Sijkl setter: %s' % e)
    live = [p for p in paths if p.done == 'return']
    ok = len(live) == 1 and len(seen) == 1 and seen[0].shape == (6, 6) and all(is_zero(seen[0][i, j] - s[i, j], deep=False) for i in range(6) for j in range(6))
    ctx.ob('COMPLIANCE', loc + 'Sijkl.setter', 'setting Sijkl from the getter\'s value restores the same 6x6 compliance (weights 1, 2, 4), which is then inverted into Cij', ok,
           'recovered %s' % ([str(x) for x in np.ravel(seen[0])[:10]] if seen else None), node=fn)


def _mask_sign_symmetric(ctx, stmt, loc, what):
    """the clean-up mask, evaluated on the entries (-5, 5, 0), must select only the zero"""
    tgt = stmt.targets[0]
    name = norm(tgt.value)
    ev = SymEval({'np': 'numpy'})
    X = arr([sp.Integer(-5), sp.Integer(5), sp.Integer(0)])
    env = {name: X, 'tol': sp.Rational(1, 10 ** 8), 'abs': lambda v: np.array([sp.Abs(e) for e in np.ravel(v)], dtype=object).reshape(np.shape(v))}
    try:
        m = ev.ev(tgt.slice, Path(env))
    except Opaque as e:
        raise AnalysisError('%s: clean-up mask outside the vocabulary: %s' % (loc, e))
    vals = [bool(v) if isinstance(v, (bool, np.bool_)) else (True if v == sp.true else (False if v == sp.false else None)) for v in np.ravel(m)]
    ctx.ob('CLEANUP', loc, '%s: the near-zero clean-up removes only entries that are tiny relative to the largest, whatever their sign' % what, vals == [False, False, True],
           'on entries (-5, 5, 0) the mask selects %s' % vals, node=stmt, key=what + ' cleanup')


def cleanup_keeps_signs(ctx, rule):
    """the round-off clean-up of transform() and of the Cij setter, interpreted on a concrete stiffness with negative entries and one entry of relative size 1e-12: negative
    constants (C14 of a rhombohedral crystal, most entries of a rotated tensor) are kept, the round-off entry becomes zero; at GPa- and Pa-like scales alike"""
    R = sp.Rational
    fn = ctx.fn(EC, 'ElasticConstants.transform')
    setter = ctx.fn(EC, 'ElasticConstants.Cij', setter=True)
    for stag, sc in (('order one', R(1)), ('1e+11', R(10) ** 11)):
        M = np.empty((6, 6), dtype=object)
        for i in range(6):
            for j in range(6):
                M[i, j] = (R(30) if i == j else R(((i + 2 * j + 2 * i * j + (j + 2 * i)) % 5) - 2) * 2) * sc      # symmetric, entries in {-4 .. 4} off the diagonal
        M = (M + M.T) / 2
        M[0, 5] = M[5, 0] = R(3, 10 ** 11) * sc                      # 1e-12 of the largest entry: round-off
        want = M.copy()
        want[0, 5] = want[5, 0] = R(0)
        neg = [(i, j) for i in range(6) for j in range(6) if M[i, j] < 0]
        # the setter
        obj = _obj(ctx, None)
        try:
            live = [q for q in SymEval(module_aliases(ctx.mod(EC))).run_fn(setter, [obj, M.copy()], {}) if q.done == 'return']
        except WouldRaise:
            live = []
        except Opaque as e:
            raise AnalysisError('Cij setter (%s): %s' % (stag, e))
        got = obj.attrs.get('_ElasticConstants__c_ij')
        ok = len(live) == 1 and got is not None and all(is_zero(sp.nsimplify(a_) - b_, deep=False) for a_, b_ in zip(np.ravel(got), np.ravel(want)))
        ctx.ob(rule, EC + '::ElasticConstants.Cij.setter', 'entries of %s (%d of them negative), one round-off entry: stored as given with only the round-off entry zeroed' % (stag, len(neg)), bool(ok),
               'negative entries lost at %s' % [ij for ij in neg if got is not None and is_zero(got[ij], deep=False)][:4] if got is not None else 'refused', node=setter, key='cleanup setter ' + stag)
        # transform with the identity as new axes
        obj = _obj(ctx, M.copy())
        ev = SymEval(module_aliases(ctx.mod(EC)))
        ev.globals = {'ElasticConstants': lambda **kw: Made(**kw), 'axes_check': lambda a, **k: np.array(sp.eye(3).tolist(), dtype=object)}
        try:
            live = [q for q in ev.run_fn(fn, [obj, np.array(sp.eye(3).tolist(), dtype=object)], {}) if q.done == 'return']
        except WouldRaise:
            live = []
        except Opaque as e:
            raise AnalysisError('transform (%s): %s' % (stag, e))
        r = live[0].ret if len(live) == 1 else None
        okr = isinstance(r, Made) and 'Cijkl' in r.kw
        if okr:
            C4w = tensor4(want)
            okr = all(is_zero(sp.nsimplify(r.kw['Cijkl'][idx]) - C4w[idx], deep=False) for idx in itertools.product(range(3), repeat=4))
        ctx.ob(rule, EC + '::ElasticConstants.transform', 'entries of %s, identity axes: the tensor comes back as it was, negative constants kept, only the round-off entry zeroed' % stag, bool(okr), node=fn,
               key='cleanup transform ' + stag)


def transform(ctx):
    fn = ctx.fn(EC, 'ElasticConstants.transform')
    loc = EC + '::ElasticConstants.transform'
    c = sym6('c', real=True)
    T = symarray('t', (3, 3), real=True)
    obj = _obj(ctx, c)
    ev = _ev(ctx)
    ev.globals['axes_check'] = lambda a, **k: T
    try:
        paths = ev.run_fn(fn, [obj, symarray('ax', (3, 3))], {})
    except Opaque as e:
        raise AnalysisError('transform: %s' % e)
    live = [p for p in paths if p.done == 'return']
    ctx.need(len(live) == 1, 'transform does not reduce to one path')
    r = live[0].ret
    ok = isinstance(r, Made) and list(r.kw) == ['Cijkl'] and np.shape(r.kw['Cijkl']) == (3, 3, 3, 3)
    ctx.ob('TRANSFORM', loc, 'the rotated full tensor is handed to a new ElasticConstants as Cijkl', ok, str(getattr(r, 'kw', r))[:100], node=fn)
    if ok:
        got = r.kw['Cijkl']
        C4 = tensor4(c)
        want = np.einsum('ig,jh,km,ln,ghmn->ijkl', T, T, T, T, C4)
        bad = [idx for idx in itertools.product(range(3), repeat=4) if sp.expand(got[idx] - want[idx]) != 0]
        ctx.ob('TRANSFORM', loc, 'C\'_ijkl = T_ig T_jh T_km T_ln C_ghmn for all 81 entries (T = rows of the new axes)', not bad, 'differs at %s' % bad[:3], node=fn)
    cleanup_keeps_signs(ctx, 'CLEANUP')
    # axes are validated / normalised by axes_check before use
    ac = [x for x in calls_in(fn) if norm(x.func) == 'axes_check']
    ctx.ob('TRANSFORM', loc, 'the axes go through axes_check (orthogonal, right-handed, normalised) before the rotation is built', len(ac) == 1, node=fn)


def transform_scales(ctx):
    """transform() interpreted whole -- with the class's own constructor, setters and predicates, nothing stubbed but axes_check -- on a concrete cubic crystal (copper-like
    ratios) at three sizes of the pressure unit, rotated by a rational rotation about z that is not a symmetry operation: the result is T T T T C whatever the unit"""
    R = sp.Rational
    fn = ctx.fn(EC, 'ElasticConstants.transform')
    loc = EC + '::ElasticConstants.transform'
    cls = ctx.fn(EC, 'ElasticConstants')
    T = np.array([[R(3, 5), R(4, 5), R(0)], [R(-4, 5), R(3, 5), R(0)], [R(0), R(0), R(1)]], dtype=object)
    n = 0
    for stag, sc in (('entries of order one', R(1)), ('entries of order 1e-5 (a large pressure unit)', R(1, 10 ** 5)), ('entries of order 1e+11 (Pa)', R(10) ** 11)):
        n += 1
        c11, c12, c44 = R(1684, 1000) * sc, R(1214, 1000) * sc, R(754, 1000) * sc
        M = np.zeros((6, 6), dtype=object)
        M[...] = R(0)
        for i in range(3):
            for j in range(3):
                M[i, j] = c11 if i == j else c12
            M[i + 3, i + 3] = c44
        ev = SymEval(module_aliases(ctx.mod(EC)))

        def make(**kw):
            o = SymObj(cls, {}, 'made')
            init, _c = o.lookup('__init__')
            sub = SymEval(module_aliases(ctx.mod(EC)))
            sub.globals = dict(ev.globals)
            live_ = [q for q in sub.run_fn(init, [o], dict(kw)) if q.done == 'return']
            if len(live_) != 1:
                raise WouldRaise('ElasticConstants(%s) is refused' % sorted(kw))
            return o
        ev.globals = {'ElasticConstants': make, 'axes_check': lambda a, **k: T.copy()}
        try:
            live = [q for q in ev.run_fn(fn, [_obj(ctx, M.copy()), T.copy()], {}) if q.done == 'return']
            why = ''
        except WouldRaise as e:
            live, why = [], str(e)[:200]
        except Opaque as e:
            raise AnalysisError('transform on a concrete cubic crystal (%s): %s' % (stag, e))
        got = None
        if len(live) == 1 and isinstance(live[0].ret, SymObj):
            got = live[0].ret.attrs.get('_ElasticConstants__c_ij')
        C4 = tensor4(M)
        want4 = np.einsum('ig,jh,km,ln,ghmn->ijkl', T, T, T, T, C4)
        vg = ((0, 0), (1, 1), (2, 2), (1, 2), (0, 2), (0, 1))
        want = np.array([[want4[vg[i] + vg[j]] for j in range(6)] for i in range(6)], dtype=object)
        ok = got is not None and np.shape(got) == (6, 6) and all(abs(sp.nsimplify(sp.sympify(a_)) - b_) <= abs(c11) / 10 ** 9 for a_, b_ in zip(np.ravel(got), np.ravel(want)))
        ctx.ob('TRANSFORM', loc, 'a cubic crystal with %s, turned about z by atan(4/3): the result is T T T T C (C\'11 = %s of C11), whatever the size of the numbers' % (stag, sp.nsimplify(want[0, 0] / c11)), bool(ok),
               why or ('C\'11 / C11 = %s' % (None if got is None else sp.nsimplify(sp.sympify(got[0, 0])) / c11)), node=fn, key='transform scale ' + stag[:24])
    ctx.floor('TRANSFORM/scales', n, 3)


def _rot(axis, kind):
    t = sp.Symbol('tau', real=True)
    if kind == 2:
        c_, s_ = sp.Integer(-1), sp.Integer(0)
    elif kind == 4:
        c_, s_ = sp.Integer(0), sp.Integer(1)
    elif kind == 3:
        c_, s_ = sp.Rational(-1, 2), sp.sqrt(3) / 2
    else:  # generic angle, exact rational parametrisation
        c_, s_ = (1 - t ** 2) / (1 + t ** 2), 2 * t / (1 + t ** 2)
    i, j, k = {'z': (0, 1, 2), 'x': (1, 2, 0), 'y': (2, 0, 1)}[axis]
    R = np.zeros((3, 3), dtype=object)
    R[...] = sp.Integer(0)
    R[i, i], R[i, j], R[j, i], R[j, j], R[k, k] = c_, -s_, s_, c_, sp.Integer(1)
    return R


GENERATORS = {  # rotation generators of the Laue class each constant set describes
    'cubic': [('z', 4), ('x', 4)],
    'hexagonal': [('z', 0), ('x', 2)],
    'tetragonal6': [('z', 4), ('x', 2)],
    'tetragonal7': [('z', 4)],
    'rhombohedral6': [('z', 3), ('x', 2)],
    'rhombohedral7': [('z', 3)],
    'orthorhombic': [('z', 2), ('x', 2)],
    'monoclinic': [('y', 2)],
    'isotropic': [('z', 0), ('x', 0)],
}


def _construct(ctx, method, kwargs):
    obj = _obj(ctx, None)
    ev = _ev(ctx)
    fn, _c = obj.lookup(method)
    ctx.need(fn is not None, 'constructor %s vanished' % method)
    try:
        paths = ev.run_fn(fn, [obj], dict(kwargs))
    except WouldRaise as e:
        return None, str(e)
    except Opaque as e:
        raise AnalysisError('%s(%s): %s' % (method, sorted(kwargs), e))
    live = [p for p in paths if p.done == 'return']
    if len(live) != 1:
        return None, 'refused (%d returning paths)' % len(live)
    return obj.attrs.get('_ElasticConstants__c_ij'), ''


def _invariant(C6, gens):
    C4 = tensor4(C6)
    bad = []
    for axis, kind in gens:
        R = _rot(axis, kind)
        Cr = np.einsum('ia,jb,kc,ld,abcd->ijkl', R, R, R, R, C4)
        for idx in itertools.product(range(3), repeat=4):
            d = sp.cancel(sp.together(sp.expand(Cr[idx] - C4[idx])))
            if d != 0:
                bad.append(('%d-fold about %s' % (kind, axis) if kind else 'any angle about %s' % axis, idx))
                break
    return bad


def crystal(ctx):
    K = lambda *names: {n: sp.Symbol(n, real=True) for n in names}
    cases = [('cubic', 'cubic', K('C11', 'C12', 'C44')),
             ('hexagonal', 'hexagonal', K('C11', 'C12', 'C33', 'C13', 'C44')), ('hexagonal', 'hexagonal', K('C11', 'C66', 'C33', 'C13', 'C44')), ('hexagonal', 'hexagonal', K('C12', 'C66', 'C33', 'C13', 'C44')),
             ('tetragonal', 'tetragonal6', K('C11', 'C33', 'C12', 'C13', 'C44', 'C66')), ('tetragonal', 'tetragonal7', K('C11', 'C33', 'C12', 'C13', 'C44', 'C66', 'C16')),
             ('rhombohedral', 'rhombohedral6', K('C11', 'C12', 'C33', 'C13', 'C14', 'C44')), ('rhombohedral', 'rhombohedral7', K('C11', 'C12', 'C33', 'C13', 'C14', 'C44', 'C15')),
             ('rhombohedral', 'rhombohedral7', K('C11', 'C66', 'C33', 'C13', 'C14', 'C44', 'C15')), ('rhombohedral', 'rhombohedral6', K('C12', 'C66', 'C33', 'C13', 'C14', 'C44')),
             ('orthorhombic', 'orthorhombic', K('C11', 'C22', 'C33', 'C12', 'C13', 'C23', 'C44', 'C55', 'C66')),
             ('monoclinic', 'monoclinic', K('C11', 'C12', 'C13', 'C15', 'C22', 'C23', 'C25', 'C33', 'C35', 'C44', 'C46', 'C55', 'C66')),
             ('isotropic', 'isotropic', K('C11', 'C12'))]
    # all three of C11, C12, C66 given (the documentation asks for "at least two"): accepted when they agree
    def K3(*names):
        d_ = K(*names)
        d_['C66'] = (d_['C11'] - d_['C12']) / 2
        return d_
    cases += [('hexagonal', 'hexagonal', K3('C11', 'C12', 'C33', 'C13', 'C44')), ('rhombohedral', 'rhombohedral6', K3('C11', 'C12', 'C33', 'C13', 'C14', 'C44')),
              ('rhombohedral', 'rhombohedral7', K3('C11', 'C12', 'C33', 'C13', 'C14', 'C44', 'C15'))]
    n = 0
    for method, gkey, kw in cases:
        n += 1
        loc = EC + '::ElasticConstants.' + method
        tag = '%s(%s)' % (method, ', '.join(sorted(kw)))
        C6, why = _construct(ctx, method, kw)
        ctx.ob('CRYSTAL', loc, '%s: accepted' % tag, C6 is not None, why, key=tag + ' accepted')
        if C6 is None:
            continue
        symm = all(is_zero(C6[i, j] - C6[j, i], deep=False) for i in range(6) for j in range(6))
        ctx.ob('CRYSTAL', loc, '%s: the 6x6 matrix is symmetric' % tag, symm, key=tag + ' symmetric')
        bad = _invariant(C6, GENERATORS[gkey]) if symm else [('not symmetric', None)]
        ctx.ob('CRYSTAL', loc, '%s: the stiffness tensor is invariant under the generators of the system\'s rotation group (%s)' % (
            tag, ', '.join('%s-fold %s' % (k or 'any', a) for a, k in GENERATORS[gkey])), not bad, 'not invariant under %s (first at ijkl=%s)' % (bad[0] if bad else '', ''), key=tag + ' invariant')
        # the named constants land where their names say
        named_bad = []
        for nm, symb in kw.items():
            i, j = int(nm[1]) - 1, int(nm[2]) - 1
            if nm in ('C66',) and method in ('hexagonal', 'rhombohedral') or True:
                if not is_zero(C6[i, j] - symb, deep=False):
                    named_bad.append('%s is %s' % (nm, C6[i, j]))
        ctx.ob('CRYSTAL', loc, '%s: every given constant Cij is entry (i,j) of the matrix' % tag, not named_bad, '; '.join(named_bad), key=tag + ' named')
    ctx.floor('CRYSTAL', n, 16)
    # triclinic: all 21 land at their own place
    names = ['C%d%d' % (i + 1, j + 1) for i in range(6) for j in range(i, 6)]
    kw = {nm: sp.Symbol(nm, real=True) for nm in names}
    C6, why = _construct(ctx, 'triclinic', kw)
    ok = C6 is not None and all(C6[int(nm[1]) - 1, int(nm[2]) - 1] == s and C6[int(nm[2]) - 1, int(nm[1]) - 1] == s for nm, s in kw.items())
    ctx.ob('CRYSTAL', EC + '::ElasticConstants.triclinic', 'triclinic: each of the 21 constants is placed at (i,j) and (j,i)', ok, why, key='triclinic')


def _desqrt(e):
    e = sp.sympify(e)
    return e.replace(lambda x: x.is_Pow and x.exp == sp.Rational(1, 2), lambda x: sp.sqrt(sp.factor(sp.together(x.base))))


def isotropic(ctx):
    lam, mu = sp.symbols('lambda mu', positive=True)
    defs = {'C11': lam + 2 * mu, 'C12': lam, 'C44': mu, 'E': mu * (3 * lam + 2 * mu) / (lam + mu), 'nu': lam / (2 * (lam + mu)), 'K': lam + 2 * mu / 3}
    loc = EC + '::ElasticConstants.isotropic'
    n = 0
    for a, b in itertools.combinations(['C11', 'C12', 'C44', 'E', 'nu', 'K'], 2):
        n += 1
        tag = '(%s, %s)' % (a, b)
        C6, why = _construct(ctx, 'isotropic', {a: defs[a], b: defs[b]})
        if C6 is None:
            ctx.ob('ISOTROPIC', loc, 'pair %s is accepted' % tag, False, why, key=tag)
            continue
        want = {(0, 0): lam + 2 * mu, (0, 1): lam, (3, 3): mu}
        bad = []
        for i in range(6):
            for j in range(6):
                w = want[(0, 0)] if i == j and i < 3 else (want[(0, 1)] if i < 3 and j < 3 else (want[(3, 3)] if i == j else 0))
                d = sp.simplify(_desqrt(C6[i, j]) - w)
                if d != 0:
                    bad.append('C%d%d = %s' % (i + 1, j + 1, sp.simplify(_desqrt(C6[i, j]))))
        ctx.ob('ISOTROPIC', loc, 'pair %s given by its definition in (λ, μ) yields C11=λ+2μ, C12=λ, C44=μ (λ, μ > 0)' % tag, not bad, '; '.join(bad[:3]), key=tag)
    ctx.floor('ISOTROPIC', n, 15)
    for alias, canon in (('M', 'C11'), ('lambda', 'C12'), ('mu', 'C44')):
        other = 'C44' if canon != 'C44' else 'C12'
        C6, why = _construct(ctx, 'isotropic', {alias: defs[canon], other: defs[other]})
        ok = C6 is not None and is_zero(C6[0, 0] - (lam + 2 * mu)) and is_zero(C6[0, 1] - lam) and is_zero(C6[3, 3] - mu)
        ctx.ob('ISOTROPIC', loc, 'alias %s stands for %s' % (alias, canon), ok, why, key='alias ' + alias)
    # three constants, or one, are refused
    C6, why = _construct(ctx, 'isotropic', {'C11': defs['C11'], 'C12': defs['C12'], 'C44': defs['C44']})
    ctx.ob('ISOTROPIC', loc, 'more than two moduli are refused', C6 is None, key='three refused')


def normalized(ctx):
    loc = EC + '::ElasticConstants.normalized_as'
    fn = ctx.fn(EC, 'ElasticConstants.normalized_as')
    K = lambda *names: {n: sp.Symbol(n, real=True) for n in names}
    cases = [('cubic', K('C11', 'C12', 'C44')), ('hexagonal', K('C11', 'C12', 'C33', 'C13', 'C44')), ('tetragonal', K('C11', 'C33', 'C12', 'C13', 'C44', 'C66', 'C16')),
             ('rhombohedral', K('C11', 'C12', 'C33', 'C13', 'C14', 'C44', 'C15')), ('orthorhombic', K('C11', 'C22', 'C33', 'C12', 'C13', 'C23', 'C44', 'C55', 'C66'))]
    n = 0
    for system, kw in cases:
        n += 1
        C6, why = _construct(ctx, system, kw)
        ctx.need(C6 is not None, 'constructor %s refused its own constants: %s' % (system, why))
        obj = _obj(ctx, C6)
        ev = _ev(ctx)
        try:
            paths = ev.run_fn(fn, [obj, system], {})
        except Opaque as e:
            raise AnalysisError('normalized_as(%s): %s' % (system, e))
        live = [p for p in paths if p.done == 'return']
        ok = len(live) == 1 and isinstance(live[0].ret, Made)
        C1 = None
        if ok:
            C1, why = _construct(ctx, system, live[0].ret.kw)
            ok = C1 is not None and all(is_zero(C1[i, j] - C6[i, j], deep=False) for i in range(6) for j in range(6))
        det = why if C1 is None else '; '.join('C%d%d: %s -> %s' % (i + 1, j + 1, C6[i, j], sp.simplify(C1[i, j])) for i in range(6) for j in range(i, 6) if not is_zero(C1[i, j] - C6[i, j], deep=False))[:300]
        ctx.ob('NORMALIZED', loc, '%s: normalising a tensor built from %s constants returns the same tensor (fixed point, hence idempotent; is_normal holds there)' % (system, system), bool(ok), det, node=fn, key=system)
    ctx.floor('NORMALIZED', n, 5)
    # a generic tensor: the result, built the way normalized_as builds it (through the constructor's own keyword dispatch), has the system's symmetry and is a fixed point
    gen = sym6('g', real=True)
    init = ctx.fn(EC, 'ElasticConstants.__init__')

    def via_init(kw):
        o = _obj(ctx, None)
        try:
            live = [p for p in _ev(ctx).run_fn(init, [o], dict(kw)) if p.done == 'return']
        except WouldRaise as e:
            return None, 'constructor refuses %s: %s' % (sorted(kw), e)
        except Opaque as e:
            raise AnalysisError('ElasticConstants(%s): %s' % (sorted(kw), e))
        if len(live) != 1:
            return None, 'constructor refuses %s' % sorted(kw)
        return o.attrs.get('_ElasticConstants__c_ij'), ''

    def normalise(C, system):
        try:
            live = [p for p in _ev(ctx).run_fn(fn, [_obj(ctx, C), system], {}) if p.done == 'return']
        except Opaque as e:
            raise AnalysisError('normalized_as(%s): %s' % (system, e))
        if len(live) != 1 or not isinstance(live[0].ret, Made):
            return None, 'no single result'
        return via_init(live[0].ret.kw)
    gk = {'cubic': 'cubic', 'hexagonal': 'hexagonal', 'tetragonal': 'tetragonal7', 'rhombohedral': 'rhombohedral7', 'orthorhombic': 'orthorhombic'}
    for system, _kw in cases:
        C1, why = normalise(gen, system)
        bad = ''
        if C1 is None:
            bad = why
        else:
            nv = _invariant(C1, GENERATORS[gk[system]])
            if nv:
                bad = 'result not invariant under %s' % (nv[0][0],)
            else:
                C2, why = normalise(C1, system)
                if C2 is None:
                    bad = 'second pass: ' + why
                else:
                    diff = ['C%d%d' % (i + 1, j + 1) for i in range(6) for j in range(i, 6) if not is_zero(C2[i, j] - C1[i, j], deep=False)]
                    if diff:
                        bad = 'second pass changes %s' % ', '.join(diff[:4])
        ctx.ob('NORMALIZED', loc, '%s: a general tensor normalises (built through the constructor as normalized_as does) to one with the system\'s symmetry, and a second pass changes nothing' % system,
               not bad, bad, node=fn, key='generic ' + system)
    # triclinic: plain copy
    c = sym6('c', real=True)
    ev = _ev(ctx)
    paths = [p for p in ev.run_fn(fn, [_obj(ctx, c), 'triclinic'], {}) if p.done == 'return']
    ok = len(paths) == 1 and isinstance(paths[0].ret, Made) and list(paths[0].ret.kw) == ['Cij'] and equal(paths[0].ret.kw['Cij'], c, deep=False)
    ctx.ob('NORMALIZED', loc, 'triclinic: no normalisation (same matrix)', ok, node=fn, key='triclinic')
    # an unknown system is refused
    paths = ev.run_fn(fn, [_obj(ctx, c), 'quasicrystal'], {})
    ctx.ob('NORMALIZED', loc, 'an unknown crystal system is refused', not [p for p in paths if p.done == 'return'], node=fn, key='unknown')
    # is_normal compares against normalized_as of the same system
    isn = ctx.fn(EC, 'ElasticConstants.is_normal')
    t = norm(isn.body[-1])
    ctx.ob('NORMALIZED', EC + '::ElasticConstants.is_normal', 'is_normal compares Cij with normalized_as(crystal_system).Cij within the given tolerances',
           'np.allclose(self.Cij, self.normalized_as(crystal_system).Cij' in t and 'atol=atol' in t and 'rtol=rtol' in t, t[:160], node=isn)
    # moduli
    s = sym6('s', real=True)
    for meth, voigt_f, reuss_f in (
            ('bulk', lambda c: (c[0, 0] + c[1, 1] + c[2, 2] + 2 * (c[0, 1] + c[1, 2] + c[0, 2])) / 9, lambda s: 1 / (s[0, 0] + s[1, 1] + s[2, 2] + 2 * (s[0, 1] + s[1, 2] + s[0, 2]))),
            ('shear', lambda c: (c[0, 0] + c[1, 1] + c[2, 2] - (c[0, 1] + c[1, 2] + c[0, 2]) + 3 * (c[3, 3] + c[4, 4] + c[5, 5])) / 15,
             lambda s: 15 / (4 * (s[0, 0] + s[1, 1] + s[2, 2]) - 4 * (s[0, 1] + s[1, 2] + s[0, 2]) + 3 * (s[3, 3] + s[4, 4] + s[5, 5])))):
        mfn = ctx.fn(EC, 'ElasticConstants.' + meth)
        vals = {}
        for style in ('Voigt', 'Reuss', 'Hill'):
            obj = _obj(ctx, c, {'Sij': s.copy()})
            ev = _ev(ctx)
            paths = [p for p in ev.run_fn(mfn, [obj, style], {}) if p.done == 'return']
            ctx.need(len(paths) == 1, '%s(%s) does not reduce to one path' % (meth, style))
            vals[style] = paths[0].ret
        ok = is_zero(vals['Voigt'] - voigt_f(c)) and is_zero(vals['Reuss'] - reuss_f(s)) and is_zero(vals['Hill'] - (voigt_f(c) + reuss_f(s)) / 2)
        ctx.ob('MODULI', EC + '::ElasticConstants.' + meth, '%s modulus: Voigt from Cij, Reuss from Sij, Hill their mean (textbook formulas)' % meth, ok,
               'Voigt %s; Reuss %s' % (vals['Voigt'], vals['Reuss']), node=mfn, key=meth)
        paths = _ev(ctx).run_fn(mfn, [_obj(ctx, c), 'Average'], {})
        ctx.ob('MODULI', EC + '::ElasticConstants.' + meth, 'an unknown estimate style is refused', not [p for p in paths if p.done == 'return'], node=mfn, key=meth + ' unknown')
    # isotropic normalisation: (mu, K) of an isotropic tensor give it back
    lam, mu = sp.symbols('lambda mu', positive=True)
    C6, why = _construct(ctx, 'isotropic', {'C12': lam, 'C44': mu})
    ctx.need(C6 is not None, 'isotropic(C12, C44) refused')
    obj = _obj(ctx, C6)
    ev = _ev(ctx)
    try:
        paths = [p for p in ev.run_fn(fn, [obj, 'isotropic'], {}) if p.done == 'return']
        ok = len(paths) == 1 and isinstance(paths[0].ret, Made)
        if ok:
            kw = {k: sp.simplify(v) for k, v in paths[0].ret.kw.items()}
            C1, why = _construct(ctx, 'isotropic', kw)
            ok = C1 is not None and all(is_zero(sp.simplify(C1[i, j] - C6[i, j])) for i in range(6) for j in range(6))
    except Opaque as e:
        raise AnalysisError('normalized_as(isotropic): %s' % e)
    ctx.ob('NORMALIZED', loc, 'isotropic: Hill shear and bulk moduli of an isotropic tensor reproduce it (fixed point)', bool(ok), node=fn, key='isotropic')


def axes_check_rule(ctx, rule='TRANSFORM'):
    """axes_check (what transform() does to the axes it is given): each row divided by its own length; orthogonal right-handed sets of any lengths accepted, others refused"""
    AX = 'atomman/tools/axes_check.py'
    fn = ctx.fn(AX, 'axes_check')
    loc = AX + '::axes_check'
    R = sp.Rational

    def run_(axes):
        ev = SymEval(module_aliases(ctx.mod(AX)))
        try:
            live = [q for q in ev.run_fn(fn, [axes], {}) if q.done == 'return']
        except WouldRaise:
            return 'refused', None
        except Opaque as e:
            raise AnalysisError('axes_check: %s' % e)
        return ('accepted', live[0].ret) if len(live) == 1 else ('refused', None)
    for tag, axes in (('orthogonal rows of different lengths', [[1, -1, 0], [1, 1, -2], [1, 1, 1]]), ('the same as a nested list of lists with a factor', [[2, 2, 2], [-4, 2, 2], [0, -3, 3]]),
                      ('unit axes', [[1, 0, 0], [0, 1, 0], [0, 0, 1]]), ('rows of length 2, 3 and 5 along the Cartesian axes in another order', [[0, 2, 0], [0, 0, 3], [5, 0, 0]])):
        st_, got = run_(arr(axes) if 'nested' not in tag else [list(r) for r in axes])
        want = np.array([[sp.nsimplify(x) / sp.sqrt(sum(sp.nsimplify(y) ** 2 for y in row)) for x in row] for row in axes], dtype=object)
        ok = st_ == 'accepted' and np.shape(got) == (3, 3) and all(is_zero(sp.nsimplify(a_) - b_) for a_, b_ in zip(np.ravel(np.asarray(got, dtype=object)), np.ravel(want)))
        ctx.ob(rule, loc, '%s: accepted, every row divided by its own length' % tag, bool(ok), 'the call is %s%s' % (st_, '' if got is None else ', rows %s' % [[str(sp.nsimplify(x)) for x in r] for r in np.asarray(got, dtype=object)]),
               node=fn, key='axes ' + tag[:30])
    for tag, axes in (('rows that are not orthogonal', [[1, 0, 0], [1, 1, 0], [0, 0, 1]]), ('a left-handed set', [[1, 0, 0], [0, 1, 0], [0, 0, -1]])):
        st_, got = run_(arr(axes))
        ctx.ob(rule, loc, '%s: refused' % tag, st_ == 'refused', node=fn, key='axes ' + tag[:30])


def run(ctx):
    ctx.explanation = ('C11: the getters/setters, transform, crystal-system constructors, isotropic pair algebra, normalisation and modulus estimates of ElasticConstants are '
                       'evaluated by the analyser on generic symmetric matrices of symbols and compared, as exact polynomial / rational identities, with the Voigt map, the tensor '
                       'transformation law, the invariance of each system under its rotation generators, the (λ, μ) definitions of the six isotropic moduli and the Voigt/Reuss/Hill '
                       'formulas. Not decided: positive-definiteness and numerical conditioning.')
    ctx.run_rules([voigt, compliance, transform, transform_scales, axes_check_rule, crystal, isotropic, normalized])
