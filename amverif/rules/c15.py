"""C15 Point-defect insertion.

Decided statically (the four generators and the dispatcher are evaluated on a model system with 4 atoms, two types and an extra
per-atom property whose values are symbols; the site lookup - distances within atol - is scripted: none / one / two atoms match):
 * COUNT-ORDER: atom count changes by -1 / +1 / 0 / +1; surviving atoms keep their relative order, type, position and property
   values; the defect atom(s) come last.
 * OLD-ID: old_id is created from the index list when absent (new atoms get max+1, a substituted atom keeps its id) and is
   carried over, not overwritten, when the input already has one (maps compose).
 * DEFECT-ATOM: interstitial at the requested Cartesian position (box-relative input converted through the box) with the given
   type/properties (defaults 1 / zeros); substitutional changes only the type (and given properties); dumbbell atoms sit at
   site -/+ db_vect, a box-relative db_vect being converted as a *vector* (no origin).
 * SITE: by index (negative indices normalised), by Cartesian or box-relative position give the same result; no match, two
   matches, both/neither of pos and ptd_id, out-of-range index, occupied interstitial site, same-type substitution are refused.
 * UNTOUCHED: the input system's arrays are not written; box, pbc and atoms of the result are copies.
 * DISPATCH: point() forwards every accepted parameter to the right generator and refuses the others.
Declined: that the distance test itself picks the right atom for a given tolerance (numerical; the separation is C02's).
"""
import ast
import itertools

import numpy as np
import sympy as sp

from ..core import norm, calls_in, AnalysisError
from ..symx import SymEval, PyStub, Path, Opaque, WouldRaise, module_aliases, symarray, is_zero, equal, arr, is_arr

PT = 'atomman/defect/point.py'
N = 4
V = symarray('v', (3, 3), real=True)
O = symarray('o', (3,), real=True)


class AtomsM(PyStub):
    def __init__(self, view):
        object.__setattr__(self, 'view', view)

    @property
    def natoms(self):
        return len(next(iter(self.view.values())))

    def __getattr__(self, k):
        v = object.__getattribute__(self, 'view')
        if k in v:
            return v[k]
        raise AttributeError(k)

    def __setattr__(self, k, val):
        n = self.natoms
        a = np.empty((n,) + np.shape(val)[1:], dtype=object)
        a[...] = np.array(val, dtype=object)
        self.view[k] = a

    def __getitem__(self, index):
        if not isinstance(index, list):
            raise Opaque('Atoms index %r' % (index,))
        return AtomsM({k: np.array([a[i] for i in index], dtype=object) for k, a in self.view.items()})

    def prop(self):
        return list(self.view.keys())


class BoxM(PyStub):
    def __init__(self):
        self.vects, self.origin = V, O

    def position_relative_to_cartesian(self, s):
        return np.asarray(s, dtype=object).dot(V) + O

    def vector_crystal_to_cartesian(self, s):
        return np.asarray(s, dtype=object).dot(V)


def _deep(x):
    """deepcopy on the model objects"""
    if isinstance(x, AtomsM):
        return AtomsM({k: a.copy() for k, a in x.view.items()})
    if isinstance(x, BoxM):
        return BoxM()
    if isinstance(x, np.ndarray):
        return x.copy()
    return x


class SystemM(PyStub):
    def __init__(self, box=None, pbc=None, atoms=None, symbols=None, safecopy=False, **kw):
        if safecopy:          # System.__init__ deep-copies the atoms and the box it is given (not the periodicity flags)
            box, atoms = _deep(box), _deep(atoms)
        self.box, self.pbc, self.atoms, self.symbols, self.kw = box, pbc, atoms, symbols, kw
        self.dv_calls = []

    @property
    def natoms(self):
        return self.atoms.natoms

    def atoms_prop(self, *a, **k):
        return list(self.atoms.view.keys())

    def dvect(self, pos_0, pos_1):      # the parameter names of System.dvect
        p0, p1 = pos_0, pos_1
        # a table of separations, one row per atom (symbols: the distances are scripted where the table's norm is taken)
        self.dv_calls.append((p0, p1))
        return symarray('dv%d_' % len(self.dv_calls), (len(np.atleast_2d(np.asarray(p1, dtype=object))), 3), real=True)

    def dmag(self, pos_0, pos_1):
        p0, p1 = pos_0, pos_1
        # the same search through the distance function: the scripted distances directly
        self.dv_calls.append((p0, p1))
        if getattr(self, 'scripted', None) is None:
            raise Opaque('dmag on a model system without scripted distances')
        return self.scripted.copy()


def base_system(with_old_id=False):
    view = {'atype': arr([1, 2, 1, 2]), 'pos': symarray('p', (N, 3), real=True), 'charge': symarray('q', (N,), real=True)}
    if with_old_id:
        view['old_id'] = arr([7, 3, 9, 5])
    return SystemM(box=BoxM(), pbc=np.array([True, False, True], dtype=object), atoms=AtomsM(view), symbols=('Al', 'Cu'))


def run_gen(ctx, name, system, match, kw):
    """evaluate generator `name`; `match` = list of atom indices whose distance to pos is within atol"""
    fn = ctx.fn(PT, name)
    ev = SymEval(module_aliases(ctx.mod(PT)))
    copies = []

    def deepcopy(x):
        copies.append(x)
        return _deep(x)

    class UC(PyStub):
        def set_in_units(self, v, u):
            return sp.Rational(1, 100)        # the default tolerance (0.01 angstrom in working units): far below the scripted distance 10 of the other atoms
    lookups = []

    def norm_(x, axis=None):
        # scripted distances of the N atoms from the position: 0 for the atoms said to be within tolerance, 10 for the others (the tolerance is far below 10)
        lookups.append((('DIST', x), None))
        return np.array([sp.Integer(0) if i in match else sp.Integer(10) for i in range(N)], dtype=object)

    def isclose(d, z, atol=None, **k):
        lookups.append((d, atol))
        if np.ndim(d) == 0:
            return bool(sp.sympify(d) == sp.sympify(z))
        return np.array([bool(sp.sympify(v_) == sp.sympify(z)) for v_ in np.ravel(d)])

    def where(mask):
        return (np.array([i for i, b in enumerate(mask) if b], dtype=int),)
    ev.np_override = {'numpy.linalg.norm': norm_, 'numpy.isclose': isclose, 'numpy.where': where}
    system.scripted = np.array([sp.Integer(0) if i in match else sp.Integer(10) for i in range(N)], dtype=object)
    ev.globals = {'System': lambda **k: SystemM(**k), 'deepcopy': deepcopy, 'uc': UC()}
    paths = ev.run_fn(fn, [system], dict(kw))
    return paths, copies, lookups


def _outcome(paths):
    live = [p for p in paths if p.done == 'return']
    return (live[0].ret if len(live) == 1 else None), [p for p in paths if p.done == 'raise']


def _rows(sysm, k):
    return [sysm.atoms.view[k][i] for i in range(sysm.natoms)]


def _same_rows(a, b):
    return len(a) == len(b) and all(equal(np.asarray(x, dtype=object), np.asarray(y, dtype=object), deep=False) if (is_arr(x) or is_arr(y)) else is_zero(sp.sympify(x) - sp.sympify(y)) for x, y in zip(a, b))


def site_tolerance(ctx):
    """the site search on concrete numbers: four atoms on a line, the requested position a stated distance from one of them; closeness tests are evaluated with numpy's
    semantics |a - b| <= atol + rtol·|b|.  The atom within the tolerance is taken, a position farther than the tolerance from every atom is refused (vacancy,
    substitutional, dumbbell) / accepted (interstitial) -- in particular the tolerance is a *distance*: 0.05 is outside 0.01 although its square is not."""
    R = sp.Rational
    X = [R(0), R(2), R(4), R(6)]
    n = 0
    for gen, U in [(g_, u_) for g_ in ('vacancy', 'substitutional', 'dumbbell', 'interstitial') for u_ in (sp.Integer(1), R(1, 10))]:
        # U: the size of one angstrom in working units (1 by default; 1/10 when the working length unit is the nanometre): the default tolerance is 0.01 angstrom, whatever the working units
        fn = ctx.fn(PT, gen)
        loc = PT + '::' + gen
        for tag, delta, atol, near in (('4e-3 from an atom, default tolerance 1e-2', R(4, 1000), None, True), ('5e-2 from an atom, default tolerance 1e-2', R(5, 100), None, False),
                                       ('1.3 from an atom, atol=1.5 given (the next atom is 0.7 away: two atoms within the tolerance)', R(13, 10), R(3, 2), 'two'),
                                       ('0.9 from an atom (1.1 from the next), atol=1 given', R(9, 10), R(1), True), ('exactly on an atom', R(0), None, True)):
            if U != 1 and atol is not None:
                continue              # (an explicit tolerance is in working units already)
            delta = delta * U
            view = {'atype': arr([1, 2, 1, 2]), 'pos': np.array([[x_ * U, R(1, 2) * U, R(1, 3) * U] for x_ in X], dtype=object), 'charge': arr([R(1), R(2), R(3), R(4)])}

            class SysC(SystemM):
                def dvect(self, pos_0, pos_1):      # the parameter names of System.dvect
                    p0, p1 = pos_0, pos_1
                    self.dv_calls.append((p0, p1))
                    return np.atleast_2d(np.asarray(p1, dtype=object)) - np.asarray(p0, dtype=object)

                def dmag(self, pos_0, pos_1):
                    p0, p1 = pos_0, pos_1
                    return np.array([sp.sqrt(sum(c_ ** 2 for c_ in row)) for row in self.dvect(p0, p1)], dtype=object)
            system = SysC(box=BoxM(), pbc=np.array([False, False, False], dtype=object), atoms=AtomsM(view), symbols=('Al', 'Cu'))
            pos = np.array([X[2] * U + delta, R(1, 2) * U, R(1, 3) * U], dtype=object)
            kw = dict(pos=pos)
            if atol is not None:
                kw['atol'] = atol
            if gen == 'interstitial':
                kw.update(atype=2)
            if gen == 'substitutional':
                kw.update(atype=2)          # the atom replaced (the third) is of type 1
            if gen == 'dumbbell':
                kw.update(db_vect=arr([R(1, 10), 0, 0]))
            ev = SymEval(module_aliases(ctx.mod(PT)))

            class UC(PyStub):
                def set_in_units(self, v, u, _U=U):
                    if u != 'angstrom':
                        raise Opaque('set_in_units(%r, %r)' % (v, u))
                    return sp.nsimplify(v) * _U
            ev.globals = {'System': lambda **k: SysC(**k), 'deepcopy': _deep, 'uc': UC()}
            try:
                paths = ev.run_fn(fn, [system], dict(kw))
                res, raised = _outcome(paths)
                outcome = 'refused' if res is None else 'accepted'
            except WouldRaise:
                res, outcome = None, 'refused'
            except Opaque as e:
                raise AnalysisError('%s on concrete positions (%s): %s' % (gen, tag, e))
            n += 1
            if gen == 'interstitial':
                want = 'refused' if near else 'accepted'       # an occupied site is refused
                ok = outcome == want
                what = 'an atom within the tolerance occupies the site: refused' if near else 'no atom within the tolerance: the new atom is accepted'
            elif near is True:
                ok = outcome == 'accepted' and res.natoms == {'vacancy': 3, 'substitutional': 4, 'dumbbell': 5}[gen] and all(not is_zero(sp.sympify(res.atoms.view['charge'][i]) - 3, deep=False) for i in range(min(3, res.natoms))) \
                    if gen != 'substitutional' else (outcome == 'accepted' and res.natoms == 4 and is_zero(sp.sympify(res.atoms.view['charge'][3]) - 3, deep=False))
                want, what = 'accepted', 'the atom within the tolerance (the third one) is the one taken'
            else:
                ok = outcome == 'refused'
                want, what = 'refused', ('no atom within the tolerance: refused' if near is False else 'two atoms within the tolerance: refused')
            ctx.ob('SITE', loc, 'position %s%s: %s' % (tag, '' if U == 1 else ' (lengths in angstrom; working length unit the nanometre)', what), bool(ok), 'the call is %s' % outcome, node=fn,
                   key='tolerance %s %s %s' % (gen, tag[:30], U))
    ctx.floor('SITE/tolerance', n, 32)
    # a cell with a single atom (a primitive cell): System.dvect returns one vector of shape (3,) for one pair, not a (1, 3) table
    for gen, tag, delta, want_n in (('substitutional', 'exactly on the atom', R(0), 1), ('dumbbell', '4e-3 from the atom', R(4, 1000), 2), ('interstitial', '1.5 from the atom', R(3, 2), 2), ('interstitial', '4e-3 from the atom', R(4, 1000), None)):
        fn = ctx.fn(PT, gen)
        view = {'atype': arr([1]), 'pos': np.array([[R(4), R(1, 2), R(1, 3)]], dtype=object), 'charge': arr([R(3)])}

        class Sys1(SystemM):
            def dvect(self, pos_0, pos_1):      # the parameter names of System.dvect
                p0, p1 = pos_0, pos_1
                self.dv_calls.append((p0, p1))
                d_ = np.atleast_2d(np.asarray(p1, dtype=object)) - np.asarray(p0, dtype=object)
                return d_[0] if d_.shape[0] == 1 else d_

            def dmag(self, pos_0, pos_1):
                p0, p1 = pos_0, pos_1
                d_ = np.atleast_2d(self.dvect(p0, p1))
                m_ = np.array([sp.sqrt(sum(c_ ** 2 for c_ in row)) for row in d_], dtype=object)
                return m_[0] if len(m_) == 1 else m_
        system = Sys1(box=BoxM(), pbc=np.array([False, False, False], dtype=object), atoms=AtomsM(view), symbols=('Al', 'Cu'))
        kw = dict(pos=np.array([R(4) + delta, R(1, 2), R(1, 3)], dtype=object))
        if gen in ('interstitial', 'substitutional'):
            kw.update(atype=2)
        if gen == 'dumbbell':
            kw.update(db_vect=arr([R(1, 10), 0, 0]))
        ev = SymEval(module_aliases(ctx.mod(PT)))

        class UC1(PyStub):
            def set_in_units(self, v, u):
                return sp.nsimplify(v)
        ev.globals = {'System': lambda **k: Sys1(**k), 'deepcopy': _deep, 'uc': UC1()}
        why = ''
        try:
            res, raised = _outcome(ev.run_fn(fn, [system], dict(kw)))
            outcome = 'refused' if res is None else 'accepted'
        except WouldRaise as e:
            res, outcome, why = None, 'refused', str(e)
        except Opaque as e:
            raise AnalysisError('%s on a one-atom cell (%s): %s' % (gen, tag, e))
        if want_n is None:
            ok, what = outcome == 'refused' and 'AxisError' not in why and 'axis' not in why, 'the site is occupied: refused (with the documented ValueError)'
        else:
            ok, what = outcome == 'accepted' and res.natoms == want_n, 'accepted, the result has %d atom(s)' % want_n
        ctx.ob('SITE', PT + '::' + gen, 'a cell with a single atom, position %s: %s' % (tag, what), bool(ok), 'the call is %s %s' % (outcome, why[:160]), node=fn, key='one atom %s %s' % (gen, tag[:20]))


def generators(ctx):
    site = 1
    POS = symarray('r', (3,), real=True)       # requested position
    DB = symarray('d', (3,), real=True)
    cart = lambda s: np.asarray(s, dtype=object).dot(V) + O
    n = 0
    for gen in ('vacancy', 'interstitial', 'substitutional', 'dumbbell'):
        loc = PT + '::' + gen
        fn = ctx.fn(PT, gen)
        modes = [('by index', dict(ptd_id=site), None), ('by negative index', dict(ptd_id=site - N), None), ('by Cartesian position', dict(pos=POS), [site]), ('by box-relative position', dict(pos=POS, scale=True), [site])]
        if gen == 'interstitial':
            modes = [('Cartesian position', dict(pos=POS), []), ('box-relative position', dict(pos=POS, scale=True), [])]
        for with_old in (False, True):
            for mode, sel, match in modes:
                n += 1
                tag = '%s%s' % (mode, ', input already has old_id' if with_old else '')
                system = base_system(with_old)
                before = {k: a.copy() for k, a in system.atoms.view.items()}
                kw = dict(sel)
                if gen == 'interstitial':
                    kw.update(atype=2, charge=sp.Symbol('qnew'))
                if gen == 'substitutional':
                    kw.update(atype=1, charge=sp.Symbol('qnew'))
                if gen == 'dumbbell':
                    kw.update(db_vect=DB, charge=sp.Symbol('qnew'))
                try:
                    paths, copies, lookups = run_gen(ctx, gen, system, match or [], kw)
                except WouldRaise as e:
                    ctx.ob('COUNT-ORDER', loc, '%s: the generator runs to completion' % tag, False, str(e), node=fn, key=tag + ' runs')
                    continue
                except Opaque as e:
                    raise AnalysisError('%s (%s): %s' % (gen, tag, e))
                res, raised = _outcome(paths)
                if res is None:
                    ctx.ob('COUNT-ORDER', loc, '%s: a new system is returned' % tag, False, '%d raising paths' % len(raised), node=fn, key=tag + ' returns')
                    continue
                keep = [i for i in range(N) if not (gen != 'interstitial' and i == site)]
                nnew = {'vacancy': 0, 'interstitial': 1, 'substitutional': 1, 'dumbbell': 2}[gen]
                okc = res.natoms == len(keep) + nnew
                # survivors
                oks = okc and all(_same_rows(_rows(res, k)[:len(keep)], [before[k][i] for i in keep]) for k in ('atype', 'pos', 'charge'))
                ctx.ob('COUNT-ORDER', loc, '%s: %d atoms; every other atom keeps type, position, property and relative order; defect atom(s) last' % (tag, len(keep) + nnew), bool(oks),
                       'natoms %s' % res.natoms, node=fn, key=tag + ' survivors')
                # old_id
                oid = [int(x) for x in res.atoms.view.get('old_id', [])] if 'old_id' in res.atoms.view else None
                src = [7, 3, 9, 5] if with_old else list(range(N))
                want = [src[i] for i in keep]
                if gen == 'interstitial':
                    want = want + [max(src) + 1]
                elif gen == 'substitutional':
                    want = want + [src[site]]
                elif gen == 'dumbbell':
                    want = want + [src[site], max(src) + 1]
                ctx.ob('OLD-ID', loc, '%s: old_id %s' % (tag, 'is carried over from the input, new atom = max+1' if with_old else 'records each surviving atom\'s index in the input, new atom = max+1'), oid == want,
                       'got %s expected %s' % (oid, want), node=fn, key=tag + ' old_id')
                # defect atoms
                sitepos = POS if 'pos' in sel and not sel.get('scale') else (cart(POS) if 'pos' in sel else before['pos'][site])
                if gen == 'interstitial':
                    okd = equal(res.atoms.view['pos'][-1], sitepos, deep=False) and int(res.atoms.view['atype'][-1]) == 2 and res.atoms.view['charge'][-1] == sp.Symbol('qnew')
                    ctx.ob('DEFECT-ATOM', loc, '%s: the new atom has the requested position (Cartesian), type and property value' % tag, bool(okd), 'pos %s' % (res.atoms.view['pos'][-1],), node=fn, key=tag + ' atom')
                elif gen == 'substitutional':
                    okd = equal(res.atoms.view['pos'][-1], before['pos'][site], deep=False) and int(res.atoms.view['atype'][-1]) == 1 and res.atoms.view['charge'][-1] == sp.Symbol('qnew')
                    ctx.ob('DEFECT-ATOM', loc, '%s: the substituted atom keeps its position, gets the new type and the given property value' % tag, bool(okd), node=fn, key=tag + ' atom')
                elif gen == 'dumbbell':
                    d = DB.dot(V) if sel.get('scale') else DB
                    okd = equal(res.atoms.view['pos'][-2], before['pos'][site] - d, deep=False) and equal(res.atoms.view['pos'][-1], before['pos'][site] + d, deep=False) \
                        and [int(x) for x in res.atoms.view['atype'][-2:]] == [int(before['atype'][site])] * 2 and res.atoms.view['charge'][-1] == sp.Symbol('qnew') and res.atoms.view['charge'][-2] == before['charge'][site]
                    ctx.ob('DEFECT-ATOM', loc, '%s: the two dumbbell atoms sit at the site -/+ the dumbbell vector (%s), the first keeps the site atom\'s values, the second takes the given ones' % (
                        tag, 'box-relative vector converted with the cell vectors only' if sel.get('scale') else 'Cartesian'), bool(okd),
                        'pos[-2]-site = %s' % ([sp.expand(x) for x in (res.atoms.view['pos'][-2] - before['pos'][site])],), node=fn, key=tag + ' atoms')
                # lookup wiring
                if 'pos' in sel:
                    okl = len(system.dv_calls) == 1 and equal(np.asarray(system.dv_calls[0][0], dtype=object), cart(POS) if sel.get('scale') else POS, deep=False) and system.dv_calls[0][1] is system.atoms.view['pos']
                    ctx.ob('SITE', loc, '%s: the site is searched through the periodic separation between the (Cartesian) position and all atom positions' % tag, bool(okl), node=fn, key=tag + ' lookup')
                # untouched
                oku = all(equal(system.atoms.view[k], before[k], deep=False) for k in before) and list(system.atoms.view) == list(before)
                shared = [k for k in res.atoms.view for k2 in system.atoms.view if np.shares_memory(res.atoms.view[k], system.atoms.view[k2])]
                okc2 = res.atoms is not system.atoms and not shared and isinstance(res.box, BoxM) and res.box is not system.box \
                    and res.pbc is not None and res.pbc is not system.pbc and [bool(x_) for x_ in res.pbc] == [bool(x_) for x_ in system.pbc]
                ctx.ob('UNTOUCHED', loc, '%s: the input system is not written; box, pbc and atoms of the result are copies; symbols are kept' % tag, bool(oku and okc2 and res.symbols == system.symbols), node=fn, key=tag + ' untouched')
    ctx.floor('COUNT-ORDER', n, 28)


def defaults(ctx):
    """new atoms without given values: interstitial type 1 / properties zero; dumbbell and substitutional copy the site atom's values"""
    POS = symarray('r', (3,), real=True)
    DB = symarray('d', (3,), real=True)
    system = base_system()
    before = {k: a.copy() for k, a in system.atoms.view.items()}
    paths, _, _ = run_gen(ctx, 'interstitial', system, [], dict(pos=POS))
    res, _r = _outcome(paths)
    ok = res is not None and int(res.atoms.view['atype'][-1]) == 1 and all(is_zero(sp.sympify(x)) for x in np.ravel(np.asarray(res.atoms.view['charge'][-1], dtype=object)))
    ctx.ob('DEFECT-ATOM', PT + '::interstitial', 'without given values the interstitial has type 1 and zero-valued properties', bool(ok), node=ctx.fn(PT, 'interstitial'), key='defaults interstitial')
    paths, _, _ = run_gen(ctx, 'dumbbell', base_system(), [], dict(ptd_id=2, db_vect=DB))
    res, _r = _outcome(paths)
    ok = res is not None and res.atoms.view['charge'][-1] == before['charge'][2] and int(res.atoms.view['atype'][-1]) == int(before['atype'][2])
    ctx.ob('DEFECT-ATOM', PT + '::dumbbell', 'without given values the second dumbbell atom copies the site atom', bool(ok), node=ctx.fn(PT, 'dumbbell'), key='defaults dumbbell')
    paths, _, _ = run_gen(ctx, 'substitutional', base_system(), [], dict(ptd_id=1, atype=3))
    res, _r = _outcome(paths)
    ok = res is not None and res.atoms.view['charge'][-1] == before['charge'][1] and int(res.atoms.view['atype'][-1]) == 3
    ctx.ob('DEFECT-ATOM', PT + '::substitutional', 'without given values the substituted atom keeps its property values and only changes type', bool(ok), node=ctx.fn(PT, 'substitutional'), key='defaults substitutional')


def refusals(ctx):
    POS = symarray('r', (3,), real=True)
    DB = symarray('d', (3,), real=True)
    cases = []
    for gen in ('vacancy', 'substitutional', 'dumbbell'):
        extra = {'db_vect': DB} if gen == 'dumbbell' else ({'atype': 1} if gen == 'substitutional' else {})
        cases += [(gen, 'no atom at the position', dict(pos=POS, **extra), []), (gen, 'two atoms at the position', dict(pos=POS, **extra), [0, 2]), (gen, 'both pos and ptd_id', dict(pos=POS, ptd_id=1, **extra), [1]),
                  (gen, 'neither pos nor ptd_id', dict(**extra), []), (gen, 'index = natoms', dict(ptd_id=N, **extra), []), (gen, 'index = -natoms-1', dict(ptd_id=-N - 1, **extra), [])]
    cases += [('interstitial', 'site already occupied', dict(pos=POS), [2]), ('interstitial', 'site occupied by two atoms', dict(pos=POS), [1, 2]), ('substitutional', 'atom already of that type', dict(ptd_id=1, atype=2), [])]
    n = 0
    for gen, tag, kw, match in cases:
        n += 1
        fn = ctx.fn(PT, gen)
        try:
            paths, _, _ = run_gen(ctx, gen, base_system(), match, kw)
            res, raised = _outcome(paths)
            ok, det = res is None and bool(raised), 'returned a system' if res is not None else ''
            names = {norm(p.raised.exc.func) if isinstance(p.raised, ast.Raise) and isinstance(p.raised.exc, ast.Call) else '?' for p in raised}
            ok = ok and names <= {'ValueError', 'TypeError'}
        except WouldRaise as e:
            ok, det = False, 'crashes instead of refusing: %s' % e
        except Opaque as e:
            raise AnalysisError('%s (%s): %s' % (gen, tag, e))
        ctx.ob('SITE', PT + '::' + gen, '%s: refused with ValueError' % tag, ok, det, node=fn, key='refuse ' + tag)
    ctx.floor('SITE/refusals', n, 21)
    # accepted boundary indices
    for gen in ('vacancy', 'substitutional', 'dumbbell'):
        extra = {'db_vect': DB} if gen == 'dumbbell' else ({'atype': 3} if gen == 'substitutional' else {})
        for idx in (0, N - 1, -N):
            paths, _, _ = run_gen(ctx, gen, base_system(), [], dict(ptd_id=idx, **extra))
            res, raised = _outcome(paths)
            ctx.ob('SITE', PT + '::' + gen, 'index %d (of %d atoms) is accepted' % (idx, N), res is not None, node=ctx.fn(PT, gen), key='accept %d' % idx)


def dispatch(ctx):
    fn = ctx.fn(PT, 'point')
    loc = PT + '::point'
    POS, DB = symarray('r', (3,)), symarray('d', (3,))
    want = {'v': ('vacancy', dict(pos=POS, ptd_id=None, scale=True, atol='ATOL')), 'i': ('interstitial', dict(pos=POS, scale=True, atol='ATOL', charge='Q', atype=2)),
            's': ('substitutional', dict(pos=None, ptd_id=2, scale=True, atol='ATOL', charge='Q', atype=2)), 'db': ('dumbbell', dict(pos=POS, ptd_id=None, db_vect=DB, scale=True, atol='ATOL', charge='Q'))}
    for t, (gen, kw) in want.items():
        calls = []
        ev = SymEval(module_aliases(ctx.mod(PT)))
        ev.globals = {g: (lambda g: (lambda system, **k: calls.append((g, system, k)) or 'RESULT'))(g) for g in ('vacancy', 'interstitial', 'substitutional', 'dumbbell')}
        args = dict(ptd_type=t, pos=kw.get('pos'), ptd_id=kw.get('ptd_id'), db_vect=kw.get('db_vect'), scale=True, atol='ATOL')
        args.update({k: v for k, v in kw.items() if k in ('charge', 'atype')})
        p = [q for q in ev.run_fn(fn, ['SYSTEM'], args) if q.done == 'return']
        ok = len(p) == 1 and p[0].ret == 'RESULT' and len(calls) == 1 and calls[0][0] == gen and calls[0][1] == 'SYSTEM' and all(
            (calls[0][2].get(k) is v if is_arr(v) else calls[0][2].get(k) == v) for k, v in kw.items())
        ctx.ob('DISPATCH', loc, 'ptd_type=%r calls %s with the system and every parameter it accepts (position/index, scale, atol, per-atom values)' % (t, gen), ok, str(calls)[:200], node=fn, key='forward ' + t)
    for t, bad in (('v', dict(db_vect=DB)), ('v', dict(charge=1)), ('i', dict(ptd_id=1)), ('i', dict(db_vect=DB)), ('s', dict(db_vect=DB)), ('x', {})):
        ev = SymEval(module_aliases(ctx.mod(PT)))
        ev.globals = {g: (lambda system, **k: 'RESULT') for g in ('vacancy', 'interstitial', 'substitutional', 'dumbbell')}
        paths = ev.run_fn(fn, ['SYSTEM'], dict(ptd_type=t, pos=POS, **bad))
        ctx.ob('DISPATCH', loc, 'ptd_type=%r with %s is refused' % (t, sorted(bad) or 'an unknown type'), not [q for q in paths if q.done == 'return'], node=fn, key='refuse %s %s' % (t, sorted(bad)))


def run(ctx):
    ctx.explanation = ('C15: the four point-defect generators and the dispatcher are evaluated by the analyser on a model system (4 atoms, symbolic positions and property values, '
                       'with and without a pre-existing old_id); the site lookup is scripted (no / one / two atoms within tolerance). Result rows, old_id, defect-atom values, refusals and '
                       'the untouched input are compared with the documented behaviour for selection by index, negative index, Cartesian and box-relative position. Not decided: the numerical distance test.')
    # the site lookup by position is the periodic-separation kernel: the candidate set it minimises over follows the three periodicity flags, one flag per direction
    from .c02 import minfold, DV
    ctx.run_rules([generators, site_tolerance, defaults, refusals, dispatch, lambda c: minfold(c, DV, "dvect_c", True)])
