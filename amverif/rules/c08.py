"""C08 Loading what was dumped (LAMMPS data / dump, table, POSCAR).

Decided statically (the readers are evaluated on *model files*: lines are token lists whose numbers are symbols,
data frames carry explicit rows in a chosen file order; nothing is read from disk and atomman is not imported):
 * TABLES-AGREE: writer and reader column tables (Atoms, Velocities, standard dump columns) evaluate to the same
   tables for every atom_style (incl. hybrid, in the requested unit style); the two column resolvers agree.
 * DATA-READ: firstpass on a model data file returns the counts, bounds x length unit, tilts, masses, section
   offsets (index of the section line + 1), column count and style comment; every missing required piece is refused
   with FileFormatError; load() resolves atom_style (argument / comment / 'atomic', conflict refused); read_atoms
   forwards offsets/row count/columns to the table reader, re-applies image flags *by atom id* as flags·vects, and
   refuses other column counts; read_velocities likewise.
 * TABLE-READ: the table reader sorts rows by id when present, reshapes columns to the property shape in C order,
   multiplies by the unit (or converts box-relative -> Cartesian), skips the id property, forwards read options.
 * DUMP-READ: the dump-file reader recovers lo/hi from the bounding box by subtracting exactly what the writer
   adds (round trip is the identity on symbolic cells, orthogonal and tilted), tilt from the third column of the
   x,y,z lines as xy,xz,yz, periodic iff the flag is 'pp' (8 settings), natoms, ATOMS columns -> properties, table
   offset.
 * POSCAR-READ: scale applied to the three lattice lines and to Cartesian (not direct) coordinates, optional symbols
   line, counts -> types 1..n in runs, c/C/k/K = Cartesian.
 * API-COMPAT: pandas/numpy calls of the four readers exist with these keywords in the installed versions.
Declined: that parsed decimals equal printed ones.
"""
import ast
import itertools

import numpy as np
import sympy as sp

from ..core import norm, calls_in, AnalysisError
from ..symx import SymEval, PyStub, Opaque, WouldRaise, module_aliases, symarray, is_zero, equal, arr, is_arr
from .. import apicompat
from ..iomodel import UnitKey, UnitExpr, StyleMod, UC, indexstr, unit_factor, Line, LineFile, Frame, np_array_typed
from .c07 import eval_table, _style_literals, pl_equal, same, API as D_API, VPI as D_VPI, DPI as D_DPI, TPI as D_TPI

LD = 'atomman/load/atom_data/load.py'
L_API = 'atomman/load/atom_data/atoms_prop_info.py'
L_VPI = 'atomman/load/atom_data/velocities_prop_info.py'
LDD = 'atomman/load/atom_dump/load.py'
L_DPI = 'atomman/load/atom_dump/process_prop_info.py'
LT = 'atomman/load/table/load.py'
L_TPI = 'atomman/load/table/process_prop_info.py'
LP = 'atomman/load/poscar/load.py'


class Rec(PyStub):
    """records the keyword arguments a repository constructor was called with"""

    def __init__(self, kind, **kw):
        self.kind, self.kw = kind, kw
        for k, v in kw.items():
            setattr(self, k, v)


def _builtins():
    return {'int': lambda x: x, 'float': lambda x: (x.tokens[0] if isinstance(x, Line) else x)}


def _canon(tab):
    out = []
    for d in tab:
        tn = d.get('table_name')
        out.append((d.get('prop_name'), tuple(tn) if isinstance(tn, (list, tuple)) else tn, repr(d.get('unit')), d.get('shape'), d.get('dtype')))
    return out


# ------------------------------------------------------------------ writer/reader tables agree

def tables_agree(ctx):
    n = 0
    for wrel, rrel, name in ((D_API, L_API, 'atoms_prop_info'), (D_VPI, L_VPI, 'velocities_prop_info')):
        wfn, rfn = ctx.fn(wrel, name), ctx.fn(rrel, name)
        ws, rs = _style_literals(wfn), _style_literals(rfn)
        ctx.ob('TABLES-AGREE', rrel + '::' + name, 'reader and writer dispatch on the same atom styles', sorted(ws) == sorted(rs), 'writer only %s; reader only %s' % (sorted(set(ws) - set(rs)), sorted(set(rs) - set(ws))), node=rfn)
        for st in [s for s in ws if s != 'hybrid' and s in rs] + ['hybrid charge sphere', 'hybrid sphere dipole', 'hybrid charge dipole', 'hybrid sphere peri ellipsoid']:
            n += 1
            try:
                wt, _ = eval_table(ctx, wrel, name, st, 'UQ')
                rt, _ = eval_table(ctx, rrel, name, st, 'UQ')
            except WouldRaise as e:
                ctx.ob('TABLES-AGREE', rrel + '::' + name, '%s: both tables can be built' % st, False, str(e), node=rfn, key=st)
                continue
            except Opaque as e:
                raise AnalysisError('%s(%r): %s' % (name, st, e))
            ok = _canon(wt) == _canon(rt)
            det = ''
            if not ok:
                diff = [(a, b) for a, b in itertools.zip_longest(_canon(wt), _canon(rt)) if a != b]
                det = 'first difference: writer %s / reader %s' % diff[0]
            ctx.ob('TABLES-AGREE', rrel + '::' + name, '%s: the reader\'s column table equals the writer\'s (names, order, components, units from the requested style)' % st, ok, det, node=rfn, key=st)
    ctx.floor('TABLES-AGREE', n, 44)
    # standard dump columns
    outs = []
    for rel in (D_DPI, L_DPI):
        fn = ctx.fn(rel, 'standard_conversions')
        ev = SymEval(module_aliases(ctx.mod(rel)))
        ev.globals = {'style': StyleMod()}
        paths = [p for p in ev.run_fn(fn, ['UQ'], {}) if p.done == 'return']
        ctx.need(len(paths) == 1, '%s::standard_conversions does not reduce to one path' % rel)
        outs.append(_canon(paths[0].ret))
    ctx.ob('TABLES-AGREE', L_DPI + '::standard_conversions', 'reader and writer agree on the %d standard dump columns (names, components, units)' % len(outs[0]), outs[0] == outs[1],
           str([(a, b) for a, b in itertools.zip_longest(*outs) if a != b][:2]), node=ctx.fn(L_DPI, 'standard_conversions'))
    # the column resolvers behave alike on the same request
    from .c07 import resolvers as _res

    class Shim:
        """runs the writer-side resolver obligations against the reader-side files"""
    import amverif.rules.c07 as c07
    saved = (c07.TPI, c07.DPI)
    try:
        c07.TPI, c07.DPI = L_TPI, L_DPI
        c07.resolvers(ctx)
    finally:
        c07.TPI, c07.DPI = saved


# ------------------------------------------------------------------ data file

def _sym(n, **k):
    return sp.Symbol(n, real=True, **k)


def data_model_file(tilt=True, masses=True, comment=True, natoms=True, bounds=('x', 'y', 'z'), atoms=True, types_first=True, velocities=True, ncols=9, legends=False):
    """-> (lines, truth) for a LAMMPS data file with 3 atoms (ids in file order 3,1,2)"""
    L = []
    t = {}
    L.append(Line(['LAMMPS', 'data', 'file'], comment=['written', 'by', 'hand']))
    L.append(Line([]))
    if natoms:
        L.append(Line([sp.Integer(3), 'atoms']))
    if types_first:
        L.append(Line([sp.Integer(2), 'atom', 'types']))
    L.append(Line([]))
    for a in bounds:
        lo, hi = _sym(a + 'lo_t'), _sym(a + 'hi_t')
        t[a + 'lo'], t[a + 'hi'] = lo, hi
        L.append(Line([lo, hi, a + 'lo', a + 'hi'], comment=['bounds']))
    if tilt:
        t['xy'], t['xz'], t['yz'] = _sym('xy_t'), _sym('xz_t'), _sym('yz_t')
        L.append(Line([t['xy'], t['xz'], t['yz'], 'xy', 'xz', 'yz']))
    L.append(Line([]))
    if masses:
        L.append(Line(['Masses']))
        if not types_first:
            L.append(Line([sp.Integer(2), 'atom', 'types']))
        L.append(Line([]))
        t['masses'] = [sp.Symbol('m1', positive=True), sp.Symbol('m2', positive=True)]
        if legends:
            L.append(Line([], comment=['type', 'mass']))          # a whole-line comment ('#' in the first column)
        L.append(Line([sp.Integer(2), t['masses'][1]]))
        L.append(Line([sp.Integer(1), t['masses'][0]], comment=['Al']))
        L.append(Line([]))
    if atoms:
        t['atoms_line'] = len(L)
        L.append(Line(['Atoms'], comment=(['charge'] if comment is True else list(comment)) if comment else None))
        L.append(Line([]))
        if legends:
            L.append(Line([], comment=['id', 'type', 'q', 'x', 'y', 'z']))
        for i in (3, 1, 2):
            L.append(Line([sp.Integer(i), sp.Integer(1), _sym('q%d' % i), _sym('x%d' % i), _sym('y%d' % i), _sym('z%d' % i), sp.Integer(0), sp.Integer(1), sp.Integer(-1)][:ncols]))
        L.append(Line([]))
    if velocities:
        t['vel_line'] = len(L)
        L.append(Line(['Velocities']))
        L.append(Line([]))
        for i in (3, 1, 2):
            L.append(Line([sp.Integer(i), _sym('vx%d' % i), _sym('vy%d' % i), _sym('vz%d' % i)]))
    return L, t


def _ctor_globals(rec):
    def mk(kind):
        def f(*a, **kw):
            r = Rec(kind, **kw)
            rec.append(r)
            return r
        return f
    return {'Box': mk('Box'), 'Atoms': mk('Atoms'), 'System': mk('System')}


def _raise_name(path):
    r = path.raised
    if isinstance(r, ast.Raise) and r.exc is not None:
        return norm(r.exc.func if isinstance(r.exc, ast.Call) else r.exc)
    return 'AssertionError' if isinstance(r, ast.Assert) else None


def data_read(ctx):
    mod = ctx.mod(LD)
    aliases = module_aliases(mod)
    fp = ctx.fn(LD, 'firstpass')
    loc = LD + '::firstpass'
    funcs = {n.name: n for n in mod.body if isinstance(n, ast.FunctionDef)}

    def run_firstpass(lines):
        rec = []
        ev = SymEval(aliases, funcs={'read_mass': funcs['read_mass']} if 'read_mass' in funcs else {})
        ev.globals = dict(_ctor_globals(rec), style=StyleMod(), uc=UC(), uber_open_rmode=lambda d: LineFile(lines), **_builtins())
        paths = ev.run_fn(fp, ['DATA', (True, False, True), ('Al', 'Cu'), 'UQ'], {})
        return paths, rec
    L_ = UnitKey('UQ', 'length').sym
    # --- complete files
    for tag, kw in (('tilted, masses, style comment, velocities, image flags', {}), ('orthogonal, no masses, no comment, no velocities', dict(tilt=False, masses=False, comment=False, velocities=False, ncols=6)),
                    ('tilted, a style comment of several words (hybrid styles are written as "Atoms # hybrid charge")', dict(comment=('hybrid', 'charge'))),
                    ('whole-line comments (a column legend) under the Masses and Atoms headers', dict(legends=True))):
        lines, t = data_model_file(**kw)
        try:
            paths, rec = run_firstpass(lines)
        except WouldRaise as e:
            ctx.ob('DATA-READ', loc, '%s: the first pass runs to completion' % tag, False, str(e), node=fp, key=tag + ' runs')
            continue
        except Opaque as e:
            raise AnalysisError('firstpass (%s): %s' % (tag, e))
        live = [p for p in paths if p.done == 'return']
        ok = len(live) == 1 and isinstance(live[0].ret, tuple) and len(live[0].ret) == 2
        ctx.ob('DATA-READ', loc, '%s: accepted, returns (system, params)' % tag, ok, '%d returning path(s), raised: %s' % (len(live), [_raise_name(p) for p in paths if p.done == 'raise']), node=fp, key=tag + ' accepted')
        if not ok:
            continue
        system, params = live[0].ret
        box = [r for r in rec if r.kind == 'Box']
        want = {k: t[k] * L_ for k in ('xlo', 'xhi', 'ylo', 'yhi', 'zlo', 'zhi')}
        for k in ('xy', 'xz', 'yz'):
            want[k] = t[k] * L_ if k in t else sp.Integer(0)
        okb = len(box) == 1 and set(box[0].kw) >= set(want) and all(is_zero(sp.sympify(box[0].kw[k]) - want[k]) for k in want)
        ctx.ob('DATA-READ', loc, '%s: the cell is built from lo/hi/tilt tokens of the lines with those labels, times the length unit%s' % (tag, '' if 'xy' in t else ' (tilts default to 0)'), okb,
               str({k: str(v) for k, v in (box[0].kw.items() if box else [])})[:300], node=fp, key=tag + ' box')
        at = [r for r in rec if r.kind == 'Atoms']
        sy = [r for r in rec if r.kind == 'System']
        oks = len(at) == 1 and at[0].kw.get('natoms') == 3 and len(sy) == 1 and sy[0].kw.get('box') is (box[0] if box else None) and sy[0].kw.get('atoms') is at[0] \
            and sy[0].kw.get('pbc') == (True, False, True) and sy[0].kw.get('symbols') == ('Al', 'Cu')
        ctx.ob('DATA-READ', loc, '%s: system has the header\'s atom count, that cell, the caller\'s periodicity and symbols' % tag, oks, node=fp, key=tag + ' system')
        m = sy[0].kw.get('masses') if sy else '?'
        okm = (m == t['masses']) if 'masses' in t else (m is None)
        ctx.ob('DATA-READ', loc, '%s: masses are assigned by type number, not by line order' % tag if 'masses' in t else '%s: no Masses section -> no masses' % tag, okm, str(m), node=fp, key=tag + ' masses')
        wantp = {'atomsstart': t['atoms_line'] + 1, 'velocitiesstart': (t['vel_line'] + 1) if 'vel_line' in t else None, 'atomscolumns': kw.get('ncols', 9),
                 'atom_style': ('charge' if kw.get('comment', True) is True else ' '.join(kw['comment'])) if kw.get('comment', True) else None}
        okp = isinstance(params, dict) and all(params.get(k) == v for k, v in wantp.items())
        ctx.ob('DATA-READ', loc, '%s: tables start on the line after their section header; column count from the first atom line; style from the header comment' % tag, okp,
               'got %s expected %s' % ({k: params.get(k) for k in wantp} if isinstance(params, dict) else params, wantp), node=fp, key=tag + ' params')
    # --- refusals
    for tag, kw in (('no "atoms" count', dict(natoms=False)), ('no x bounds', dict(bounds=('y', 'z'))), ('no y bounds', dict(bounds=('x', 'z'))), ('no z bounds', dict(bounds=('x', 'y'))),
                    ('no Atoms section', dict(atoms=False, velocities=False)), ('Masses before "atom types"', dict(types_first=False))):
        lines, t = data_model_file(**kw)
        try:
            paths, rec = run_firstpass(lines)
        except WouldRaise as e:
            # an uncaught error other than the format error (e.g. NameError on an unset bound) is "loaded wrongly / crashed", not the documented refusal
            ctx.ob('DATA-READ', loc, 'file with %s is rejected with FileFormatError' % tag, False, str(e), node=fp, key='refuse ' + tag)
            continue
        except Opaque as e:
            raise AnalysisError('firstpass (%s): %s' % (tag, e))
        names = [_raise_name(p) for p in paths if p.done == 'raise']
        live = [p for p in paths if p.done == 'return']
        ctx.ob('DATA-READ', loc, 'file with %s is rejected with FileFormatError' % tag, not live and names == ['FileFormatError'], 'returning paths %d, raised %s' % (len(live), names), node=fp, key='refuse ' + tag)
    # --- load(): atom_style resolution
    ld = ctx.fn(LD, 'load')
    locl = LD + '::load'
    for tag, arg, found, want in (('argument only', 'full', None, 'full'), ('comment only', None, 'charge', 'charge'), ('neither', None, None, 'atomic'), ('both, equal', 'charge', 'charge', 'charge'),
                                  ('both, different', 'full', 'charge', ValueError)):
        calls = []
        ev = SymEval(aliases)
        sysm = Rec('System')

        def fpass(data, pbc, symbols, units):
            calls.append(('firstpass', data, pbc, symbols, units))
            return sysm, {'atom_style': found, 'atomsstart': 17, 'atomscolumns': 9, 'velocitiesstart': 23}

        def ra(*a):
            calls.append(('read_atoms',) + a)
            return a[1]

        def rv(*a):
            calls.append(('read_velocities',) + a)
            return a[1]
        ev.globals = {'firstpass': fpass, 'read_atoms': ra, 'read_velocities': rv}
        try:
            paths = ev.run_fn(ld, ['DATA'], dict(pbc=(True, True, False), symbols=('A',), atom_style=arg, units='UQ'))
        except Opaque as e:
            raise AnalysisError('load (%s): %s' % (tag, e))
        live = [p for p in paths if p.done == 'return']
        if want is ValueError:
            ctx.ob('DATA-READ', locl, 'atom_style %s: refused with ValueError' % tag, not live and [_raise_name(p) for p in paths if p.done == 'raise'] == ['ValueError'], node=ld, key='style ' + tag)
            continue
        a = [c for c in calls if c[0] == 'read_atoms']
        v = [c for c in calls if c[0] == 'read_velocities']
        f = [c for c in calls if c[0] == 'firstpass']
        ok = len(live) == 1 and len(a) == 1 and len(v) == 1 and a[0][1:] == ('DATA', sysm, want, 'UQ', 17, 9) and v[0][1:] == ('DATA', sysm, want, 'UQ', 23) \
            and f and f[0][1:] == ('DATA', (True, True, False), ('A',), 'UQ') and live[0].ret is sysm
        ctx.ob('DATA-READ', locl, 'atom_style %s -> %r; offsets, column count, units, periodicity and symbols reach the section readers' % (tag, want), ok, str(calls)[:300], node=ld, key='style ' + tag)
    # --- read_atoms: image flags by id
    ra_fn = ctx.fn(LD, 'read_atoms')
    locr = LD + '::read_atoms'
    V = symarray('v', (3, 3), real=True)
    PI = [{'prop_name': 'a_id', 'table_name': 'id'}, {'prop_name': 'atype', 'table_name': 'type'}, {'prop_name': 'pos', 'table_name': ['x', 'y', 'z'], 'unit': UnitKey('UQ', 'length')}]
    ids_file = [3, 1, 2]
    for tag, ncol_file in (('with image flags', 8), ('without image flags', 5), ('one stray column', 6)):
        calls = []
        P = symarray('p', (3, 3), real=True)      # row k = atom with the k-th smallest id (the table reader sorts by id)
        F = {i: [sp.Symbol('f%d%s' % (i, a), integer=True) for a in 'abc'] for i in ids_file}
        box = Rec('Box', vects=V, avect=V[0], bvect=V[1], cvect=V[2])
        atoms = Rec('Atoms', pos=P.copy())
        sysm = Rec('System', box=box, atoms=atoms, natoms=3)

        def amload(style, data, **kw):
            calls.append(('amload', style, data, kw))
            return sysm

        class PD(PyStub):
            def read_csv(self, f, **kw):
                calls.append(('read_csv', f, kw))
                names = kw.get('names')
                use = kw.get('usecols')
                cols = {}
                for nm, c in zip(names, use):
                    cols[nm] = [(sp.Integer(i) if c == 0 else (F[i][c - 5] if 5 <= c < 8 else sp.Symbol('junk'))) for i in ids_file]
                return Frame(cols)
        ev = SymEval(aliases, funcs={'countreadcolumns': funcs['countreadcolumns']} if 'countreadcolumns' in funcs else {})
        ev.globals = {'atoms_prop_info': lambda a, u: (calls.append(('prop_info', a, u)) or [dict(d) for d in PI]), 'amload': amload, 'pd': PD(),
                      'uber_open_rmode': lambda d: LineFile([]), 'list': list, 'range': lambda *a: list(range(*[int(x) for x in a]))}
        try:
            paths = ev.run_fn(ra_fn, ['DATA', sysm, 'AQ', 'UQ', 17, ncol_file], {})
        except WouldRaise as e:
            ctx.ob('DATA-READ', locr, '%s: runs to completion' % tag, False, str(e), node=ra_fn, key='atoms ' + tag)
            continue
        except Opaque as e:
            raise AnalysisError('read_atoms (%s): %s' % (tag, e))
        live = [p for p in paths if p.done == 'return']
        if tag == 'one stray column':
            ctx.ob('DATA-READ', locr, 'an Atoms table with neither N nor N+3 columns is refused with FileFormatError', not live and [_raise_name(p) for p in paths if p.done == 'raise'] == ['FileFormatError'],
                   node=ra_fn, key='atoms ' + tag)
            continue
        am = [c for c in calls if c[0] == 'amload']
        ok = len(live) == 1 and len(am) == 1 and am[0][1] == 'table' and am[0][2] == 'DATA'
        if ok:
            k = am[0][3]
            ok = k.get('skiprows') == 17 and k.get('nrows') == 3 and list(k.get('usecols')) == [0, 1, 2, 3, 4] and k.get('comment') == '#' and k.get('header') is None \
                and k.get('box') is box and k.get('system') is sysm and [d['prop_name'] for d in k.get('prop_info', [])] == ['a_id', 'atype', 'pos'] and ('prop_info', 'AQ', 'UQ') in calls
        ctx.ob('DATA-READ', locr, '%s: the table reader gets the section offset, natoms rows, the style\'s own columns (requested style/units), comments stripped' % tag, ok, str(am)[:300], node=ra_fn, key='atoms table ' + tag)
        pos = sysm.atoms.pos
        if tag == 'with image flags':
            rc = [c for c in calls if c[0] == 'read_csv']
            okc = len(rc) == 1 and rc[0][2].get('skiprows') == 17 and rc[0][2].get('nrows') == 3 and list(rc[0][2].get('usecols')) == [0, 5, 6, 7] and rc[0][2].get('comment') == '#'
            ctx.ob('DATA-READ', locr, 'image flags are read from the id column and the three columns after the style\'s own, same rows', okc, str(rc)[:300], node=ra_fn, key='flags read')
            want = np.array([[P[k, j] + sum(F[i][m] * V[m, j] for m in range(3)) for j in range(3)] for k, i in enumerate(sorted(ids_file))], dtype=object)
            ctx.ob('DATA-READ', locr, 'each atom is shifted by its own flags·(cell vectors), whatever the order of the atom lines (file order 3,1,2)', equal(pos, want, deep=False),
                   'row 0 shift: %s' % (sp.expand(pos[0, 0] - P[0, 0]),), node=ra_fn, key='flags by id')
        else:
            ctx.ob('DATA-READ', locr, 'without flag columns positions are left as read', equal(pos, P, deep=False) and not [c for c in calls if c[0] == 'read_csv'], node=ra_fn, key='no flags')
    # --- read_velocities
    rv_fn = ctx.fn(LD, 'read_velocities')
    for start in (23, None):
        calls = []
        sysm = Rec('System', box=Rec('Box'), natoms=3)
        ev = SymEval(aliases)
        ev.globals = {'velocities_prop_info': lambda a, u: (calls.append(('prop_info', a, u)) or ['VPI']), 'amload': lambda style, data, **kw: (calls.append(('amload', style, data, kw)) or sysm)}
        paths = ev.run_fn(rv_fn, ['DATA', sysm, 'AQ', 'UQ', start], {})
        live = [p for p in paths if p.done == 'return']
        am = [c for c in calls if c[0] == 'amload']
        if start is None:
            ctx.ob('DATA-READ', LD + '::read_velocities', 'no Velocities section: nothing is read', len(live) == 1 and not am and live[0].ret is sysm, node=rv_fn, key='vel none')
        else:
            ok = len(live) == 1 and len(am) == 1 and am[0][1] == 'table' and am[0][3].get('skiprows') == 23 and am[0][3].get('nrows') == 3 and am[0][3].get('prop_info') == ['VPI'] \
                and am[0][3].get('system') is sysm and am[0][3].get('comment') == '#' and am[0][3].get('header') is None and ('prop_info', 'AQ', 'UQ') in calls
            ctx.ob('DATA-READ', LD + '::read_velocities', 'Velocities are read into the same system from their offset, natoms rows, the style\'s velocity columns', ok, str(am)[:300], node=rv_fn, key='vel')


# ------------------------------------------------------------------ table reader

def table_read(ctx):
    fn = ctx.fn(LT, 'load')
    loc = LT + '::load'
    aliases = module_aliases(ctx.mod(LT))
    ids_file = [3, 1, 2]
    UL = UnitKey('UQ', 'length')
    for tag, with_id, scaled, given_system in (('ids in file order 3,1,2', True, False, True), ('no id column', False, False, False), ('box-relative positions', True, True, True)):
        calls = []
        PI = ([{'prop_name': 'a_id', 'table_name': ['id'], 'shape': (), 'unit': None, 'dtype': None}] if with_id else []) + [
            {'prop_name': 'atype', 'table_name': ['type'], 'shape': (), 'unit': None, 'dtype': 'int'},
            {'prop_name': 'pos', 'table_name': ['x', 'y', 'z'], 'shape': (3,), 'unit': 'scaled' if scaled else UL, 'dtype': None},
            {'prop_name': 'stress', 'table_name': ['s0', 's1', 's2', 's3'], 'shape': (2, 2), 'unit': UnitKey('UQ', 'pressure'), 'dtype': None}]

        class PD(PyStub):
            def read_csv(self, f, **kw):
                calls.append(('read_csv', f, kw))
                names = kw.get('names')
                return Frame({nm: [(sp.Integer(i) if nm == 'id' else sp.Symbol('%s_%d' % (nm, i), real=True)) for i in ids_file] for nm in names})

        class BoxM(PyStub):
            vects = symarray('bv', (3, 3), real=True)        # available to a reader that converts by hand: the result is then compared with the cell's own conversion
            origin = symarray('bo', (3,), real=True)

            def position_relative_to_cartesian(self, v):
                calls.append(('rel2cart', v))
                return np.array([[sp.Function('cart')(*row, sp.Integer(j)) for j in range(3)] for row in np.asarray(v, dtype=object)], dtype=object)
        view = {}
        box = BoxM()
        sysm = Rec('System', box=box, atoms=Rec('Atoms', view=view))
        made = []

        def mkSystem(**kw):
            s = Rec('System', box=kw.get('box'), atoms=kw.get('atoms'))
            made.append(kw)
            return s
        ev = SymEval(aliases)
        ev.globals = {'pd': PD(), 'uc': UC(), 'process_prop_info': lambda **kw: [dict(d) for d in kw['prop_info']], 'uber_open_rmode': lambda d: LineFile([]),
                      'System': mkSystem, 'Atoms': lambda **kw: Rec('Atoms', view=view, **kw), 'len': len}
        kw = dict(prop_info=PI, skiprows=7, nrows=3, comment='#', header=None, usecols=[0, 1, 2], symbols=('Al',))
        kw['system'] = sysm if given_system else None
        kw['box'] = box
        try:
            paths = ev.run_fn(fn, ['TABLE'], kw)
        except WouldRaise as e:
            ctx.ob('TABLE-READ', loc, '%s: the reader runs to completion' % tag, False, str(e), node=fn, key=tag + ' runs')
            continue
        except Opaque as e:
            raise AnalysisError('table.load (%s): %s' % (tag, e))
        live = [p for p in paths if p.done == 'return']
        ctx.need(len(live) == 1, 'table.load does not reduce to one path (%s)' % tag)
        order = sorted(ids_file) if with_id else ids_file
        rc = [c for c in calls if c[0] == 'read_csv']
        names = (['id'] if with_id else []) + ['type', 'x', 'y', 'z', 's0', 's1', 's2', 's3']
        ok = len(rc) == 1 and rc[0][2].get('names') == names and rc[0][2].get('skiprows') == 7 and rc[0][2].get('nrows') == 3 and rc[0][2].get('comment') == '#' and rc[0][2].get('header') is None \
            and rc[0][2].get('usecols') == [0, 1, 2] and rc[0][2].get('sep') in (r'\s+',) or (len(rc) == 1 and rc[0][2].get('delim_whitespace') is True)
        ctx.ob('TABLE-READ', loc, '%s: one whitespace-separated read with the columns named in table order and the caller\'s offset/rows/comment/header/usecols' % tag, ok, str(rc)[:300], node=fn, key=tag + ' read')
        bad = []
        if 'a_id' in view:
            bad.append('the id column is stored as a property')
        t = view.get('atype')
        if t is None or np.shape(t) != (3,) or [str(x) for x in t] != ['type_%d' % i for i in order]:
            bad.append('atype rows %s' % (None if t is None else [str(x) for x in np.ravel(t)]))
        pz = view.get('pos')
        if pz is None or np.shape(pz) != (3, 3):
            bad.append('pos shape %s' % (None if pz is None else np.shape(pz),))
        else:
            for k, i in enumerate(order):
                raw = [sp.Symbol('%s_%d' % (c, i), real=True) for c in 'xyz']
                if scaled:
                    want = [sp.Function('cart')(*raw, sp.Integer(j)) for j in range(3)]
                else:
                    want = [r * UL.sym for r in raw]
                if not all(is_zero(a - b) for a, b in zip(pz[k], want)):
                    bad.append('pos row %d is %s' % (k, [str(x) for x in pz[k]]))
        sg = view.get('stress')
        if sg is None or np.shape(sg) != (3, 2, 2):
            bad.append('stress shape %s' % (None if sg is None else np.shape(sg),))
        else:
            fpu = unit_factor(UnitKey('UQ', 'pressure'))
            for k, i in enumerate(order):
                want = [[sp.Symbol('s%d_%d' % (2 * a + b, i), real=True) * fpu for b in range(2)] for a in range(2)]
                if not equal(sg[k], np.array(want, dtype=object), deep=False):
                    bad.append('stress row %d is %s' % (k, sg[k].tolist()))
        ctx.ob('TABLE-READ', loc, '%s: rows %s; columns reshaped to the property shape in C order; values x unit (%s); the id is not stored' % (
            tag, 'sorted by id' if with_id else 'kept in file order', 'box-relative -> Cartesian through the box' if scaled else 'length / pressure'), not bad, '; '.join(bad)[:400], node=fn, key=tag + ' values')
        if not given_system:
            ok = len(made) == 1 and made[0].get('box') is box and isinstance(made[0].get('atoms'), Rec) and made[0]['atoms'].kw.get('natoms') == 3
            ctx.ob('TABLE-READ', loc, '%s: a new system gets one atom per table row and the given box' % tag, ok, str(made)[:200], node=fn, key=tag + ' new system')
        s = live[0].ret
        ctx.ob('TABLE-READ', loc, '%s: symbols given by the caller are assigned' % tag, isinstance(s, Rec) and getattr(s, 'symbols', None) == ('Al',), node=fn, key=tag + ' symbols')


# ------------------------------------------------------------------ dump file

def dump_read(ctx):
    mod = ctx.mod(LDD)
    fn = ctx.fn(LDD, 'load')
    loc = LDD + '::load'
    aliases = module_aliases(mod)
    funcs = {n.name: n for n in mod.body if isinstance(n, ast.FunctionDef)}
    pmod = ctx.mod(L_DPI)
    pfuncs = {n.name: n for n in pmod.body if isinstance(n, ast.FunctionDef)}
    L_ = UnitKey('UQ', 'length').sym
    n = 0
    scen = [dict(pbc=pbc, tilt=True) for pbc in itertools.product((False, True), repeat=3)] + [dict(pbc=(True, False, True), tilt=False), dict(pbc=(True, True, True), tilt=True, cols=['id', 'type', 'xs', 'ys', 'zs', 'vx', 'vy', 'vz', 'c_pe'])]
    for sc in scen:
        n += 1
        tag = 'pbc=%s %s%s' % (''.join('p' if x else 'f' for x in sc['pbc']), 'tilted' if sc['tilt'] else 'orthogonal', ' cols=' + ' '.join(sc['cols']) if 'cols' in sc else '')
        xlo, xhi, ylo, yhi, zlo, zhi = [_sym(a) for a in ('xlo', 'xhi', 'ylo', 'yhi', 'zlo', 'zhi')]
        xy, xz, yz = (_sym('xy', nonzero=True), _sym('xz', nonzero=True), _sym('yz', nonzero=True)) if sc['tilt'] else (sp.Integer(0),) * 3
        z = sp.Integer(0)
        # what the writer prints (LAMMPS dump documentation; C07 decides the writer does)
        W = [(xlo + sp.Min(z, xy, xz, xy + xz)) / L_, (xhi + sp.Max(z, xy, xz, xy + xz)) / L_, (ylo + sp.Min(z, yz)) / L_, (yhi + sp.Max(z, yz)) / L_, zlo / L_, zhi / L_]
        cols = sc.get('cols', ['id', 'type', 'x', 'y', 'z'])
        lines = [Line(['ITEM:', 'TIMESTEP']), Line([sp.Integer(100)]), Line(['ITEM:', 'NUMBER', 'OF', 'ATOMS']), Line([sp.Integer(3)]),
                 Line(['ITEM:', 'BOX', 'BOUNDS'] + (['xy', 'xz', 'yz'] if sc['tilt'] else []) + ['pp' if x else 'fm' for x in sc['pbc']]),
                 Line([W[0], W[1]] + ([xy / L_] if sc['tilt'] else [])), Line([W[2], W[3]] + ([xz / L_] if sc['tilt'] else [])), Line([W[4], W[5]] + ([yz / L_] if sc['tilt'] else [])),
                 Line(['ITEM:', 'ATOMS'] + cols)] + [Line([sp.Integer(i)] + [_sym('c%d_%d' % (k, i)) for k in range(len(cols) - 1)]) for i in (3, 1, 2)]
        rec, calls = [], []
        ev = SymEval(aliases, funcs={k: v for k, v in funcs.items() if k in ('matchprops',)})
        ev2funcs = {k: v for k, v in pfuncs.items()}
        sm = StyleMod()

        def amload(style, data, **kw):
            calls.append((style, data, kw))
            return kw.get('system')
        # the column resolver is the reader's own (inlined); its imports are modelled
        ev.funcs.update(ev2funcs)
        ev.globals = dict(_ctor_globals(rec), style=sm, uc=UC(), uber_open_rmode=lambda d: LineFile(lines), amload=amload, indexstr=indexstr, OrderedDict=dict,
                          deepcopy=lambda x: [dict(d) for d in x], **_builtins())
        try:
            paths = ev.run_fn(fn, ['DUMP'], dict(lammps_units='UQ', symbols=('Al',)))
        except WouldRaise as e:
            ctx.ob('DUMP-READ', loc, '%s: the reader runs to completion' % tag, False, str(e), node=fn, key=tag + ' runs')
            continue
        except Opaque as e:
            raise AnalysisError('atom_dump.load (%s): %s' % (tag, e))
        live = [p for p in paths if p.done == 'return']
        ctx.need(len(live) == 1, 'atom_dump.load does not reduce to one path (%s)' % tag)
        box = [r for r in rec if r.kind == 'Box']
        want = dict(xlo=xlo, xhi=xhi, ylo=ylo, yhi=yhi, zlo=zlo, zhi=zhi, xy=xy, xz=xz, yz=yz)
        tl = [s for s in (xy, xz, yz) if isinstance(s, sp.Symbol)]
        okb = len(box) == 1 and set(box[0].kw) >= set(want)
        badk = [k for k in want if okb and not pl_equal(box[0].kw[k], want[k], tl)]
        ctx.ob('DUMP-READ', loc, '%s: reading the writer\'s bounding box returns the cell that was written (lo/hi recovered, tilts in xy,xz,yz order, length unit re-applied)' % tag, okb and not badk,
               'differs in %s: %s' % (badk, [str(box[0].kw[k])[:80] for k in badk[:2]]) if okb else 'Box built %d time(s)' % len(box), node=fn, key=tag + ' box')
        sy = [r for r in rec if r.kind == 'System']
        at = [r for r in rec if r.kind == 'Atoms']
        okp = len(sy) == 1 and list(sy[0].kw.get('pbc') or []) == list(sc['pbc']) and len(at) == 1 and at[0].kw.get('natoms') == 3
        ctx.ob('DUMP-READ', loc, '%s: a direction is periodic iff its flag is pp; atom count from the NUMBER OF ATOMS item' % tag, okp, str(sy[0].kw.get('pbc') if sy else None), node=fn, key=tag + ' pbc')
        ok = len(calls) == 1 and calls[0][0] == 'table' and calls[0][1] == 'DUMP' and calls[0][2].get('skiprows') == 9 and calls[0][2].get('nrows') == 3 and calls[0][2].get('symbols') == ('Al',)
        pi = calls[0][2].get('prop_info') if calls else None
        got = None
        if ok and 'cols' not in sc:
            got = [(d['prop_name'], d['table_name'], d['unit']) for d in pi]
            ok = got == [('atom_id', ['id'], None), ('atype', ['type'], None), ('pos', ['x', 'y', 'z'], UnitKey('UQ', 'length'))]
        elif ok:
            got = [(d['prop_name'], d['table_name'], d['unit']) for d in pi]
            ok = got == [('atom_id', ['id'], None), ('atype', ['type'], None), ('pos', ['xs', 'ys', 'zs'], 'scaled'), ('velocity', ['vx', 'vy', 'vz'], UnitKey('UQ', 'velocity')), ('c_pe', ['c_pe'], None)]
        ctx.ob('DUMP-READ', loc, '%s: the table after the ATOMS item is read (natoms rows) with its columns matched to properties%s' % (tag, ': scaled columns become box-relative positions, unknown names pass through' if 'cols' in sc else ''),
               ok, str(got if calls and pi else calls)[:300], node=fn, key=tag + ' table')
    ctx.floor('DUMP-READ', n, 10)


# ------------------------------------------------------------------ open streams

class _Stream(PyStub):
    """an open binary file-like object with a read position: 0 at the start, 'end' once something has read it through; uber_open_rmode hands it through as it is (not
    re-opened, not closed), so whoever reads it a second time has to rewind it first"""
    _isa = ('IOBase', 'BufferedIOBase', 'RawIOBase', 'BufferedReader', 'BytesIO')

    def __init__(self, lines=(), at=0):
        self.lines, self.at, self.log = list(lines), at, []

    def __enter__(self):
        return self

    def __exit__(self, *a):
        return False

    def seek(self, k, whence=0):
        if whence != 0 or sp.sympify(k) != 0:
            raise Opaque('seek(%s, %s) on the model stream' % (k, whence))
        self.at = 0
        return 0

    def tell(self):
        if self.at != 0:
            raise Opaque('tell() on a consumed model stream')
        return 0

    def seekable(self):
        return True

    def consume(self, who):
        """a reader that reads from the current position to the end"""
        self.log.append((who, self.at))
        rest = list(self.lines) if self.at == 0 else []
        self.at = 'end'
        return rest

    def __iter__(self):
        return iter(self.consume('iteration'))

    def readlines(self):
        return self.consume('readlines')

    def read(self):
        raise Opaque('read() on the model stream')


def streams(ctx):
    """"text given as string, path or open stream": the LAMMPS data-file and dump-file readers go over their source more than once (a scan for the section offsets,
    then the table reader per section, then the image-flag columns).  A name or a text is opened afresh by every pass; an open file-like object is handed through as it
    is, so every pass after the first must find it at its start again."""
    aliases = module_aliases(ctx.mod(LD))
    funcs = {n.name: n for n in ctx.mod(LD).body if isinstance(n, ast.FunctionDef)}
    V = symarray('v', (3, 3), real=True)
    PI = [{'prop_name': 'a_id', 'table_name': 'id'}, {'prop_name': 'atype', 'table_name': 'type'}, {'prop_name': 'pos', 'table_name': ['x', 'y', 'z'], 'unit': UnitKey('UQ', 'length')}]
    # --- read_atoms (with image flags) and read_velocities on a stream the first pass has read through
    ra_fn = ctx.fn(LD, 'read_atoms')
    stream = _Stream(at='end')
    P = symarray('p', (3, 3), real=True)
    sysm = Rec('System', box=Rec('Box', vects=V, avect=V[0], bvect=V[1], cvect=V[2]), atoms=Rec('Atoms', pos=P.copy()), natoms=3)

    def amload(style, data, **kw):
        if isinstance(data, _Stream):
            data.consume('table reader')
        return sysm

    class PD(PyStub):
        def read_csv(self, f, **kw):
            if isinstance(f, _Stream):
                f.consume('image-flag reader')
            return Frame({nm: [sp.Integer(i + 1) if nm == 'id' else sp.Integer(0) for i in range(3)] for nm in kw.get('names')})
    ev = SymEval(aliases, funcs={'countreadcolumns': funcs['countreadcolumns']} if 'countreadcolumns' in funcs else {})
    ev.globals = {'atoms_prop_info': lambda a, u: [dict(d) for d in PI], 'amload': amload, 'pd': PD(), 'uber_open_rmode': lambda d: d, 'list': list, 'range': lambda *a: list(range(*[int(x) for x in a]))}
    try:
        live = [q for q in ev.run_fn(ra_fn, [stream, sysm, 'AQ', 'UQ', 17, 8], {}) if q.done == 'return']
    except WouldRaise as e:
        live, stream.log = [], stream.log + [('raises: %s' % e, None)]
    except Opaque as e:
        raise AnalysisError('read_atoms on an open stream: %s' % e)
    ctx.ob('STREAMS', LD + '::read_atoms', 'an open file-like object the first pass has read through: the table reader and then the image-flag reader each find it at its start', len(live) == 1 and stream.log == [('table reader', 0), ('image-flag reader', 0)],
           'positions found: %s' % (stream.log,), node=ra_fn, key='stream atoms')
    rv_fn = ctx.fn(LD, 'read_velocities')
    stream = _Stream(at='end')
    ev = SymEval(aliases)
    ev.globals = {'velocities_prop_info': lambda a, u: ['VPI'], 'amload': amload}
    try:
        live = [q for q in ev.run_fn(rv_fn, [stream, sysm, 'AQ', 'UQ', 23], {}) if q.done == 'return']
    except Opaque as e:
        raise AnalysisError('read_velocities on an open stream: %s' % e)
    ctx.ob('STREAMS', LD + '::read_velocities', 'an open file-like object read through by the earlier passes: the table reader of the Velocities section finds it at its start', len(live) == 1 and stream.log == [('table reader', 0)],
           'positions found: %s' % (stream.log,), node=rv_fn, key='stream velocities')
    # a name is passed on as it is (nothing to rewind, nothing refused)
    ev = SymEval(aliases)
    seen = []
    ev.globals = {'velocities_prop_info': lambda a, u: ['VPI'], 'amload': lambda style, data, **kw: (seen.append(data) or sysm)}
    live = [q for q in ev.run_fn(rv_fn, ['file.dat', sysm, 'AQ', 'UQ', 23], {}) if q.done == 'return']
    ctx.ob('STREAMS', LD + '::read_velocities', 'a file name is handed to the table reader as it is', len(live) == 1 and seen == ['file.dat'], str(seen), node=rv_fn, key='name velocities')
    # --- the dump-file reader: header scan, then the table reader
    dfn = ctx.fn(LDD, 'load')
    dmod = ctx.mod(LDD)
    dfuncs = {n.name: n for n in dmod.body if isinstance(n, ast.FunctionDef)}
    pfuncs = {n.name: n for n in ctx.mod(L_DPI).body if isinstance(n, ast.FunctionDef)}
    L_ = UnitKey('UQ', 'length').sym
    b = [_sym(a) for a in ('xlo', 'xhi', 'ylo', 'yhi', 'zlo', 'zhi')]
    cols = ['id', 'type', 'x', 'y', 'z']
    lines = [Line(['ITEM:', 'TIMESTEP']), Line([sp.Integer(100)]), Line(['ITEM:', 'NUMBER', 'OF', 'ATOMS']), Line([sp.Integer(3)]), Line(['ITEM:', 'BOX', 'BOUNDS', 'pp', 'pp', 'pp']),
             Line([b[0] / L_, b[1] / L_]), Line([b[2] / L_, b[3] / L_]), Line([b[4] / L_, b[5] / L_]), Line(['ITEM:', 'ATOMS'] + cols)] + [Line([sp.Integer(i)] + [_sym('c%d_%d' % (k, i)) for k in range(4)]) for i in (3, 1, 2)]
    stream = _Stream(lines)
    rec = []
    ev = SymEval(module_aliases(dmod), funcs={k: v for k, v in dfuncs.items() if k in ('matchprops',)})
    ev.funcs.update(pfuncs)

    def amload2(style, data, **kw):
        if isinstance(data, _Stream):
            data.consume('table reader')
        return kw.get('system')
    ev.globals = dict(_ctor_globals(rec), style=StyleMod(), uc=UC(), uber_open_rmode=lambda d: d, amload=amload2, indexstr=indexstr, OrderedDict=dict, deepcopy=lambda x: [dict(d) for d in x], **_builtins())
    try:
        live = [q for q in ev.run_fn(dfn, [stream], dict(lammps_units='UQ', symbols=('Al',))) if q.done == 'return']
    except WouldRaise as e:
        live, stream.log = [], stream.log + [('raises: %s' % e, None)]
    except Opaque as e:
        raise AnalysisError('atom_dump.load on an open stream: %s' % e)
    ctx.ob('STREAMS', LDD + '::load', 'an open file-like object: the header scan reads it from where it stands, the table reader then finds it at its start again', len(live) == 1 and stream.log == [('iteration', 0), ('table reader', 0)],
           'positions found: %s' % (stream.log,), node=dfn, key='stream dump')
    ctx.floor('STREAMS', 4, 4)


# ------------------------------------------------------------------ POSCAR

def _given_vects(kw):
    """the cell a POSCAR reader builds: from three vectors or from the 3x3 array of them; an origin, if given, must be zero (a POSCAR has none)"""
    if 'origin' in kw and not all(sp.sympify(x) == 0 for x in np.ravel(np.asarray(kw['origin'], dtype=object))):
        return None
    if all(k in kw for k in ('avect', 'bvect', 'cvect')) and set(kw) <= {'avect', 'bvect', 'cvect', 'origin'}:
        return np.array([np.asarray(kw[k], dtype=object) for k in ('avect', 'bvect', 'cvect')], dtype=object)
    if 'vects' in kw and set(kw) <= {'vects', 'origin'}:
        return np.asarray(kw['vects'], dtype=object)
    return None


def poscar_read(ctx):
    fn = ctx.fn(LP, 'load')
    loc = LP + '::load'
    aliases = module_aliases(ctx.mod(LP))
    n = 0
    for tag, symbols_line, style, counts in (('symbols line, direct', ['Al', 'Cu'], 'direct', [2, 1]), ('no symbols line, Cartesian', None, 'Cartesian', [1, 2]), ('symbols line, kartesisch', ['Fe'], 'k', [3]),
                                             ('no symbols, Direct, empty middle type', None, 'Direct', [1, 0, 2])):
        n += 1
        sc = sp.Symbol('sc', positive=True)
        LV = symarray('l', (3, 3), real=True)
        nat = sum(counts)
        C = symarray('c', (nat, 3), real=True)
        lines = [Line(['header', 'text']), Line([sc])] + [Line(list(LV[i])) for i in range(3)]
        if symbols_line:
            lines.append(Line(list(symbols_line)))
        lines.append(Line([sp.Integer(c) for c in counts]))
        lines.append(Line([style]))
        lines += [Line(list(C[i])) for i in range(nat)]
        rec = []
        ev = SymEval(aliases)
        ev.np_override = {'numpy.array': np_array_typed}
        ev.globals = dict(_ctor_globals(rec), uber_open_rmode=lambda d: LineFile(lines), **_builtins())
        try:
            paths = ev.run_fn(fn, ['POSCAR'], {})
        except WouldRaise as e:
            ctx.ob('POSCAR-READ', loc, '%s: the reader runs to completion' % tag, False, str(e), node=fn, key=tag + ' runs')
            continue
        except Opaque as e:
            raise AnalysisError('poscar.load (%s): %s' % (tag, e))
        live = [p for p in paths if p.done == 'return']
        ctx.need(len(live) == 1, 'poscar.load does not reduce to one path (%s)' % tag)
        box = [r for r in rec if r.kind == 'Box']
        gv = _given_vects(box[0].kw) if len(box) == 1 else None
        okb = gv is not None and np.shape(gv) == (3, 3) and equal(gv, LV * sc, deep=False)
        ctx.ob('POSCAR-READ', loc, '%s: lattice vectors are lines 3-5 times the scale factor of line 2' % tag, okb, node=fn, key=tag + ' lattice')
        at = [r for r in rec if r.kind == 'Atoms']
        sy = [r for r in rec if r.kind == 'System']
        cart = style[0] in 'cCkK'
        prop = at[0].kw.get('prop') if at else None
        wt = [t + 1 for t, c in enumerate(counts) for _ in range(c)]
        oka = isinstance(prop, dict) and 'atype' in prop and [int(x) for x in np.ravel(prop['atype'])] == wt
        ctx.ob('POSCAR-READ', loc, '%s: the counts line gives atom types 1..n in consecutive runs' % tag, bool(oka), str(None if not isinstance(prop, dict) else np.ravel(prop.get('atype', [])).tolist()), node=fn, key=tag + ' types')
        okp = isinstance(prop, dict) and 'pos' in prop and np.shape(prop['pos']) == (nat, 3) and equal(prop['pos'], C * sc if cart else C, deep=False)
        ctx.ob('POSCAR-READ', loc, '%s: coordinates are %s' % (tag, 'multiplied by the scale factor (Cartesian mode)' if cart else 'taken as box-relative, unscaled (direct mode)'), bool(okp), node=fn, key=tag + ' coordinates')
        oks = len(sy) == 1 and sy[0].kw.get('scale') is (not cart) and sy[0].kw.get('atoms') is (at[0] if at else None) and sy[0].kw.get('box') is (box[0] if box else None)
        ctx.ob('POSCAR-READ', loc, '%s: the system is built in %s mode from that box and those atoms' % (tag, 'absolute' if cart else 'box-relative'), oks, str(sy[0].kw.get('scale') if sy else None), node=fn, key=tag + ' system')
        wsym = list(symbols_line) if symbols_line else [None] * len(counts)
        ctx.ob('POSCAR-READ', loc, '%s: symbols are the optional sixth line (one None per type otherwise)' % tag, len(sy) == 1 and list(sy[0].kw.get('symbols') or []) == wsym, str(sy[0].kw.get('symbols') if sy else None), node=fn, key=tag + ' symbols')
    ctx.floor('POSCAR-READ', n, 4)


def poscar_roundtrip(ctx):
    """writer (dump/poscar) composed with reader (load/poscar) on model systems: what is read back is the system, atoms grouped by type"""
    from . import c07
    from ..iomodel import text_to_lines
    from ..symx import NP_FUNCS
    wfn = ctx.fn(c07.PD, 'dump')
    rfn = ctx.fn(LP, 'load')
    loc = LP + '::load'
    n = 0
    for tag, atype, natypes, symbols, style in (('direct, two types mixed order', [2, 1, 2, 1, 1], 2, ('Al', 'Cu'), 'direct'), ('Cartesian, scale factor, no symbols', [1, 2, 2], 2, (None, None), 'Cartesian'),
                                                ('direct, middle type unused', [3, 1, 3, 1], 3, ('Al', 'Cu', 'Ni'), 'Direct'), ('cartesian, lowest type unused, no symbols', [2, 3, 3], 3, (None, None, None), 'cartesian')):
        n += 1
        system = c07.PoscarSys(atype, natypes, symbols)
        sc = sp.Symbol('scale', positive=True)
        ev = SymEval(module_aliases(ctx.mod(c07.PD)))
        ev.text_mode = True
        ev.np_override = {'numpy.unique': c07._np_unique}
        try:
            paths = [p for p in ev.run_fn(wfn, [system], dict(header='HDR', coordstyle=style, box_scale=sc, float_format=c07.FF)) if p.done == 'return']
            ctx.need(len(paths) == 1, 'poscar.dump does not reduce to one path (%s)' % tag)
            lines = text_to_lines(paths[0].ret, c07.render)
        except WouldRaise as e:
            ctx.ob('POSCAR-ROUNDTRIP', loc, '%s: the writer runs to completion' % tag, False, str(e), node=wfn, key=tag + ' writes')
            continue
        except Opaque as e:
            raise AnalysisError('poscar round trip (%s), writer: %s' % (tag, e))
        rec = []
        ev2 = SymEval(module_aliases(ctx.mod(LP)))
        ev2.np_override = {'numpy.array': np_array_typed}
        ev2.globals = dict(_ctor_globals(rec), uber_open_rmode=lambda d: LineFile(lines), **_builtins())
        try:
            paths = [p for p in ev2.run_fn(rfn, ['POSCAR'], {}) if p.done == 'return']
        except WouldRaise as e:
            ctx.ob('POSCAR-ROUNDTRIP', loc, '%s: the reader accepts what the writer wrote' % tag, False, str(e), node=rfn, key=tag + ' reads')
            continue
        except Opaque as e:
            raise AnalysisError('poscar round trip (%s), reader: %s' % (tag, e))
        ctx.need(len(paths) == 1, 'poscar.load does not reduce to one path (%s)' % tag)
        box = [r for r in rec if r.kind == 'Box']
        at = [r for r in rec if r.kind == 'Atoms']
        sy = [r for r in rec if r.kind == 'System']
        V = system.box.vects
        gv2 = _given_vects(box[0].kw) if len(box) == 1 else None
        okb = gv2 is not None and np.shape(gv2) == (3, 3) and equal(gv2, np.asarray(V, dtype=object), deep=False)
        ctx.ob('POSCAR-ROUNDTRIP', loc, '%s: the cell vectors read back are those of the system (scale factor divided out by the writer, multiplied in by the reader)' % tag, okb, node=rfn, key=tag + ' cell')
        order = [i for t in range(1, natypes + 1) for i, a in enumerate(atype) if a == t]   # documented normalisation: atoms grouped by type
        prop = at[0].kw.get('prop') if at else None
        okt = isinstance(prop, dict) and [int(x) for x in np.ravel(prop.get('atype', []))] == [atype[i] for i in order]
        ctx.ob('POSCAR-ROUNDTRIP', loc, '%s: every atom keeps its type (types with no atoms keep their place in the counts line)' % tag, bool(okt),
               'read types %s, written %s' % (None if not isinstance(prop, dict) else [int(x) for x in np.ravel(prop.get('atype', []))], [atype[i] for i in order]), node=rfn, key=tag + ' types')
        cart = style[0] in 'cCkK'
        src = system.P if cart else system.Sc
        okp = isinstance(prop, dict) and np.shape(prop.get('pos')) == (len(atype), 3) and equal(prop['pos'], np.array([src[i] for i in order], dtype=object), deep=False) \
            and len(sy) == 1 and sy[0].kw.get('scale') is (not cart)
        ctx.ob('POSCAR-ROUNDTRIP', loc, '%s: every atom keeps its position (%s)' % (tag, 'absolute' if cart else 'box-relative'), bool(okp), node=rfn, key=tag + ' positions')
        wsym = list(symbols) if None not in symbols else [None] * max(atype)
        oks = len(sy) == 1 and list(sy[0].kw.get('symbols') or []) == wsym
        ctx.ob('POSCAR-ROUNDTRIP', loc, '%s: element symbols survive when the system has them' % tag, oks, str(sy[0].kw.get('symbols') if sy else None), node=rfn, key=tag + ' symbols')
    ctx.floor('POSCAR-ROUNDTRIP', n, 4)


def api(ctx):
    for rel in (LD, LDD, LT, LP):
        issues, stats = apicompat.scan(ctx.mod(rel))
        ctx.ob('API-COMPAT', rel, 'library calls exist with these keywords in the installed numpy/pandas (%d calls, %d keywords)' % (stats['calls_resolved'], stats['kw_checked']), not issues,
               '; '.join(i.what for i in issues)[:400], node=issues[0].node if issues else None, file=rel, key='api ' + rel)


def run(ctx):
    ctx.explanation = ('C08: the four readers are evaluated by the analyser on model files (token lines with symbolic numbers, data frames with explicit row order); the resulting '
                       'constructor calls and stored arrays are compared with what the writers of C07 put there: cell, counts, types, positions with image flags applied per atom id, '
                       'units re-applied, section offsets, refusals of incomplete files; writer and reader column tables are compared for every atom_style. Not decided: decimal parsing.')
    # what is loaded is what the writers wrote: the writer-side obligations that a round trip rests on (the header form follows the exact tilts, the column table the
    # caller passes to both writer and reader is not altered by the writer) are decided here too
    from . import c07
    ctx.run_rules([tables_agree, data_read, table_read, dump_read, streams, poscar_read, poscar_roundtrip, api, c07.data_file, c07.dump_file, c07.resolvers, c07.tables, c07.poscar, lambda c: c07.returned_table(c, "TABLE-READ")])
