"""C05 Wrapping and normalising.

Decided statically:
 * WRAP: System.wrap, evaluated over symbolic scaled positions with every data-dependent comparison scripted, for all 8
   periodicity settings: image flags = floor(s_i) along periodic directions and 0 otherwise; stored scaled positions
   are s - flags, written through the *old* cell before the cell is changed; along non-periodic directions the two
   bounds are enlarged independently, the new vectors are the old ones times (max-min) and the origin moves by
   mins·(old vectors); the cell is set without holding scaled coordinates.
 * NORMALIZE: the input is deep-copied before any mutating call; the handedness test is (a×b)·c < 0 and its arm sets
   (a, b, -c, origin+c) holding absolute positions; the cell is rebuilt from (a,b,c,alpha,beta,gamma) holding scaled
   positions; wrap follows; the orthonormality assertions dominate both returns.
 * BOX-SET: scale=True reads scaled positions, sets the cell, writes them back (in that order); scale=False only
   sets the cell.
 * CACHE (shared with C01): changing the cell vectors resets the reciprocal cache unconditionally.
Declined: that interatomic distances are numerically unchanged.
"""
import ast
import itertools

import numpy as np
import sympy as sp

from ..core import norm, calls_in, kwarg, AnalysisError
from ..symx import SymEval, Path, SymObj, PyStub, symarray, is_zero, is_arr, equal, Opaque, WouldRaise, module_aliases, arr
from .. import effects

SYS = 'atomman/core/System.py'
NRM = 'atomman/lammps/normalize.py'


class Rec:
    def __init__(self):
        self.calls = []


def wrap(ctx):
    fn = ctx.fn(SYS, 'System.wrap')
    loc = SYS + '::System.wrap'
    aliases = module_aliases(ctx.mod(SYS))
    V = symarray('v', (3, 3), real=True)
    o = symarray('o', (3,), real=True)
    n = 0
    for pbc in itertools.product((False, True), repeat=3):
        for script_name, script in (('none', lambda k: False), ('all', lambda k: True)):
            if all(pbc) and script_name == 'all':
                continue
            n += 1
            tag = ''.join('p' if f else 'f' for f in pbc) + '/' + script_name
            S = symarray('s', (2, 3), real=True)
            rec = Rec()

            class _Cell(PyStub):
                # the cell in force: what box_set changes is what later conversions use
                def __init__(self):
                    self.v, self.o = V.copy(), o.copy()
                vects = property(lambda self: self.v.copy())
                origin = property(lambda self: self.o.copy())
                avect = property(lambda self: self.v[0].copy())
                bvect = property(lambda self: self.v[1].copy())
                cvect = property(lambda self: self.v[2].copy())

                def position_relative_to_cartesian(self, r):
                    return np.asarray(r, dtype=object).dot(self.v) + self.o

                def position_cartesian_to_relative(self, c):
                    raise Opaque('Cartesian -> relative conversion in wrap()')
            box = _Cell()

            def atoms_prop(key=None, value=None, scale=False, index=None, a_id=None):
                if value is None:
                    rec.calls.append(('get', key, scale))
                    return S.copy()
                val = np.array(value, dtype=object)
                # what is stored is a Cartesian position: a scaled value goes through the cell in force at the time of the call
                rec.calls.append(('set', key, box.position_relative_to_cartesian(val) if scale else val, scale))
                return None

            def box_set(**kw):
                rec.calls.append(('box_set', kw))
                if kw.get('scale'):
                    return
                if 'vects' in kw:
                    box.v = np.array(kw['vects'], dtype=object)
                elif all(k_ in kw for k_ in ('avect', 'bvect', 'cvect')):
                    box.v = np.array([kw['avect'], kw['bvect'], kw['cvect']], dtype=object)
                if kw.get('origin') is not None:
                    box.o = np.array(kw['origin'], dtype=object)
            me = SymObj(None, {'pbc': tuple(pbc), 'atoms_prop': atoms_prop, 'box': box, 'box_set': box_set}, 'self')
            ev = SymEval(aliases)
            seen = []

            def decide(text, v, p):
                if isinstance(v, sp.core.relational.Relational):
                    seen.append(v)
                    return script(len(seen) - 1)
                return None
            ev.decide = decide

            def where3(cond, a_, b_):
                # an element-wise choice on a data-dependent condition is a comparison like the others: scripted the same way
                c_ = np.asarray(cond, dtype=object)
                A_, B_ = np.broadcast_arrays(np.asarray(a_, dtype=object), np.asarray(b_, dtype=object))
                A_, B_ = np.broadcast_to(A_, np.broadcast_shapes(c_.shape, A_.shape)), np.broadcast_to(B_, np.broadcast_shapes(c_.shape, B_.shape))
                c_ = np.broadcast_to(c_, A_.shape)
                out = np.empty(A_.shape, dtype=object)
                for ix in np.ndindex(A_.shape):
                    ci = c_[ix]
                    if isinstance(ci, sp.core.relational.Relational):
                        ci = decide('where', ci, None)
                    out[ix] = A_[ix] if bool(ci) else B_[ix]
                return out
            ev.np_override = {'numpy.where': where3}
            paths = ev.run_fn(fn, [me, True], {})
            live = [p for p in paths if p.done == 'return']
            ctx.need(len(live) == 1, 'System.wrap does not reduce to one path (pbc=%s)' % tag)
            flags = live[0].ret
            exp_flags = np.array([[sp.floor(S[r, i]) if pbc[i] else sp.Integer(0) for i in range(3)] for r in range(2)], dtype=object)
            ctx.ob('WRAP', loc, 'pbc=%s: image flags are floor(s) along periodic directions and zero along non-periodic ones' % tag, flags is not None and equal(flags, exp_flags, deep=False), key='flags ' + tag)
            sets = [c for c in rec.calls if c[0] == 'set']
            bs = [c for c in rec.calls if c[0] == 'box_set']
            ok = len(sets) == 1 and sets[0][1] == 'pos' and equal(sets[0][2], (S - exp_flags).dot(V) + o, deep=False)
            ctx.ob('WRAP', loc, 'pbc=%s: atoms move by whole cell vectors only (the position stored is (s - flags)·V + o in the cell as it was)' % tag, ok, key='spos ' + tag)
            ok = len(bs) == 1 and len(sets) == 1
            ctx.ob('WRAP', loc, 'pbc=%s: positions are taken through the old cell (written before the cell is changed, or converted first and written after), once; the cell is set once' % tag, ok, key='order ' + tag)
            if len(bs) != 1:
                continue
            kw = bs[0][1]
            ctx.ob('WRAP', loc, 'pbc=%s: the cell is changed holding absolute positions (no scale=True)' % tag, kw.get('scale', False) is False, key='noscale ' + tag)
            # expected mins / maxs
            mins, maxs = [], []
            nonper = [i for i in range(3) if not pbc[i]]
            ok_cmp = True
            for i in range(3):
                if pbc[i] or script_name == 'none':
                    mins.append(sp.Integer(0))
                    maxs.append(sp.Integer(1))
                else:
                    mins.append(sp.Min(S[0, i], S[1, i]))
                    maxs.append(sp.Max(S[0, i], S[1, i]))
            if script_name == 'all':
                # comparisons: min <= 0 and max >= 1, two per non-periodic direction, independent
                ok_cmp = len(seen) == 2 * len(nonper)
                for i in nonper:      # in whatever order the comparisons are made (direction by direction, or all lower bounds first)
                    ok_cmp = ok_cmp and any(_le0(a, sp.Min(S[0, i], S[1, i]) - 0) for a in seen) and any(_le0(b, 1 - sp.Max(S[0, i], S[1, i])) for b in seen)
                ctx.ob('WRAP', loc, 'pbc=%s: along each non-periodic direction the lower bound is tested against min(s) and, independently, the upper bound against max(s)' % tag,
                       ok_cmp, '%d comparisons for %d non-periodic directions: %s' % (len(seen), len(nonper), [str(x) for x in seen[:4]]), key='bounds ' + tag)
            got = [kw.get('avect'), kw.get('bvect'), kw.get('cvect')]
            if 'vects' in kw and np.shape(kw['vects']) == (3, 3):
                got = [np.asarray(kw['vects'], dtype=object)[i] for i in range(3)]
            ok = all(g is not None for g in got) and kw.get('origin') is not None
            if ok:
                for i in range(3):
                    ratio_ok = True
                    d = got[i] - V[i] * (maxs[i] - mins[i])
                    if script_name == 'all' and not pbc[i]:
                        # enlarged: new vector = old * (max' - min') with max' >= max(s), min' <= min(s): check it is old * lambda and lambda - (max-min) is a positive constant
                        lam = sp.simplify(got[i][0] / V[i, 0])
                        ratio_ok = equal(got[i], V[i] * lam, deep=False) and sp.simplify(lam - (maxs[i] - mins[i])).is_positive
                    else:
                        ratio_ok = is_zero(d, deep=False)
                    ok = ok and bool(ratio_ok)
            ctx.ob('WRAP', loc, 'pbc=%s: new cell vectors are the old ones scaled by the (enlarged) extent; periodic directions keep their vector' % tag, ok, key='vects ' + tag)
            if kw.get('origin') is not None:
                og = kw['origin']
                if script_name == 'all' and nonper:
                    # origin - o = m·V(old) with m_i <= min(s) for non-periodic, 0 for periodic
                    m = sp.Matrix(V.T.tolist()).solve(sp.Matrix(list(og - o)))
                    ok = all((is_zero(m[i], deep=False) if pbc[i] else sp.simplify(mins[i] - m[i]).is_positive) for i in range(3))
                else:
                    ok = equal(og, o, deep=False)
                ctx.ob('WRAP', loc, 'pbc=%s: the origin moves by mins·(old cell vectors) so that every atom stays inside' % tag, bool(ok), key='origin ' + tag)
    ctx.floor('WRAP', n, 15)
    # return_imageflags False returns nothing
    r = [s for s in ast.walk(fn) if isinstance(s, ast.Return)]
    ctx.ob('WRAP', loc, 'image flags are returned only on request', len(r) == 1 and isinstance(r[0]._parent, ast.If) and norm(r[0]._parent.test) == 'return_imageflags', node=fn)


def _le0(rel, e):
    """rel states e <= 0 (or < 0)"""
    if not isinstance(rel, sp.core.relational.Relational):
        return False
    d = rel.lhs - rel.rhs
    if isinstance(rel, (sp.Ge, sp.Gt)):
        d = -d
    return sp.simplify(d - e) == 0


def box_set(ctx):
    """System.box_set judged by its effect on a model system (the real System methods over a model cell and a model atom table)"""
    fn = ctx.fn(SYS, 'System.box_set')
    cls = ctx.fn(SYS, 'System')
    loc = SYS + '::System.box_set'
    aliases = module_aliases(ctx.mod(SYS))
    V, W = symarray('v', (3, 3), real=True), symarray('w', (3, 3), real=True)
    o, o2 = symarray('o', (3,), real=True), symarray('p', (3,), real=True)
    P = symarray('x', (2, 3), real=True)
    inv = lambda M: np.array(sp.Matrix(M.tolist()).inv().tolist(), dtype=object)

    def run(scale_arg):
        calls = []

        class BoxM(PyStub):
            def __init__(self):
                self.v, self.o = V, o

            @property
            def vects(self):
                return self.v.copy()

            @property
            def origin(self):
                return self.o.copy()

            def set(self, **kw):
                calls.append(dict(kw))
                self.v, self.o = W, o2

            def position_cartesian_to_relative(self, x):
                return (np.asarray(x, dtype=object) - self.o).dot(inv(self.v))

            def position_relative_to_cartesian(self, r):
                return np.asarray(r, dtype=object).dot(self.v) + self.o

        class AtomsM(PyStub):
            def __init__(self):
                self.view = {'pos': P.copy()}

            @property
            def pos(self):
                return self.view['pos']

            def prop(self, key=None, index=None, value=None, a_id=None):
                if value is None:
                    return self.view[key].copy()
                self.view[key] = np.asarray(value, dtype=object)
        bx, at = BoxM(), AtomsM()
        me = SymObj(cls, {'_System__box': bx, '_System__atoms': at}, 'self')
        ev = SymEval(aliases)
        kw = {'a': sp.Symbol('A')}
        if scale_arg != 'default':
            kw['scale'] = scale_arg
        try:
            paths = ev.run_fn(fn, [me], kw)
        except WouldRaise:
            return 'raise', calls, at, bx
        except Opaque as e:
            raise AnalysisError('System.box_set(scale=%r): %s' % (scale_arg, e))
        return ('ok' if len([q for q in paths if q.done == 'return']) == 1 else 'raise'), calls, at, bx
    st, calls, at, bx = run(True)
    want = (P - o).dot(inv(V)).dot(W) + o2
    ok = st == 'ok' and calls == [{'a': sp.Symbol('A')}] and equal(np.asarray(at.view['pos'], dtype=object), want)
    ctx.ob('BOX-SET', loc, 'scale=True: the cell is set once (scale not forwarded) and every atom keeps its box-relative position: new position = ((x - old origin)·old cell⁻¹)·new cell + new origin', bool(ok), str(calls), node=fn)
    for sc in (False, 'default'):
        st, calls, at, bx = run(sc)
        ok = st == 'ok' and calls == [{'a': sp.Symbol('A')}] and equal(np.asarray(at.view['pos'], dtype=object), P, deep=False)
        ctx.ob('BOX-SET', loc, 'scale=%s: only the cell changes; absolute positions are untouched' % ('False' if sc is False else 'not given'), bool(ok), str(calls), node=fn, key='noscale %s' % sc)
    # a numpy boolean (system.pbc[0], mask.all()) is truthy but is not the object True: it is either refused, or it means scale=True -- never "cell changed, scale ignored"
    st, calls, at, bx = run(np.bool_(True))
    ok = (st == 'raise' and not calls) or (st == 'ok' and equal(np.asarray(at.view['pos'], dtype=object), want))
    ctx.ob('BOX-SET', loc, 'scale given as a numpy True is refused, or holds the box-relative positions like True (it is never accepted and then ignored)', bool(ok),
           'accepted; positions %s' % ('left absolute' if st == 'ok' else ''), node=fn, key='numpy bool scale')
    verd = [(v, run(v)[0], len(run(v)[1])) for v in (1, 'yes', None)]
    ctx.ob('BOX-SET', loc, 'a non-boolean scale is refused before anything is changed', all(x[1] == 'raise' and x[2] == 0 for x in verd), str(verd), node=fn)


def normalize(ctx):
    fn = ctx.fn(NRM, 'normalize')
    loc = NRM + '::normalize'
    muts, eff = effects.param_mutations(fn, {'system'}, mutating_methods=('box_set', 'wrap', 'atoms_prop', 'box.set'))
    ctx.ob('NORMALIZE', loc, 'the input system is deep-copied before any mutating call (operand left as it was)', not muts,
           '; '.join('%s at line %d' % (w, n.lineno) for n, r, w in muts), node=muts[0][0] if muts else fn)
    aliases = module_aliases(ctx.mod(NRM))
    V = symarray('v', (3, 3), real=True)
    o = symarray('o', (3,), real=True)
    W = symarray('w', (3, 3), real=True)          # the rebuilt (LAMMPS-form) vectors
    TT = symarray('tt', (3, 3), real=True)        # least-squares solution as returned by lstsq
    det = sp.Matrix(V.tolist()).det()
    pars = {k: sp.Symbol('box_' + k) for k in ('a', 'b', 'c', 'alpha', 'beta', 'gamma')}
    for left, want_transform, normal in ((True, False, False), (True, True, False), (False, False, False), (False, True, False), (False, False, True)):
        if True:
            rec = Rec()
            tests, solved, compared = [], [], []
            class BoxM(PyStub):
                # every read hands out a fresh copy, as Box's properties do
                def __init__(self):
                    self._v, self._o = V.copy(), o.copy()
                vects = property(lambda self: self._v.copy())
                origin = property(lambda self: self._o.copy())
                avect = property(lambda self: self._v[0].copy())
                bvect = property(lambda self: self._v[1].copy())
                cvect = property(lambda self: self._v[2].copy())

                def is_lammps_norm(self, _n=normal):
                    return _n

                # the cell changed directly (not through System.box_set): recorded as such
                def set(self, **kw):
                    rec.calls.append(('box.set', dict(kw)))
                    _apply(kw)

                def set_abc(self, **kw):
                    rec.calls.append(('box.set', dict(kw)))
                    _apply(kw)

                def set_vectors(self, **kw):
                    rec.calls.append(('box.set', dict(kw)))
                    _apply(kw)
            for _k, _val in pars.items():
                setattr(BoxM, _k, _val)
            box = BoxM()

            def setv(M, origin=None, _box=box):
                _box._v = np.array(M, dtype=object)
                if origin is not None:
                    _box._o = np.array(origin, dtype=object)

            def _apply(kw):
                if 'a' in kw:
                    setv(W)
                elif 'vects' in kw:
                    setv(kw['vects'], kw.get('origin'))
                elif 'avect' in kw:
                    setv([kw['avect'], kw['bvect'], kw['cvect']], kw.get('origin'))

            def bset(**kw):
                rec.calls.append(('box_set', dict(kw)))
                _apply(kw)

            held = symarray('held', (2, 3), real=True)

            def aprop(key=None, index=None, value=None, a_id=None, scale=False):
                # relative positions read and written back around a direct change of the cell
                rec.calls.append(('atoms_prop', key, 'set' if value is not None else 'get', scale, value is held))
                return held if value is None else None

            def wrp(*a_, **k):
                rec.calls.append(('wrap', a_, k))

            def lstsq(A, B, rcond=None):
                solved.append((np.array(A, dtype=object), np.array(B, dtype=object)))
                return (TT.copy(), None, None, None)

            def close(x, y, **k):
                X, Y = np.broadcast_arrays(np.asarray(x, dtype=object), np.asarray(y, dtype=object))
                for u_, v_ in zip(X.ravel(), Y.ravel()):
                    compared.append(sp.simplify(sp.sympify(u_) - sp.sympify(v_)))
                return True
            system = SymObj(None, {'box': box, 'box_set': bset, 'wrap': wrp, 'atoms_prop': aprop}, 'system')
            ev = SymEval(aliases)
            ev.globals = {'deepcopy': lambda x: (x.copy() if is_arr(x) else x)}
            ev.np_override = {'numpy.linalg.lstsq': lstsq, 'numpy.isclose': close, 'numpy.allclose': close}

            def decide(text, v, p):
                if isinstance(v, sp.core.relational.Relational):
                    tests.append(v)
                    return left
                return None
            ev.decide = decide
            try:
                paths = ev.run_fn(fn, [system, want_transform], {})
            except (Opaque, WouldRaise) as e:
                raise AnalysisError('normalize: %s' % e)
            live = [p for p in paths if p.done == 'return']
            ctx.need(len(live) == 1, 'normalize does not reduce to one path')
            tagk = '%s-handed, transform %s' % ('left' if left else 'right', 'requested' if want_transform else 'not requested')
            bs = [c for c in rec.calls if c[0] in ('box_set', 'box.set')]

            def holds_relative(k_):
                """the k-th change of the cell holds the box-relative positions: box_set(scale=True), or a direct change between reading the relative positions and writing the same values back"""
                c_ = bs[k_]
                if c_[0] == 'box_set':
                    return c_[1].get('scale') is True
                at = [i for i, x in enumerate(rec.calls) if x is c_][0]
                before_ = [x for x in rec.calls[:at] if x[0] == 'atoms_prop']
                after_ = [x for x in rec.calls[at + 1:] if x[0] == 'atoms_prop']
                return bool(before_) and before_[-1][1:4] == ('pos', 'get', True) and bool(after_) and after_[0][1:] == ('pos', 'set', True, True)
            if normal:
                # a cell that is already in LAMMPS form may hold atoms outside it (and a non-zero origin): the result still has every atom inside
                kinds = [c[0] for c in rec.calls]
                ctx.ob('NORMALIZE', loc, 'a cell already in LAMMPS form: wrap() is still the last step, so every atom ends inside the cell', bool(kinds) and kinds[-1] == 'wrap' and kinds.count('wrap') == 1 and live[0].ret is system,
                       str(kinds), node=fn, key='wrap when already normal')
                continue
            if want_transform:
                T = TT.T
                rows_unit = all(any(is_zero(c_ - (sp.sqrt(sum(T[i, k] ** 2 for k in range(3))) - 1), deep=False) or is_zero(c_ - (sum(T[i, k] ** 2 for k in range(3)) - 1), deep=False) for c_ in compared) for i in range(3))
                dots = all(any(is_zero(c_ - sum(T[i, k] * T[j, k] for k in range(3)), deep=False) for c_ in compared) for i, j in ((0, 1), (0, 2), (1, 2)))
                ret = live[0].ret
                ctx.ob('NORMALIZE', loc, '%s: the returned transformation is tested orthonormal (unit rows, three vanishing dot products) before it is returned with the system' % tagk,
                       rows_unit and dots and isinstance(ret, tuple) and len(ret) == 2 and ret[0] is system and equal(np.asarray(ret[1], dtype=object), T, deep=False), 'compared %s' % compared[:6], node=fn, key='orthonormal %s' % left)
                flipped = np.array([V[0], V[1], -V[2]], dtype=object) if left else V
                ok = len(solved) == 1 and equal(solved[0][0], flipped, deep=False) and equal(solved[0][1], W, deep=False)
                ctx.ob('NORMALIZE', loc, '%s: the transformation maps the (flipped) old vectors onto the rebuilt ones: least squares from the vectors as they were after the flip and before the rebuild, transposed' % tagk, ok,
                       str([(a_.tolist(), b_.tolist()) for a_, b_ in solved])[:200], node=fn, key='snapshot %s' % left)
                continue
            if left:
                ok = len(tests) == 1 and isinstance(tests[0], sp.Lt) and sp.expand(tests[0].lhs - tests[0].rhs - det) == 0
                ctx.ob('NORMALIZE', loc, 'the handedness test is (a×b)·c < 0', ok, str(tests[0]) if tests else '', node=fn)
                ok = len(bs) == 2
                if ok:
                    kw = bs[0][1]
                    given = np.asarray(kw['vects'], dtype=object) if 'vects' in kw else (np.array([kw.get('avect'), kw.get('bvect'), kw.get('cvect')], dtype=object) if all(k_ in kw for k_ in ('avect', 'bvect', 'cvect')) else None)
                    ok = given is not None and np.shape(given) == (3, 3) and equal(given, np.array([V[0], V[1], -V[2]], dtype=object), deep=False) and 'origin' in kw and equal(np.asarray(kw['origin'], dtype=object), o + V[2], deep=False) \
                        and kw.get('scale', False) is False and not (bs[0][0] == 'box.set' and holds_relative(0))
                ctx.ob('NORMALIZE', loc, 'a left-handed cell has its third vector reversed about the far face (a, b, -c, origin + c), holding absolute positions', ok, str(bs[0][1].keys()) if bs else '', node=fn)
            else:
                ctx.ob('NORMALIZE', loc, 'a right-handed cell is not flipped', len(bs) == 1, node=fn)
            if bs:
                kw = bs[-1][1]
                ok = all(kw.get(k) == pars[k] for k in pars) and holds_relative(len(bs) - 1) and set(kw) - {'scale'} == set(pars)
                ctx.ob('NORMALIZE', loc, 'the cell is rebuilt from its own (a, b, c, alpha, beta, gamma) holding scaled positions (handed=%s)' % ('left' if left else 'right'), ok, str(sorted(kw)), node=fn, key='rebuild %s' % left)
            kinds = [c[0] for c in rec.calls]
            ok = 'wrap' in kinds and kinds.index('wrap') == len(kinds) - 1 and kinds.count('wrap') == 1
            ctx.ob('NORMALIZE', loc, 'wrap() follows the rebuild so every atom is inside (handed=%s)' % ('left' if left else 'right'), ok, str(kinds), node=fn, key='wrap after %s' % left)
            ctx.ob('NORMALIZE', loc, 'the copy is what is returned (handed=%s)' % ('left' if left else 'right'), live[0].ret is system, node=fn, key='ret %s' % left)
    sn = ctx.fn(SYS, 'System.normalize')
    cs = [c for c in calls_in(sn) if norm(c.func).endswith('normalize') and c.args and norm(c.args[0]) == 'self']
    ctx.ob('NORMALIZE', SYS + '::System.normalize', 'System.normalize delegates to lammps.normalize on itself', len(cs) >= 1, node=sn)


def _lammps_form(v):
    """the LAMMPS-form vectors with the lengths and angles of the rows of v (exact)"""
    a_, b_, c_ = [sp.sqrt(sum(x ** 2 for x in row)) for row in v]
    cg = sum(x * y for x, y in zip(v[0], v[1])) / (a_ * b_)
    cb = sum(x * y for x, y in zip(v[0], v[2])) / (a_ * c_)
    ca = sum(x * y for x, y in zip(v[1], v[2])) / (b_ * c_)
    lx, xy, xz = a_, b_ * cg, c_ * cb
    ly = sp.sqrt(b_ ** 2 - xy ** 2)
    yz = (b_ * c_ * ca - xy * xz) / ly
    lz = sp.sqrt(c_ ** 2 - xz ** 2 - yz ** 2)
    z = sp.Integer(0)
    return np.array([[sp.nsimplify(sp.simplify(e)) for e in row] for row in ((lx, z, z), (xy, ly, z), (xz, yz, lz))], dtype=object)


def normalize_state(ctx):
    """normalize() interpreted whole on a model system that *has state* (cell vectors, origin, stored Cartesian positions), on exact rational cells: a LAMMPS-form cell
    turned by a rational rotation, right-handed and with its third vector reversed.  Judged is what the function leaves behind, not which helper it went through."""
    fn = ctx.fn(NRM, 'normalize')
    loc = NRM + '::normalize'
    aliases = module_aliases(ctx.mod(NRM))
    R = sp.Rational
    Q = np.array([[R(2, 3), R(-1, 3), R(2, 3)], [R(2, 3), R(2, 3), R(-1, 3)], [R(-1, 3), R(2, 3), R(2, 3)]], dtype=object)       # a proper rotation
    L = np.array([[R(3), R(0), R(0)], [R(1), R(4), R(0)], [R(-1), R(2), R(5)]], dtype=object)                                      # LAMMPS form
    Vr = L.dot(Q)
    O0 = np.array([R(1, 2), R(-2), R(3)], dtype=object)
    S0 = np.array([[R(1, 4), R(1, 3), R(1, 5)], [R(7, 2), R(-5, 3), R(3, 4)]], dtype=object)      # the second atom is far outside the cell

    def mat(a):
        return sp.Matrix(np.asarray(a, dtype=object).tolist())

    class BoxC(PyStub):
        def __init__(self, v, o, hist=None):
            self._v, self._o = np.array(v, dtype=object), np.array(o, dtype=object)
            self.hist = hist if hist is not None else []
            self.hist.append(self._v.copy())
        vects = property(lambda self: self._v.copy())
        origin = property(lambda self: self._o.copy())
        avect = property(lambda self: self._v[0].copy())
        bvect = property(lambda self: self._v[1].copy())
        cvect = property(lambda self: self._v[2].copy())

        def _tok(self, name):
            return sp.Symbol('%s_of_cell_%d' % (name, len(self.hist) - 1), positive=True)
        a = property(lambda self: self._tok('a'))
        b = property(lambda self: self._tok('b'))
        c = property(lambda self: self._tok('c'))
        alpha = property(lambda self: self._tok('alpha'))
        beta = property(lambda self: self._tok('beta'))
        gamma = property(lambda self: self._tok('gamma'))

        def _put(self, v, o):
            self._v, self._o = np.array(v, dtype=object), np.array(o, dtype=object)
            self.hist.append(self._v.copy())

        def is_lammps_norm(self):
            v = self._v
            return bool(v[0, 1] == 0 and v[0, 2] == 0 and v[1, 2] == 0 and v[0, 0] > 0 and v[1, 1] > 0 and v[2, 2] > 0)

        def set_vectors(self, avect, bvect, cvect, origin=None):
            self._put([avect, bvect, cvect], [0, 0, 0] if origin is None else origin)

        def set_abc(self, a, b, c, alpha=90, beta=90, gamma=90, origin=None):
            gens = set()
            for name, val in (('a', a), ('b', b), ('c', c), ('alpha', alpha), ('beta', beta), ('gamma', gamma)):
                nm = str(val)
                if not nm.startswith(name + '_of_cell_'):
                    raise Opaque('set_abc(%s=%s): not a parameter read from a cell of the model' % (name, val))
                gens.add(int(nm.rsplit('_', 1)[1]))
            if len(gens) != 1:
                raise Opaque('set_abc with parameters of different cells')
            self._put(_lammps_form(self.hist[gens.pop()]), [0, 0, 0] if origin is None else origin)

        def set(self, **kw):
            kw = dict(kw)
            if 'vects' in kw:
                v = kw.pop('vects')
                o = kw.pop('origin', [0, 0, 0])
                if kw:
                    raise WouldRaise('AssertionError: Invalid arguments')
                self._put(v, o)
            elif 'avect' in kw:
                self.set_vectors(**kw)
            elif 'a' in kw:
                self.set_abc(**kw)
            elif 'origin' in kw and len(kw) == 1:
                self._o = np.array(kw['origin'], dtype=object)
            else:
                raise Opaque('Box.set(%s) outside the model' % sorted(kw))

        def position_cartesian_to_relative(self, x):
            x = np.asarray(x, dtype=object)
            inv = np.array(mat(self._v).inv().tolist(), dtype=object)
            return (x - self._o).dot(inv)

        def position_relative_to_cartesian(self, s_):
            return np.asarray(s_, dtype=object).dot(self._v) + self._o

    class AtomsC(PyStub):
        def __init__(self, pos):
            self.pos = np.array(pos, dtype=object)
            self.natoms = len(self.pos)

        @property
        def view(self):
            return {'pos': self.pos}

    class SysC(PyStub):
        def __init__(self, box, pos):
            self.box, self.atoms, self.pbc, self.events = box, AtomsC(pos), np.array([True, True, True]), []

        @property
        def natoms(self):
            return self.atoms.natoms

        def atoms_prop(self, key=None, index=None, value=None, a_id=None, scale=False):
            if key != 'pos' or index is not None or a_id is not None:
                raise Opaque('atoms_prop(%r, index=%r) outside the model' % (key, index))
            if value is None:
                return self.box.position_cartesian_to_relative(self.atoms.pos) if scale else self.atoms.pos.copy()
            self.atoms.pos = np.array(self.box.position_relative_to_cartesian(value) if scale else value, dtype=object)
            return None

        def box_set(self, **kw):
            kw = dict(kw)
            scale = kw.pop('scale', False)
            if scale is True:
                spos = self.atoms_prop('pos', scale=True)
                self.box.set(**kw)
                self.atoms_prop('pos', value=spos, scale=True)
            elif scale is False:
                self.box.set(**kw)
            else:
                raise WouldRaise('TypeError: Invalid scale type')

        def wrap(self, *a, **k):
            self.events.append(('wrap', self.box._v.copy(), self.box._o.copy(), self.atoms.pos.copy()))

    def clone(x):
        if isinstance(x, SysC):
            return SysC(BoxC(x.box._v, x.box._o), x.atoms.pos)
        if isinstance(x, BoxC):
            return BoxC(x._v, x._o)
        return x.copy() if is_arr(x) else x

    def lstsq(A, B, rcond=None):
        return (np.array((mat(A).inv() * mat(B)).tolist(), dtype=object), None, None, None)
    n = 0
    for tag, V0, Sexp in (('right-handed cell', Vr, S0), ('left-handed cell (third vector reversed)', np.array([Vr[0], Vr[1], -Vr[2]], dtype=object), np.array([[r[0], r[1], 1 - r[2]] for r in S0], dtype=object)),
                          ('cell already in LAMMPS form, non-zero origin', L, S0)):
        for want_t in (False, True):
            n += 1
            inp = SysC(BoxC(V0, O0), S0.dot(V0) + O0)
            before = (inp.box._v.copy(), inp.box._o.copy(), inp.atoms.pos.copy())
            ev = SymEval(aliases)
            ev.globals = {'deepcopy': clone}
            ev.np_override = {'numpy.linalg.lstsq': lstsq}
            key = '%s %s' % (tag[:22], want_t)
            try:
                live = [q for q in ev.run_fn(fn, [inp], {'return_transform': want_t}) if q.done == 'return']
            except WouldRaise as e:
                ctx.ob('NORMALIZE', loc, '%s: the function runs to completion' % tag, False, str(e), node=fn, key='state runs ' + key)
                continue
            except Opaque as e:
                raise AnalysisError('normalize on the model system (%s): %s' % (tag, e))
            ctx.need(len(live) == 1, 'normalize does not reduce to one path on the model system (%s)' % tag)
            ret = live[0].ret
            out, T = (ret if isinstance(ret, tuple) and len(ret) == 2 else (ret, None))
            if not isinstance(out, SysC):
                ctx.ob('NORMALIZE', loc, '%s: a system is returned' % tag, False, str(type(out)), node=fn, key='state ret ' + key)
                continue
            ctx.ob('NORMALIZE', loc, '%s, transform %s: the system returned is a copy and the input keeps its cell and positions' % (tag, 'requested' if want_t else 'not requested'),
                   out is not inp and out.box is not inp.box and equal(inp.box._v, before[0], deep=False) and equal(inp.box._o, before[1], deep=False) and equal(inp.atoms.pos, before[2], deep=False) and (T is not None) == want_t,
                   node=fn, key='state copy ' + key)
            if want_t:
                # the transformation is a proper rotation taking the old (right-handed) vectors onto the new ones
                Tm = mat(T)
                old = np.array([Vr[0], Vr[1], Vr[2]], dtype=object) if V0 is not L else L
                okT = (Tm * Tm.T - sp.eye(3)).is_zero_matrix and Tm.det() == 1 and all(equal(np.array(list(Tm * sp.Matrix(list(old[i]))), dtype=object), out.box._v[i], deep=False) for i in range(3))
                ctx.ob('NORMALIZE', loc, '%s: the returned transformation is a proper rotation that takes each (right-handed) old cell vector onto the new one' % tag, bool(okT), str(np.asarray(T).tolist())[:160], node=fn, key='state T ' + key)
                continue
            ctx.ob('NORMALIZE', loc, '%s: the new cell is the LAMMPS form of the same lengths and angles (lower-triangular, positive diagonal%s)' % (tag, ', of the cell with the third vector reversed' if 'left' in tag else ''),
                   equal(out.box._v, L, deep=False), str(out.box._v.tolist())[:200], node=fn, key='state cell ' + key)
            rel = out.box.position_cartesian_to_relative(out.atoms.pos)
            ctx.ob('NORMALIZE', loc, '%s: every atom keeps its box-relative coordinates%s (positions turn with the cell)' % (tag, ' of the right-handed cell, (s1, s2, 1 - s3)' if 'left' in tag else ''),
                   equal(rel, Sexp, deep=False), 'relative positions %s' % ([[str(x) for x in r] for r in rel],), node=fn, key='state pos ' + key)
            w = [e_ for e_ in out.events if e_[0] == 'wrap']
            ctx.ob('NORMALIZE', loc, '%s: wrap() is called once on the copy, after the cell and the positions have their final values (so every atom ends inside the new cell)' % tag,
                   len(w) == 1 and not inp.events and equal(w[0][1], out.box._v, deep=False) and equal(w[0][2], out.box._o, deep=False) and equal(w[0][3], out.atoms.pos, deep=False), '%d wrap call(s)' % len(w), node=fn,
                   key='state wrap ' + key)
    ctx.floor('NORMALIZE/state', n, 6)


def run(ctx):
    from .c01 import cache
    ctx.explanation = ('C05: System.wrap is evaluated over symbolic scaled positions with scripted comparisons for all 8 periodicity settings; normalize and box_set are evaluated against '
                       'recording stubs so that the sequence and arguments of cell changes are decided exactly; copy-on-entry by the alias/mutation analysis; cache invalidation as in C01. '
                       'Not decided: numerical invariance of distances.')
    ctx.run_rules([wrap, box_set, normalize, normalize_state, cache])
