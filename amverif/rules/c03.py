"""C03 Neighbor list (nlist.pyx read through Cython's parser, NeighborList.py).

Decided statically:
 * CONFIGURATIONS: nlist() interpreted whole (exact rational arithmetic, the distance kernel modelled by its C02
   specification, which MINFOLD ties to dmag.pyx) on small scripted configurations -- cubic and tilted cells, shifted
   origin, every kind of periodicity, atoms on faces, pairs exactly at the cutoff, clusters that make both storages
   grow, cutoffs above the cell widths, bins that hold only images, thin non-periodic cells; the table returned must
   list, for every atom, exactly the other atoms closer than the cutoff, ascending.  However the loops are spelt.
The remaining rules are necessary structural conditions that hold for every input, not only the scripted ones:
 * SWEEP-FILL: a half-stencil cell list examines each pair of adjacent bins from one side only, so every bin that the
   fill loop populates must be swept: the definition of the bin-index table reaching the sweep list equals the
   definition reaching the fill loop (reaching-definitions).
 * STENCIL: nlist() interpreted whole on blocks of bins with an accept-all distance test: the pairs examined are exactly the pairs of touching bins (was: offsets, own
   coordinate, bins outside the grid skipped on all six faces, own-bin pairs taken once (v > u), scratch list
   sized for 14 bins.
 * GEOMETRY: bin size >= cutoff, superbox padded by >= cutoff around the eight cell corners, ghost images accepted by
   six strict bounds each on its own coordinate, ghost positions = position + x·a + y·b + z·c with the image ranges
   guarded by the matching periodic flag.
 * MEMBERSHIP: pairs kept iff squared periodic distance (dmag2_c with the system's vectors and flags) < cutoff·cutoff,
   self pairs excluded.
 * INSERTION: duplicate test, first-greater insertion point on both rows, both counts incremented, growth when either
   row would overflow, growth preserves the invariant width = capacity+1 and copies all old columns; same for bins.
 * MINFOLD: the distance kernel dmag2_c the membership test relies on is the periodic minimum of C02 (same rule).
 * NEIGHBORLIST: coord / neighbors views, item access sliced by coord, file writer/reader agreement.
"""
import ast

import sympy as sp

from ..core import norm, calls_in, kwarg, AnalysisError, assigns_to, cmp_canon
from ..flow import Reaching
from ..symx import SymEval, Path, PyStub, SymObj, Opaque, WouldRaise, module_aliases

NL = 'atomman/core/nlist.pyx'
NLP = 'atomman/core/NeighborList.py'


def _loops(node, var=None):
    return [n for n in ast.walk(node) if isinstance(n, ast.For) and (var is None or norm(n.target) == var)]


def _sym(expr, names):
    ev = SymEval()
    env = {n: sp.Symbol(n, positive=True) for n in names}
    return ev.ev(expr, Path(env))


def sweep_fill(ctx):
    fn = ctx.fn(NL, 'nlist')
    loc = NL + '::nlist'
    R = Reaching(fn)
    # the sweep list: <name> = unique_rows2(<table>) ; the sweep loop iterates range(len(<name>)) and unpacks <name>[i]
    sweeps = [s for s in ast.walk(fn) if isinstance(s, ast.Assign) and isinstance(s.value, ast.Call) and norm(s.value.func) == 'unique_rows2']
    ctx.need(len(sweeps) == 1, 'nlist: the list of bins to sweep (unique_rows2(...)) was not found')
    sw = sweeps[0]
    table = norm(sw.value.args[0])
    sweepname = norm(sw.targets[0])
    # fill loop: unpacks the same table row by row into x,y,z and stores into xyzbins
    fills = [l for l in _loops(fn) if any(isinstance(s, ast.Assign) and norm(s.value) == '%s[%s]' % (table, norm(l.target)) for s in l.body)]
    ctx.need(len(fills) == 1, 'nlist: the fill loop over %s was not found' % table)
    fill = fills[0]
    d_sweep = R.defs(sw, table)
    d_fill = R.defs(fill, table)
    ctx.ob('SWEEP-FILL', loc, 'the list of bins swept is built from the same bin-index table (same reaching definitions) as the one the fill loop populates bins from',
           d_sweep == d_fill and len(d_fill) >= 1,
           'sweep sees definitions at lines %s; fill sees %s' % (sorted(x.lineno for x in d_sweep), sorted(x.lineno for x in d_fill)), node=sw)
    # and the fill iterates all of atomindex (real + ghost)
    ctx.ob('SWEEP-FILL', loc, 'the fill loop visits every real and ghost atom', norm(fill.iter).replace(' ', '') in ('range(atomindex.shape[0])', 'range(len(atomindex))'), norm(fill.iter), node=fill)
    ai = R.defs(fill, 'atomindex')
    ctx.ob('SWEEP-FILL', loc, 'ghost atoms are appended to both the bin-index table and the atom-index list (same number of definitions reach the fill)', len(ai) == len(d_fill),
           'atomindex defs %d, %s defs %d' % (len(ai), table, len(d_fill)), node=fill)
    sweeploops = [l for l in _loops(fn) if norm(l.iter).replace(' ', '') in ('range(len(%s))' % sweepname, 'range(%s.shape[0])' % sweepname)]
    ctx.need(len(sweeploops) == 1, 'nlist: the sweep loop over %s was not found' % sweepname)
    return fn, fill, sweeploops[0], sweepname


_cache = {}


def sweep_fill_ctx(ctx):
    if 'sf' not in _cache or _cache['sf'][0] is not ctx:
        fn = ctx.fn(NL, 'nlist')
        sweeps = [s for s in ast.walk(fn) if isinstance(s, ast.Assign) and isinstance(s.value, ast.Call) and norm(s.value.func) == 'unique_rows2']
        ctx.need(len(sweeps) == 1, 'nlist: unique_rows2 call not found')
        table = norm(sweeps[0].value.args[0])
        sweepname = norm(sweeps[0].targets[0])
        fills = [l for l in _loops(fn) if any(isinstance(s, ast.Assign) and norm(s.value) == '%s[%s]' % (table, norm(l.target)) for s in l.body)]
        sweeploops = [l for l in _loops(fn) if norm(l.iter).replace(' ', '') in ('range(len(%s))' % sweepname, 'range(%s.shape[0])' % sweepname)]
        ctx.need(len(fills) == 1 and len(sweeploops) == 1, 'nlist: fill/sweep loops not found')
        _cache['sf'] = (ctx, fn, fills[0], sweeploops[0], sweepname)
    return _cache['sf'][1:]


def head_env(ctx):
    """the set-up block of nlist() (every top-level statement before the first loop) interpreted on a model system: what each local is bound to, however the block
    spells it (aliases, tuple assignments, merged declarations)"""
    if 'head' in _cache and _cache['head'][0] is ctx:
        return _cache['head'][1]
    import numpy as np
    from ..symx import symarray
    fn = ctx.fn(NL, 'nlist')

    class Bx(PyStub):
        vects = symarray('v', (3, 3), real=True)
        origin = symarray('o', (3,), real=True)

    class At(PyStub):
        pos = symarray('p', (4, 3), real=True)

    class Sy(PyStub):
        box, atoms = Bx(), At()
        pbc = (sp.Symbol('PBC_A'), sp.Symbol('PBC_B'), sp.Symbol('PBC_C'))
        natoms = 4
    sysm = Sy()
    ev = SymEval(module_aliases(ctx.mod(NL)))
    paths = [Path({'system': sysm, 'cutoff': sp.Symbol('cutoff', positive=True), 'initialsize': sp.Integer(20), 'deltasize': sp.Integer(10)})]
    for st in fn.body:
        if isinstance(st, (ast.For, ast.While)):
            break
        try:
            nxt = ev.block([st], paths)
            if len(nxt) == 1 and nxt[0].done is None:
                paths = nxt
        except Opaque:
            continue          # a statement outside the vocabulary binds nothing the obligations ask about (they fail closed on a missing name)
    env = dict(paths[0].env)
    env['__system__'] = sysm
    _cache['head'] = (ctx, env)
    return env


def geometry(ctx):
    fn, fill, sweep, sweepname = sweep_fill_ctx(ctx)
    loc = NL + '::nlist'
    bs = assigns_to(fn, 'binsize')
    ok = False
    if len(bs) == 1:
        v = _sym(bs[0].value, ['cutoff'])
        ok = sp.simplify(v - sp.Symbol('cutoff', positive=True)).is_nonnegative
    ctx.ob('GEOMETRY', loc, 'bin size is at least the cutoff (neighbours lie in adjacent bins only then)', bool(ok), norm(bs[0].value) if bs else '', node=bs[0] if bs else fn)
    for nm, ctor in (('xbins', 0), ('ybins', 1), ('zbins', 2)):
        a = assigns_to(fn, nm)
        ok = len(a) == 1 and norm(a[0].value).replace(' ', '') == 'np.arange(supermin[%d],supermax[%d]+binsize,binsize)' % (ctor, ctor)
        ctx.ob('GEOMETRY', loc, '%s edges span the padded superbox in steps of the bin size' % nm, ok, norm(a[0].value) if a else '', node=a[0] if a else fn, key='bins ' + nm)
    pads = [s for s in ast.walk(fn) if isinstance(s, ast.AugAssign) and norm(s.target) in ('supermin[j]', 'supermax[j]')]
    ok = len(pads) == 2
    for s in pads:
        v = _sym(s.value, ['cutoff'])
        ok = ok and sp.simplify(v - sp.Symbol('cutoff', positive=True)).is_nonnegative
        ok = ok and isinstance(s.op, ast.Sub if 'min' in norm(s.target) else ast.Add)
    ctx.ob('GEOMETRY', loc, 'the superbox is padded outwards by at least the cutoff on both sides', bool(ok), '; '.join(norm(s) for s in pads), node=pads[0] if pads else fn)
    # corners: all 8, linear form
    cs = assigns_to(fn, 'corner')
    ok = False
    if len(cs) == 1:
        ev = SymEval()
        x, y, z = sp.symbols('x y z')
        o = [sp.Symbol('o%d' % i) for i in range(3)]
        import numpy as np
        from ..symx import symarray
        V = symarray('v', (3, 3))
        okc = True
        for j in range(3):
            val = ev.ev(cs[0].value, Path({'x': x, 'y': y, 'z': z, 'j': j, 'origin': np.array(o, dtype=object), 'vects': V}))
            okc = okc and sp.expand(val - (o[j] + x * V[0, j] + y * V[1, j] + z * V[2, j])) == 0
        par = cs[0]
        rng = {}
        while par is not fn:
            par = par._parent
            if isinstance(par, ast.For) and norm(par.target) in ('x', 'y', 'z'):
                rng[norm(par.target)] = norm(par.iter).replace(' ', '')
        ok = okc and all(rng.get(k) in ('range(0,2)', 'range(2)') for k in 'xyz')
    ctx.ob('GEOMETRY', loc, 'the superbox encloses the eight cell corners origin + x·a + y·b + z·c, x,y,z in {0,1}', ok, node=cs[0] if cs else fn)
    # ghost acceptance
    tests = [s for s in ast.walk(fn) if isinstance(s, ast.If) and 'supermin' in norm(s.test) and 'newposv' in norm(s.test)]
    ctx.need(len(tests) == 1, 'nlist: ghost acceptance test not found')
    comps = [c for c in ast.walk(tests[0].test) if isinstance(c, ast.Compare)]
    seen = set()
    bad = []
    for c in comps:
        cc = cmp_canon(c)
        if cc is None:
            bad.append(norm(c))
            continue
        big, op, small = cc
        import re
        mb = re.match(r'(newposv\[i, (\d)\]|supermax\[(\d)\]|supermin\[(\d)\])$', big)
        ms = re.match(r'(newposv\[i, (\d)\]|supermax\[(\d)\]|supermin\[(\d)\])$', small)
        if not (mb and ms):
            bad.append(norm(c))
            continue
        if big.startswith('newposv') and small.startswith('supermin'):
            j, k = mb.group(2), ms.group(4)
            (seen.add(('lo', j)) if j == k else bad.append(norm(c)))
        elif big.startswith('supermax') and small.startswith('newposv'):
            j, k = ms.group(2), mb.group(3)
            (seen.add(('hi', j)) if j == k else bad.append(norm(c)))
        else:
            bad.append(norm(c))
    ok = not bad and seen == {(s, str(j)) for s in ('lo', 'hi') for j in range(3)} and isinstance(tests[0].test, ast.BoolOp) and isinstance(tests[0].test.op, ast.And)
    ctx.ob('GEOMETRY', loc, 'a ghost image is kept iff each coordinate lies within the padded superbox bounds of that same coordinate (six bounds)', ok,
           'mismatched: %s; recognised %s' % (bad, sorted(seen)), node=tests[0])
    # ghost positions linear form and ranges
    gp = [s for s in ast.walk(fn) if isinstance(s, ast.Assign) and norm(s.targets[0]) == 'newposv[i, j]']
    ok = False
    if len(gp) == 1:
        import numpy as np
        from ..symx import symarray
        ev = SymEval()
        x, y, z = sp.symbols('x y z')
        V = symarray('v', (3, 3))
        P = symarray('p', (1, 3))
        ok = True
        for j in range(3):
            val = ev.ev(gp[0].value, Path({'x': x, 'y': y, 'z': z, 'i': 0, 'j': j, 'posv': P, 'vects': V}))
            ok = ok and sp.expand(val - (P[0, j] + x * V[0, j] + y * V[1, j] + z * V[2, j])) == 0
    ctx.ob('GEOMETRY', loc, 'a ghost image is the atom shifted by x·a + y·b + z·c', ok, norm(gp[0].value) if gp else '', node=gp[0] if gp else fn)
    for flag, (lo, hi) in (('pbc_a', ('xl', 'xh')), ('pbc_b', ('yl', 'yh')), ('pbc_c', ('zl', 'zh'))):
        ifs = [s for s in fn.body if isinstance(s, ast.If) and norm(s.test) == flag]
        ok = len(ifs) == 1 and norm(ifs[0].body[0]).replace(' ', '') == '%s,%s=(-1,2)' % (lo, hi) and norm(ifs[0].orelse[0]).replace(' ', '') == '%s,%s=(0,1)' % (lo, hi)
        ctx.ob('GEOMETRY', loc, 'images along a direction are {-1,0,1} iff that direction is periodic (%s), else {0}' % flag, ok, node=ifs[0] if ifs else fn, key='range ' + flag)
    gl = {v: [l for l in _loops(fn, v) if norm(l.iter).replace(' ', '') == 'range(%sl,%sh)' % (v, v)] for v in 'xyz'}
    ctx.ob('GEOMETRY', loc, 'the ghost loops run over those ranges', all(len(gl[v]) == 1 for v in 'xyz'), node=fn)
    henv = head_env(ctx)
    sysm = henv['__system__']
    flags = [henv.get(nm) for nm in ('pbc_a', 'pbc_b', 'pbc_c')]
    ctx.ob('GEOMETRY', loc, 'the periodic flags are the system\'s, in order', flags == list(sysm.pbc), str(flags), node=fn)
    # digitize: same bin edges for real and ghost atoms, -1 offset
    dg = [s for s in ast.walk(fn) if isinstance(s, ast.Assign) and isinstance(s.value, ast.BinOp) and isinstance(s.value.left, ast.Call) and norm(s.value.left.func) == 'np.digitize']
    ok = len(dg) == 6
    for s in (dg if ok else []):
        nm = norm(s.targets[0])
        col = {'xindex': '0', 'yindex': '1', 'zindex': '2'}.get(nm)
        a0, a1 = norm(s.value.left.args[0]), norm(s.value.left.args[1])
        ok = ok and col is not None and a0 in ('pos[:, %s]' % col, 'ghostpos[:, %s]' % col) and a1 == nm[0] + 'bins' and norm(s.value.right) == '1' and isinstance(s.value.op, ast.Sub)
    if len(dg) == 6:
        ctx.ob('GEOMETRY', loc, 'real and ghost atoms are binned with the same edges, coordinate k against the k-edges', ok, '%d digitize statements' % len(dg), node=fn)
    # (binning spelt another way -- a helper, a comprehension -- is judged by its effect: CONFIGURATIONS has atoms whose images fall in bins of their own, and the
    # bin-block configurations of STENCIL have as many bins along each direction as atoms)


def membership(ctx):
    fn, fill, sweep, sweepname = sweep_fill_ctx(ctx)
    loc = NL + '::nlist'
    c2 = assigns_to(fn, 'cutoff2')
    ok = len(c2) == 1 and sp.expand(_sym(c2[0].value, ['cutoff']) - sp.Symbol('cutoff', positive=True) ** 2) == 0
    ctx.ob('MEMBERSHIP', loc, 'the squared cutoff is cutoff·cutoff', ok, node=c2[0] if c2 else fn)
    # strictness of the test, the arguments of the kernel and the positions compared are decided by CONFIGURATIONS (pairs exactly at the cutoff, mixed periodic flags, thin cells)
    imp = [n for n in ctx.mod(NL).body if isinstance(n, ast.ImportFrom) and any(a.name == 'dmag2_c' for a in n.names)]
    ctx.ob('MEMBERSHIP', loc, 'dmag2_c is the kernel of C02 (imported from .dmag)', len(imp) == 1 and imp[0].module == 'dmag', node=imp[0] if imp else fn)
    henv = head_env(ctx)
    ctx.ob('MEMBERSHIP', loc, 'the vectors are the system\'s cell vectors', henv.get('vects') is henv['__system__'].box.vects, node=fn)


def return_type(ctx):
    """coordination numbers and neighbour ids are whole numbers on every way out of nlist(): NeighborList slices rows by the count in column 0"""
    from .. import dtypeflow
    fn = ctx.fn(NL, 'nlist')
    fl = dtypeflow.DtypeFlow(fn)
    n = 0
    for node, atoms in fl.returns:
        n += 1
        und = dtypeflow.undecided(atoms)
        if und:
            ctx.need(False, 'nlist: the element type of the table returned at line %d is not decided: %s' % (node.lineno, dtypeflow.describe(und)))
        ctx.ob('RETURN-TYPE', NL + '::nlist', 'the table returned at `%s` has an integer element type (the count in column 0 is used as a slice bound, the ids as indices)' % norm(node)[:50],
               set(atoms) <= {dtypeflow.INT, dtypeflow.PI, dtypeflow.PB}, 'element type: %s' % dtypeflow.describe(atoms), node=node, key='return type %s' % norm(node)[:40])
    ctx.floor('RETURN-TYPE', n, 1)


def insertion(ctx):
    fn, fill, sweep, sweepname = sweep_fill_ctx(ctx)
    loc = NL + '::nlist'
    M, D = sp.symbols('maxneighbors deltasize', positive=True)
    # (row width and growth step of the neighbour table are judged on the tables the scenarios below end with: capacity + 1 columns, capacity = initial + k * deltasize)
    # the pair-insertion block, interpreted on small concrete tables (finite table logic: which slot gets which id)
    import numpy as np
    stores = [s_ for s_ in ast.walk(sweep) if isinstance(s_, ast.Assign) and isinstance(s_.targets[0], ast.Subscript) and norm(s_.targets[0].value) in ('neighbors', 'newneighbors')]
    ctx.need(len(stores) >= 2, 'nlist: stores into the neighbour table not found')

    def chain(n_):
        out = []
        while n_ is not None and n_ is not sweep:
            out.append(n_)
            n_ = getattr(n_, '_parent', None)
        return out
    common = None
    for st_ in stores + [s_ for s_ in ast.walk(sweep) if isinstance(s_, ast.AugAssign) and norm(s_.target).startswith('neighbors[')]:
        ch = [x for x in chain(st_) if isinstance(x, ast.stmt)]
        common = ch if common is None else [x for x in common if any(x is y for y in ch)]
    ctx.need(bool(common), 'nlist: the statement holding the pair insertion is not recognisable')
    # smallest enclosing statement whose only inputs are the two atom ids, the table and its size parameters
    allowed = {'uindex', 'vindex', 'neighbors', 'maxneighbors', 'deltasize', 'natoms', 'initialsize', 'np', 'range', 'max', 'min', 'len', 'int'}
    block = None
    for cand in common:
        loaded = {n_.id for n_ in ast.walk(cand) if isinstance(n_, ast.Name) and isinstance(n_.ctx, ast.Load)}
        stored = {n_.id for n_ in ast.walk(cand) if isinstance(n_, ast.Name) and isinstance(n_.ctx, ast.Store)}
        if (loaded - stored) <= allowed and {'uindex', 'vindex'} <= loaded:
            block = cand
            break
    ctx.need(block is not None and not any(norm(c.func) == 'dmag2_c' for c in calls_in(block)), 'nlist: the pair-insertion block (inputs: the two atom ids, the table, its size parameters) is not recognisable')

    def run_pairs(pairs, natoms, cap, delta):
        tab = np.empty((natoms, cap + 1), dtype=object)
        tab[...] = sp.Integer(-7)                      # np.empty: unspecified contents
        for i in range(natoms):
            tab[i, 0] = sp.Integer(0)
        env = {'neighbors': tab, 'maxneighbors': sp.Integer(cap), 'deltasize': sp.Integer(delta), 'natoms': sp.Integer(natoms), 'initialsize': sp.Integer(cap)}
        ev = SymEval({'np': 'numpy'})
        ev.np_override = {'numpy.empty': lambda shape, **k: _unspec(shape), 'numpy.zeros': lambda shape, **k: _unspec(shape, 0)}
        for u, v in pairs:
            env.update({'uindex': sp.Integer(u), 'vindex': sp.Integer(v)})
            q = [x for x in ev.block([block], [Path(dict(env))]) if x.done is None]
            if len(q) != 1:
                raise Opaque('pair insertion does not reduce to one path for (%d, %d)' % (u, v))
            env = q[0].env
        return env

    def _unspec(shape, fill=-7):
        out = np.empty(tuple(int(x) for x in shape), dtype=object)
        out[...] = sp.Integer(fill)
        return out
    scen = [('ascending arrivals, growth on both rows', [(0, 1), (0, 2), (0, 3), (1, 2), (0, 4), (1, 3), (1, 4)], 5, 2, 1),
            ('descending arrivals (every insertion shifts), repeats in both orders', [(4, 3), (4, 2), (4, 1), (4, 0), (3, 4), (4, 3), (2, 0), (0, 2), (3, 0), (1, 0), (0, 1)], 5, 1, 2),
            ('only the second atom\'s row overflows', [(0, 1), (2, 1), (3, 1), (4, 1), (0, 4)], 5, 1, 1),
            ('interleaved arrivals, larger growth step, self pair', [(2, 5), (2, 0), (2, 3), (5, 0), (2, 2), (2, 1), (2, 4), (0, 3), (3, 5), (5, 2), (1, 5)], 6, 2, 3)]
    for tag, pairs, natoms, cap, delta in scen:
        want = {i: set() for i in range(natoms)}
        for u, v in pairs:
            if u != v:
                want[u].add(v)
                want[v].add(u)
        try:
            env = run_pairs(pairs, natoms, cap, delta)
            tab = env['neighbors']
            bad = []
            for i in range(natoms):
                cnt = int(tab[i, 0])
                row = [int(x) for x in tab[i, 1:cnt + 1]]
                if row != sorted(want[i]):
                    bad.append('row %d holds %s, expected %s' % (i, row, sorted(want[i])))
            need = max(len(v_) for v_ in want.values())
            if int(env['maxneighbors']) < need or tab.shape[1] != int(env['maxneighbors']) + 1 or (int(env['maxneighbors']) - cap) % delta != 0 or int(env['maxneighbors']) < cap:
                bad.append('capacity %s (initially %d, growth step %d) with %d columns for a largest list of %d' % (env['maxneighbors'], cap, delta, tab.shape[1], need))
            ok, det = not bad, '; '.join(bad[:3])
        except (Opaque, WouldRaise, IndexError, TypeError) as e:
            ok, det = False, 'insertion cannot be carried out: %s' % e
        ctx.ob('INSERTION', loc, '%s: every row ends as the ascending, duplicate-free list of exactly the partners of that atom (both directions stored, earlier entries kept through growth, capacity + 1 columns)' % tag, ok, det,
               node=block, key='pairs ' + tag)
    init = [l for l in _loops(fn) if any(norm(s).replace(' ', '') == 'neighbors[i,0]=0' for s in l.body) and norm(l.iter).replace(' ', '') == 'range(natoms)']
    ctx.ob('INSERTION', loc, 'all coordination counts start at zero', len(init) == 1, node=fn)
    mi = assigns_to(fn, 'maxneighbors')
    ctx.ob('INSERTION', loc, 'the initial capacity is the initialsize parameter', bool(mi) and norm(mi[0].value) == 'initialsize', node=fn)
    # bins
    B = sp.Symbol('maxatomsperbin', positive=True)
    ab = [s for s in ast.walk(fn) if isinstance(s, ast.Assign) and norm(s.targets[0]) in ('xyzbins', 'newbins') and isinstance(s.value, ast.Call) and norm(s.value.func) == 'np.zeros']
    ctx.need(len(ab) == 2, 'nlist: allocation of xyzbins / newbins not found')
    wb0 = _sym(ab[0].value.args[0].elts[3], ['maxatomsperbin'])
    wb1 = _sym(ab[1].value.args[0].elts[3], ['maxatomsperbin'])
    gb = [s for s in ast.walk(fill) if isinstance(s, ast.AugAssign) and norm(s.target) == 'maxatomsperbin']
    ctx.need(len(gb) == 1, 'nlist: maxatomsperbin growth not found')
    gv = _sym(gb[0].value, ['maxatomsperbin'])
    ctx.ob('INSERTION', loc, 'bin width is capacity+1 initially and after growth, growth >= 1', sp.expand(wb0 - (B + 1)) == 0 and sp.expand(wb1 - (B + gv + 1)) == 0 and gv >= 1,
           'initial %s, grown %s, capacity += %s' % (wb0, wb1, gv), node=ab[1])
    cpb = [l for l in _loops(fill) if any(isinstance(s, ast.Assign) and norm(s.targets[0]).startswith('newbins[') for s in l.body)]
    ok = False
    if cpb and len(cpb[-1].iter.args) == 1:
        # accepted bounds: the whole old width (capacity + 1), or the occupied part (count + 1: the count slot and `count` atom ids)
        class _Tab(PyStub):
            def __getitem__(self, ix):
                if isinstance(ix, tuple) and len(ix) == 4 and ix[3] == 0:
                    return sp.Symbol('count', positive=True)
                raise Opaque('bin table read in a loop bound')
        try:
            bnd = SymEval().ev(cpb[-1].iter.args[0], Path({'maxatomsperbin': B, 'xyzbins': _Tab(), 'i': sp.Symbol('i'), 'j': sp.Symbol('j'), 'k': sp.Symbol('k')}))
            ok = sp.expand(bnd - wb0) == 0 or sp.expand(bnd - (sp.Symbol('count', positive=True) + 1)) == 0
        except Opaque:
            ok = False
    ctx.ob('INSERTION', loc, 'bin growth copies every old slot in use (the count slot and all atom slots)', ok, norm(cpb[-1].iter) if cpb else '', node=cpb[-1] if cpb else fill)
    gbi = gb[0]._parent
    cc = cmp_canon(gbi.test) if isinstance(gbi, ast.If) else None
    ok = cc is not None and ((cc[1] == '==' and set((cc[0], cc[2])) == {'c', 'maxatomsperbin'}) or cc in (('c', '>=', 'maxatomsperbin'),))
    st = [s for s in fill.body if isinstance(s, ast.Assign) and norm(s.targets[0]) == 'xyzbins[x, y, z, c]']
    ok = ok and len(st) == 1 and st[0].lineno > gbi.lineno and norm(st[0].value) == 'atomindex[n]'
    cdef = [s for s in fill.body if isinstance(s, ast.Assign) and norm(s.targets[0]) == 'c']
    ok = ok and len(cdef) == 1 and norm(cdef[0].value).replace(' ', '') == 'xyzbins[x,y,z,0]+1'
    ctx.ob('INSERTION', loc, 'a bin slot is written only after the capacity test (slot index = old count + 1 <= capacity)', ok, node=gbi)
    cnt = [s for s in fill.body if isinstance(s, ast.Assign) and norm(s.targets[0]) == 'xyzbins[x, y, z, 0]']
    ctx.ob('INSERTION', loc, 'the bin count is updated to the slot just written', len(cnt) == 1 and norm(cnt[0].value) == 'c', node=fill)
    ret = [s for s in fn.body if isinstance(s, ast.Return)]
    ctx.ob('INSERTION', loc, 'the table returned is the (possibly grown) neighbour table', len(ret) == 1 and norm(ret[0].value) == 'np.asarray(neighbors)', node=fn)


def _exact(x):
    import numpy as np
    a = np.empty(np.shape(x), dtype=object)
    src = np.asarray(x, dtype=object)
    for i in range(a.size):
        a.flat[i] = sp.nsimplify(src.flat[i])
    return a


def _periodic2(u, v, vects, flags):
    """squared periodic distance in the sense of C02: the smallest over the images -1, 0, +1 along each periodic direction"""
    import itertools
    best = None
    for s_ in itertools.product(*[((-1, 0, 1) if f else (0,)) for f in flags]):
        d = v - u + sum(s_[k] * vects[k] for k in range(3))
        m = sum(x * x for x in d)
        best = m if best is None or m < best else best
    return best


def _configurations():
    """(tag, cell vectors, origin, periodic flags, positions, cutoff, initialsize, deltasize, tier)"""
    R = sp.Rational
    cube3 = [[3, 0, 0], [0, 3, 0], [0, 0, 3]]
    four = [[R(1, 10), R(1, 10), R(1, 10)], [R(29, 10), R(1, 10), R(1, 10)], [R(3, 2), R(3, 2), R(3, 2)], [R(3, 2), R(21, 10), R(3, 2)], [R(23, 10), R(1, 10), R(1, 10)]]
    tilt = [[4, 0, 0], [1, 3, 0], [R(1, 2), R(-1, 2), R(7, 2)]]
    o2 = [R(-5, 4), R(2, 3), R(-7, 2)]
    frac = [[0, 0, 0], [R(19, 20), 0, R(1, 20)], [R(1, 2), R(1, 2), R(1, 2)], [R(1, 2), R(3, 5), R(1, 2)], [0, R(19, 20), R(1, 2)], [R(1, 40), R(1, 40), R(39, 40)], [R(3, 5), R(1, 2), R(11, 20)]]
    import numpy as np
    tpos = [list(np.array(o2, dtype=object) + np.array(f, dtype=object).dot(np.array(tilt, dtype=object))) for f in frac]
    cluster = [[R(3, 2) + R(i % 2, 10), R(3, 2) + R((i // 2) % 2, 10), R(3, 2) + R(i // 4, 10)] for i in range(8)]
    out = [('five atoms in a cubic cell, all directions periodic (pairs across two faces, one of them needing most of the padding)', cube3, [0, 0, 0], (True, True, True), four, 1, 1, 1, 'quick'),
           ('the same atoms, no direction periodic', cube3, [0, 0, 0], (False, False, False), four, 1, 20, 10, 'quick'),
           ('the same atoms, only the second direction periodic', cube3, [0, 0, 0], (False, True, False), four, 1, 2, 3, 'quick'),
           ('tilted cell with a shifted origin, first and third directions periodic, atoms on faces and near corners', tilt, o2, (True, False, True), tpos, R(3, 4), 1, 1, 'quick'),
           ('the same tilted cell, all directions periodic, larger cutoff', tilt, o2, (True, True, True), tpos, R(5, 4), 3, 2, 'thorough'),
           ('a single atom, cutoff above the cell widths', [[1, 0, 0], [0, 1, 0], [0, 0, 1]], [0, 0, 0], (True, True, True), [[R(1, 2), R(1, 2), R(1, 2)]], R(3, 2), 1, 1, 'quick'),
           ('two atoms, cutoff above the cell widths (each pair is listed once)', [[1, 0, 0], [0, 1, 0], [0, 0, 1]], [0, 0, 0], (True, True, False), [[R(1, 4), R(1, 4), R(1, 4)], [R(3, 4), R(1, 2), R(1, 4)]], R(6, 5), 1, 1, 'quick'),
           ('eight atoms clustered in one bin, storage of one slot growing by one', cube3, [0, 0, 0], (True, True, True), cluster, 1, 1, 1, 'quick'),
           ('the same cluster with roomy storage', cube3, [0, 0, 0], (True, True, True), cluster, 1, 20, 10, 'quick'),
           ('pairs exactly at the cutoff and just inside it', cube3, [0, 0, 0], (False, False, False), [[1, 1, 1], [2, 1, 1], [1, R(199, 100), 1], [1, 1, R(1, 100)]], 1, 2, 1, 'quick'),
           ('long cell, two atoms that are neighbours only through the periodic face (the image sits in a bin holding no real atom)', [[10, 0, 0], [0, 3, 0], [0, 0, 3]], [0, 0, 0], (True, False, False),
            [[R(1, 10), R(3, 2), R(3, 2)], [R(99, 10), R(3, 2), R(3, 2)], [5, R(3, 2), R(3, 2)]], 1, 1, 1, 'quick'),
           ('the same long cell with the atoms listed in the other order', [[10, 0, 0], [0, 3, 0], [0, 0, 3]], [0, 0, 0], (True, False, False),
            [[R(99, 10), R(3, 2), R(3, 2)], [5, R(3, 2), R(3, 2)], [R(1, 10), R(3, 2), R(3, 2)]], 1, 1, 1, 'quick'),
           ('cell with more bins along the second direction than along the first, a pair in the topmost occupied layer', [[1, 0, 0], [0, 4, 0], [0, 0, 1]], [0, 0, 0], (False, False, False),
            [[R(9, 10), R(799, 200), R(1, 2)], [R(199, 200), R(799, 200), R(1, 2)], [R(1, 2), R(7, 2), R(1, 2)], [R(1, 2), R(1, 2), R(1, 2)]], 1, 1, 1, 'quick'),
           ('cell with more bins along the third direction than along the second, pairs in the topmost occupied layer', [[1, 0, 0], [0, 2, 0], [0, 0, 5]], [0, 0, 0], (False, False, False),
            [[R(1, 2), R(9, 10), R(999, 200)], [R(1, 2), R(399, 200), R(999, 200)], [R(199, 200), R(399, 200), R(999, 200)], [R(1, 2), R(1, 2), R(1, 2)]], 1, 1, 1, 'quick'),
           ('cell not commensurate with the bins, a pair through the second periodic face whose images sit in bins that hold no real atom', [[3, 0, 0], [0, R(369, 100), 0], [0, 0, 3]], [0, 0, 0], (False, True, False),
            [[R(6, 5), R(737, 200), R(3, 2)], [R(4, 5), R(1, 2), R(3, 2)]], 1, 1, 1, 'quick'),
           ('thin cell along a direction that is not periodic: atoms at opposite faces are close only through an image that does not exist', [[3, 0, 0], [0, 3, 0], [0, 0, R(3, 2)]], [0, 0, 0], (True, True, False),
            [[R(1, 2), R(1, 2), R(1, 10)], [R(1, 2), R(1, 2), R(7, 5)], [R(1, 2), R(11, 10), R(1, 10)]], 1, 1, 1, 'quick'),
           ('forty-five atoms in one bin (the bin storage grows)', cube3, [0, 0, 0], (False, False, False), [[1 + R(i % 5, 5), 1 + R(2 * ((i // 5) % 3), 5), 1 + R(2 * (i // 15), 5)] for i in range(45)], 1, 2, 5, 'quick')]
    # generated configurations (a fixed linear congruential sequence, so every run sees the same ones): all eight periodicity settings on a cubic and a tilted cell
    state = [12345]

    def nxt(m):
        state[0] = (1103515245 * state[0] + 12345) % (2 ** 31)
        return (state[0] >> 8) % m
    import itertools
    for ci, (cell, org) in enumerate(((cube3, [0, 0, 0]), (tilt, o2))):
        for flags in itertools.product((True, False), repeat=3):
            fr = [[R(nxt(24), 24), R(nxt(24), 24), R(nxt(24), 24)] for _ in range(10)]
            fr = [f for i, f in enumerate(fr) if f not in fr[:i]]
            gp = [list(np.array(org, dtype=object) + np.array(f, dtype=object).dot(np.array(cell, dtype=object))) for f in fr]
            out.append(('generated configuration %d in the %s cell, periodic flags %s' % (len(out), 'cubic' if ci == 0 else 'tilted', flags), cell, org, flags, gp, R(5, 4) if nxt(2) else R(3, 4), 1 + nxt(3), 1 + nxt(3), 'thorough'))
    return out


def _run_nlist(ctx, vects, origin, flags, pos, cutoff, isize, dsize, kernel=None):
    """nlist() interpreted whole on one exact configuration -> (table or None, why)"""
    import numpy as np
    fn = ctx.fn(NL, 'nlist')
    mod = ctx.mod(NL)
    helpers = {n.name: n for n in mod.body if isinstance(n, ast.FunctionDef) and n.name not in ('nlist', 'unique_rows2')}
    V, O, P = _exact(vects), _exact(origin), _exact(pos)

    class Bx(PyStub):
        vects, origin = V, O

    class At(PyStub):
        pos = P

    class Sy(PyStub):
        box, atoms, pbc = Bx(), At(), tuple(flags)
    Sy.natoms = len(P)

    def spec_kernel(up, vp, vv, a, b, c):
        up, vp, vv = np.asarray(up, dtype=object), np.asarray(vp, dtype=object), np.asarray(vv, dtype=object)
        if up.shape != vp.shape or up.ndim != 2 or up.shape[1] != 3 or vv.shape != (3, 3):
            raise WouldRaise('dmag2_c called with position tables of shapes %s and %s' % (up.shape, vp.shape))
        out = np.empty(len(up), dtype=object)
        for i in range(len(up)):
            out[i] = _periodic2(up[i], vp[i], vv, (bool(a), bool(b), bool(c)))
        return out

    def unique_rows(a):
        rows = sorted({tuple(int(x) for x in r) for r in np.asarray(a, dtype=object)})
        out = np.empty((len(rows), 3), dtype=object)
        for i, r in enumerate(rows):
            out[i] = [sp.Integer(x) for x in r]
        return out
    ev = SymEval(module_aliases(mod), funcs=dict(helpers))
    ev.globals = {'dmag2_c': kernel or spec_kernel, 'unique_rows2': unique_rows}
    paths = ev.run_fn(fn, [], dict(system=Sy(), cutoff=sp.nsimplify(cutoff), initialsize=sp.Integer(isize), deltasize=sp.Integer(dsize)))
    rets = [q for q in paths if q.done == 'return']
    if len(paths) != 1 or len(rets) != 1:
        return None, '%d paths, %d return' % (len(paths), len(rets))
    return np.asarray(rets[0].ret, dtype=object), ''


def stencil_pairs(ctx):
    """which pairs of bins the sweep compares: nlist() interpreted whole on a block of cutoff-sized bins with one atom (or two) in each, with a distance kernel that
    accepts every pair it is shown.  The table returned then lists exactly the pairs that were examined: they must be the pairs of atoms whose bins touch (the same
    bin, or bins that differ by at most one along each direction), each found from one side -- however the half stencil, its early stop and its edge tests are spelt."""
    import numpy as np
    import itertools
    fn = ctx.fn(NL, 'nlist')
    loc = NL + '::nlist'
    R = sp.Rational
    n = 0
    for tag, dims, per_bin in (('4 x 3 x 2 bins, one atom in each', (4, 3, 2), 1), ('3 x 3 x 3 bins, two atoms in each (the scratch list must hold 14 bins)', (3, 3, 3), 2)):
        if per_bin == 2 and ctx.tier != 'thorough':
            cells = [(i, j, k) for i in range(dims[0]) for j in range(dims[1]) for k in range(dims[2])]
        else:
            cells = [(i, j, k) for i in range(dims[0]) for j in range(dims[1]) for k in range(dims[2])]
        pos, binof = [], []
        for c_ in cells:
            for a_ in range(per_bin):
                # bins are cutoff-sized and start 1.01 cutoff below the cell: [k - 1/100, k + 99/100) holds the points k + 1/4 and k + 3/5
                pos.append([c_[0] + (R(1, 4) if a_ == 0 else R(3, 5)), c_[1] + R(1, 4), c_[2] + (R(1, 4) if a_ == 0 else R(1, 2))])
                binof.append(c_)
        vects = [[dims[0], 0, 0], [0, dims[1], 0], [0, 0, dims[2]]]
        seen_pairs = []

        def accept_all(up, vp, vv, a, b, c):
            return np.array([sp.Integer(0)] * len(np.asarray(up, dtype=object)), dtype=object)
        try:
            tab, why = _run_nlist(ctx, vects, [0, 0, 0], (False, False, False), pos, 1, 2, 3, kernel=accept_all)
        except WouldRaise as e:
            tab, why = None, 'raises: %s' % e
        except Opaque as e:
            raise AnalysisError('nlist on the bin-block configuration (%s): %s' % (tag, e))
        n += 1
        if tab is None:
            ctx.ob('STENCIL', loc, '%s: the sweep runs to completion' % tag, False, why[:300], node=fn, key='pairs ' + tag[:20])
            continue
        natoms = len(pos)
        want = {i: sorted(j for j in range(natoms) if j != i and all(abs(binof[i][k] - binof[j][k]) <= 1 for k in range(3))) for i in range(natoms)}
        bad = []
        for i in range(natoms):
            cnt = int(tab[i, 0])
            row = [int(x) for x in tab[i, 1:cnt + 1]]
            if row != want[i]:
                miss = sorted(set(want[i]) - set(row))
                extra = sorted(set(row) - set(want[i]))
                bad.append('atom %d in bin %s: not compared with atoms in bins %s; compared with atoms in far bins %s' % (i, binof[i], sorted({binof[j] for j in miss})[:4], sorted({binof[j] for j in extra})[:4]))
        ctx.ob('STENCIL', loc, '%s, every pair shown to the distance test is accepted: the pairs examined are exactly the pairs of atoms whose bins touch (13 lower neighbour bins and the bin itself, '
               'bins beyond the grid skipped on all six faces), each stored once' % tag, not bad, '; '.join(bad[:3])[:400], node=fn, key='pairs ' + tag[:20])
    ctx.floor('STENCIL/pairs', n, 2)


def configurations(ctx):
    """nlist() interpreted whole on small exact configurations: the table returned lists, for every atom, exactly the atoms closer than the cutoff (periodic distance of C02),
    ascending, each once, whatever the storage sizes.  The distance kernel is modelled by its C02 specification (MINFOLD decides that it is that)."""
    import numpy as np
    fn = ctx.fn(NL, 'nlist')
    loc = NL + '::nlist'
    mod = ctx.mod(NL)
    helpers = {n.name: n for n in mod.body if isinstance(n, ast.FunctionDef) and n.name not in ('nlist', 'unique_rows2')}
    n = 0
    for tag, vects, origin, flags, pos, cutoff, isize, dsize, tier in _configurations():
        if tier == 'thorough' and ctx.tier != 'thorough':
            continue
        V, O, P = _exact(vects), _exact(origin), _exact(pos)
        cutoff = sp.nsimplify(cutoff)
        natoms = len(P)

        class Bx(PyStub):
            vects, origin = V, O

        class At(PyStub):
            pos = P

        class Sy(PyStub):
            box, atoms, pbc = Bx(), At(), tuple(flags)
        Sy.natoms = natoms
        seen = []

        def kernel(up, vp, vv, a, b, c):
            up, vp, vv = np.asarray(up, dtype=object), np.asarray(vp, dtype=object), np.asarray(vv, dtype=object)
            if up.shape != vp.shape or up.ndim != 2 or up.shape[1] != 3 or vv.shape != (3, 3):
                raise WouldRaise('dmag2_c called with position tables of shapes %s and %s' % (up.shape, vp.shape))
            seen.append(len(up))
            out = np.empty(len(up), dtype=object)
            for i in range(len(up)):
                out[i] = _periodic2(up[i], vp[i], vv, (bool(a), bool(b), bool(c)))
            return out

        def unique_rows(a):
            rows = sorted({tuple(int(x) for x in r) for r in np.asarray(a, dtype=object)})
            out = np.empty((len(rows), 3), dtype=object)
            for i, r in enumerate(rows):
                out[i] = [sp.Integer(x) for x in r]
            return out
        ev = SymEval(module_aliases(mod), funcs=dict(helpers))
        ev.globals = {'dmag2_c': kernel, 'unique_rows2': unique_rows}
        want = {i: sorted(j for j in range(natoms) if j != i and _periodic2(P[i], P[j], V, flags) < cutoff ** 2) for i in range(natoms)}
        n += 1
        try:
            paths = ev.run_fn(fn, [], dict(system=Sy(), cutoff=cutoff, initialsize=sp.Integer(isize), deltasize=sp.Integer(dsize)))
        except WouldRaise as e:
            ctx.ob('CONFIGURATIONS', loc, '%s: the list is built' % tag, False, str(e)[:300], node=fn, key=tag)
            continue
        except Opaque as e:
            raise AnalysisError('nlist on a model configuration (%s): %s' % (tag, e))
        rets = [q for q in paths if q.done == 'return']
        if len(paths) != 1 or len(rets) != 1:
            ctx.ob('CONFIGURATIONS', loc, '%s: the list is built' % tag, False, '%d paths, %d return' % (len(paths), len(rets)), node=fn, key=tag)
            continue
        tab = np.asarray(rets[0].ret, dtype=object)
        bad = []
        if tab.ndim != 2 or tab.shape[0] != natoms:
            bad.append('the table has shape %s for %d atoms' % (tab.shape, natoms))
        else:
            for i in range(natoms):
                try:
                    cnt = int(tab[i, 0])
                    row = [int(x) for x in tab[i, 1:cnt + 1]]
                except (TypeError, ValueError):
                    bad.append('row %d is not a count followed by atom ids' % i)
                    continue
                if cnt + 1 > tab.shape[1] or row != want[i]:
                    bad.append('atom %d lists %s, its neighbours are %s' % (i, row, want[i]))
        ctx.ob('CONFIGURATIONS', loc, '%s (%d atoms, cutoff %s, storage %d+%d): every row is the count followed by the ascending list of exactly the other atoms whose periodic distance is below the cutoff'
               % (tag, natoms, cutoff, isize, dsize), not bad, '; '.join(bad[:4]), node=fn, key=tag)
    ctx.floor('CONFIGURATIONS', n, 16 if ctx.tier != 'thorough' else 33)


def unique_rows(ctx):
    """unique_rows2 (the list of bins to sweep) interpreted on model tables of whole numbers: every distinct row once, nothing else.  CONFIGURATIONS models it by that specification."""
    import numpy as np
    fn = ctx.fn(NL, 'unique_rows2')
    loc = NL + '::unique_rows2'

    class DT(PyStub):
        itemsize = 8

        def __eq__(self, o):
            return isinstance(o, DT)

        def __hash__(self):
            return 1

    class Void(PyStub):
        def __init__(self, nbytes):
            self.nbytes = nbytes

    class Model(np.ndarray):
        _am_attrs = {}

    def table(rows, ncols):
        t = np.empty((len(rows), ncols), dtype=object)
        for i, r in enumerate(rows):
            t[i] = [sp.Integer(x) for x in r]
        t = t.view(Model)

        def view(dt):
            if isinstance(dt, DT):
                return t
            if isinstance(dt, Void) and dt.nbytes == 8 * ncols:
                return Keys([tuple(int(x) for x in r) for r in rows], ncols, (len(rows), 1))
            raise Opaque('view of a table of whole numbers as %r' % (dt,))
        t._am_attrs = {'dtype': DT(), 'view': view}
        return t

    class Keys(PyStub):
        """rows seen as opaque records (one per row)"""
        def __init__(self, rows, ncols, shape):
            self.rows, self.ncols, self.shape = rows, ncols, shape

        def view(self, dt):
            if not isinstance(dt, DT):
                raise Opaque('view of row records as %r' % (dt,))
            return table([[x] for r in self.rows for x in r], 1).reshape(-1) if self.rows else np.empty(0, dtype=object)

        def reshape(self, *a):
            return self

        def ravel(self):
            return self

    def unique(x, axis=None, **k):
        if k:
            raise Opaque('np.unique keyword(s) %s' % sorted(k))
        if isinstance(x, Keys):
            return Keys(sorted(set(x.rows)), x.ncols, (len(set(x.rows)),))
        a = np.asarray(x, dtype=object)
        if axis is None:
            return table([[v] for v in sorted({int(e) for e in a.flat})], 1).reshape(-1)
        if int(axis) == 0 and a.ndim == 2:
            return table(sorted({tuple(int(e) for e in r) for r in a}), a.shape[1])
        raise Opaque('np.unique along axis %s' % axis)
    cases = [('bins with repeats, out of order', [(2, 1, 0), (0, 0, 0), (2, 1, 0), (1, 0, 2), (0, 0, 0), (0, 2, 1), (1, 0, 2)]),
             ('a single bin', [(3, 3, 3)]),
             ('rows that share all their entries in another order', [(1, 2, 3), (3, 2, 1), (2, 1, 3), (1, 2, 3)]),
             ('rows that differ in one column only', [(1, 1, 1), (1, 1, 2), (1, 2, 1), (2, 1, 1), (1, 1, 1)])]
    n = 0
    for tag, rows in cases:
        ev = SymEval(module_aliases(ctx.mod(NL)))
        def dtype_of(spec):
            if isinstance(spec, tuple) and len(spec) == 2 and getattr(spec[0], 'name', None) == 'numpy.void':
                return Void(int(spec[1]))
            if isinstance(spec, str) and spec[:1] in ('V', 'S', 'a') and spec[1:].isdigit():      # 'V24': 24 raw bytes
                return Void(int(spec[1:]))
            if isinstance(spec, (DT, Void)):
                return spec
            if spec in ('int64', 'i8', '<i8', int) or getattr(spec, 'name', None) in ('numpy.int64', 'int'):
                return DT()
            raise Opaque('np.dtype(%r)' % (spec,))
        ev.np_override = {'numpy.unique': unique, 'numpy.dtype': dtype_of,
                          'numpy.int64': DT()}
        try:
            paths = [q for q in ev.run_fn(fn, [table(rows, 3)], {}) if q.done == 'return']
            res = paths[0].ret if len(paths) == 1 else None
            got = sorted(tuple(int(e) for e in r) for r in np.asarray(res, dtype=object)) if res is not None and np.ndim(res) == 2 else None
        except WouldRaise as e:
            got = 'raises: %s' % e
        except Opaque as e:
            raise AnalysisError('unique_rows2 on a model table (%s): %s' % (tag, e))
        n += 1
        ctx.ob('UNIQUE-ROWS', loc, '%s: the result holds every distinct row once and nothing else' % tag, got == sorted(set(rows)), 'got %s' % (got,), node=fn, key=tag)
    ctx.floor('UNIQUE-ROWS', n, 4)


def neighborlist(ctx):
    b = ctx.fn(NLP, 'NeighborList.build')
    loc = NLP + '::NeighborList'
    # build(): interpreted with a recording builder that hands back a model table; the views are read through the public accessors
    import numpy as np
    cls0 = ctx.fn(NLP, 'NeighborList')
    I0 = sp.Integer
    tab0 = np.array([[I0(v) for v in row] for row in [[2, 1, 12, -7], [0, -7, -7, -7], [3, 0, 2, 11]]], dtype=object)
    # the same table as it comes back when the rows had to grow (initial storage of one or two slots, a list of three): every neighbour is still there
    for isz in (1, 2, 3):
        objg = SymObj(cls0, {}, 'self')
        evg = SymEval(module_aliases(ctx.mod(NLP)))
        evg.globals = {'nlist': lambda system, cutoff, initialsize=20, deltasize=10: tab0.copy()}        # the parameter list of atomman.core.nlist
        try:
            evg.run_fn(b, [objg, 'SYSTEM', sp.Rational(7, 2)], {'initialsize': I0(isz), 'deltasize': I0(1)})
            rowsg = [[int(v) for v in evg.call_fn(ctx.fn(NLP, 'NeighborList.__getitem__'), [objg, I0(i)], {}, Path({}))] for i in range(3)]
            cg = [int(v) for v in evg.getattr(objg, 'coord', None, Path({}))]
            okg = rowsg == [[1, 12], [], [0, 2, 11]] and cg == [2, 0, 3]
            detg = 'coord %s lists %s' % (cg, rowsg)
        except (Opaque, WouldRaise, TypeError, ValueError, IndexError) as e:
            okg, detg = False, str(e)
        ctx.ob('NEIGHBORLIST', loc + '.build', 'initial storage %d, longest list 3: after build() every atom\'s list has as many entries as its coordination number says (nothing cut off the grown table)' % isz, bool(okg), detg, node=b,
               key='build grown %d' % isz)
    seen = []
    obj0 = SymObj(cls0, {}, 'self')
    ev0 = SymEval(module_aliases(ctx.mod(NLP)))
    ev0.globals = {'nlist': lambda system, cutoff, initialsize=20, deltasize=10: (seen.append((system, cutoff, {'initialsize': initialsize, 'deltasize': deltasize})), tab0)[1]}
    try:
        ev0.run_fn(b, [obj0, 'SYSTEM', sp.Rational(7, 2)], {'initialsize': I0(5), 'deltasize': I0(3)})
        okb = seen == [('SYSTEM', sp.Rational(7, 2), {'initialsize': 5, 'deltasize': 3})]
        coord = ev0.getattr(obj0, 'coord', None, Path({}))
        n_ = ev0.call_fn(ctx.fn(NLP, 'NeighborList.__len__'), [obj0], {}, Path({}))
        rows = [[int(v) for v in ev0.call_fn(ctx.fn(NLP, 'NeighborList.__getitem__'), [obj0, I0(i)], {}, Path({}))] for i in range(3)]
        last = [int(v) for v in ev0.call_fn(ctx.fn(NLP, 'NeighborList.__getitem__'), [obj0, I0(-1)], {}, Path({}))]
        okv = [int(v) for v in coord] == [2, 0, 3] and int(n_) == 3 and rows == [[1, 12], [], [0, 2, 11]] and last == [0, 2, 11]
        det0 = 'coord %s, len %s, lists %s' % ([int(v) for v in coord], n_, rows)
    except (Opaque, WouldRaise, TypeError, ValueError) as e:
        okb = okv = False
        det0 = str(e)
    ctx.ob('NEIGHBORLIST', loc + '.build', 'the system, the cutoff and the storage-size parameters are forwarded to the builder', bool(okb), str(seen), node=b)
    ctx.ob('NEIGHBORLIST', loc + '.__getitem__', 'after build(): coord is column 0 of the table, an atom\'s list is the next coord entries of its row (negative indices count from the end), the length is the number of atoms', bool(okv), det0,
           node=ctx.fn(NLP, 'NeighborList.__getitem__'), key='views')
    # the entry point on System: builds with itself as the system, or loads a saved list (then nothing but the model is passed on: load() takes no system)
    SYSF = 'atomman/core/System.py'
    nfn = ctx.fn(SYSF, 'System.neighborlist')
    initfn = ctx.fn(NLP, 'NeighborList.__init__')
    for tag, kw in (('cutoff and storage sizes', dict(cutoff=sp.Rational(7, 2), initialsize=I0(5))), ('a saved list', dict(model='nlist.dat'))):
        made_, loaded_, built_ = [], [], []
        me_ = SymObj(None, {}, 'self')

        def mknl(**k):
            # the real constructor, with recording build() / load()
            o_ = SymObj(cls0, {'build': lambda *a, **kk: built_.append((a, kk)), 'load': lambda *a, **kk: loaded_.append((a, kk))}, 'nl')
            sub = SymEval(module_aliases(ctx.mod(NLP)))
            live_ = [q for q in sub.run_fn(initfn, [o_], dict(k)) if q.done == 'return']
            if len(live_) != 1:
                raise WouldRaise('NeighborList(%s) is refused' % sorted(k))
            made_.append(k)
            return o_
        evn = SymEval(module_aliases(ctx.mod(SYSF)))
        evn.globals = {'NeighborList': mknl}
        try:
            live_n = [q for q in evn.run_fn(nfn, [me_], dict(kw)) if q.done == 'return']
            why_n = ''
        except WouldRaise as e:
            live_n, why_n = [], str(e)[:200]
        except (Opaque, TypeError) as e:
            live_n, why_n = [], '%s: %s' % (type(e).__name__, str(e)[:200])
        if 'model' in kw:
            okn = len(live_n) == 1 and not built_ and len(loaded_) == 1 and (loaded_[0] == (('nlist.dat',), {}) or loaded_[0] == ((), {'model': 'nlist.dat'}))
        else:
            okn = len(live_n) == 1 and not loaded_ and len(built_) == 1 and ((len(built_[0][0]) >= 1 and built_[0][0][0] is me_) or built_[0][1].get('system') is me_)
        ctx.ob('NEIGHBORLIST', SYSF + '::System.neighborlist', 'System.neighborlist with %s: %s' % (tag, 'the saved list is loaded (the model alone is handed on)' if 'model' in kw else 'a list is built for this very system with those settings'),
               bool(okn), why_n or 'built %s, loaded %s' % (built_, loaded_), node=nfn, key='system entry ' + tag)
    # dump and load: the writer's text is parsed by the analyser, and fed back to the reader
    import numpy as np
    d = ctx.fn(NLP, 'NeighborList.dump')
    ld = ctx.fn(NLP, 'NeighborList.load')
    cls = ctx.fn(NLP, 'NeighborList')
    I = sp.Integer
    for tag, table in (('uneven lists, an atom without neighbours, multi-digit ids', [[2, 1, 12, -7], [0, -7, -7, -7], [3, 0, 2, 11], [1, 104, -7, -7]]), ('single atom', [[0, -7]]), ('full rows', [[2, 1, 2], [2, 0, 2], [2, 0, 1]])):
        tab = np.array([[I(v) for v in row] for row in table], dtype=object)
        obj = SymObj(cls, {'_NeighborList__nlist': tab, '_NeighborList__coord': tab[:, 0], '_NeighborList__neighbors': tab[:, 1:]}, 'self')
        written = []

        class Out(PyStub):
            def __enter__(self):
                return self

            def write(self, t):
                if not isinstance(t, str):
                    raise Opaque('text written is not concrete: %r' % (t,))
                written.append(t)
        ev = SymEval(module_aliases(ctx.mod(NLP)))
        ev.globals = {'open': lambda f, mode='r', **k: Out()}
        try:
            ev.run_fn(d, [obj, 'nlist.dat'], {})
        except (Opaque, WouldRaise) as e:
            raise AnalysisError('NeighborList.dump (%s): %s' % (tag, e))
        text = ''.join(written)
        rows = [ln.split() for ln in text.split('\n') if ln.strip() and not ln.lstrip().startswith('#')]
        want = [[i] + [int(v) for v in row[1:1 + row[0]]] for i, row in enumerate(table)]
        ok = all(all(tok.lstrip('-').isdigit() for tok in r) for r in rows) and [[int(t) for t in r] for r in rows] == want and text.endswith('\n')
        ctx.ob('NEIGHBORLIST', loc + '.dump', '%s: one line per atom in order: the atom index, then exactly that atom\'s neighbour ids (none of the unused slots)' % tag, ok, repr(text[-120:]), node=d, key='dump ' + tag)
        # read it back
        lines = [ln + '\n' for ln in text.split('\n')[:-1]]

        class Fin(PyStub):
            # a binary stream with a read position: iterating reads from the position to the end, seek(0) rewinds
            def __init__(self):
                self.at = 0

            def __enter__(self):
                return self

            def __exit__(self, *a):
                return False

            def __iter__(self):
                rest = [_Bytes(x) for x in lines[self.at:]]
                self.at = len(lines)
                return iter(rest)

            def seek(self, k):
                self.at = int(k)
                return None

        class _Bytes(PyStub):
            def __init__(self, t):
                self.t = t

            def decode(self, enc='utf-8'):
                return self.t
        for source in ('a file name', 'an open binary stream'):
            obj2 = SymObj(cls, {}, 'self')
            ev = SymEval(module_aliases(ctx.mod(NLP)))
            stream = Fin()
            # uber_open_rmode opens a name afresh every time it is called; an open stream is handed through as it is (position kept, not closed)
            ev.globals = {'uber_open_rmode': (lambda m: Fin()) if source == 'a file name' else (lambda m: m)}
            ev.np_override = {'numpy.empty': lambda shape, **k: _unspec2(shape)}
            try:
                ev.run_fn(ld, [obj2, 'nlist.dat' if source == 'a file name' else stream], {})
                evr = SymEval(module_aliases(ctx.mod(NLP)))
                co = evr.getattr(obj2, 'coord', None, Path({}))
                got = [[int(co[i])] + [int(v) for v in evr.call_fn(ctx.fn(NLP, 'NeighborList.__getitem__'), [obj2, sp.Integer(i)], {}, Path({}))] for i in range(len(co))] if co is not None else None
                okl = got == [[row[0]] + [int(v) for v in row[1:1 + row[0]]] for row in table]
                det = str(got)
            except (Opaque, WouldRaise, TypeError, ValueError, IndexError) as e:
                okl, det = False, 'load of the dumped text fails: %s' % e
            ctx.ob('NEIGHBORLIST', loc + '.load', '%s, from %s: reading the dumped text back gives every atom the same count and the same neighbour ids in the same order (comment lines skipped)' % (tag, source), okl, det[:200], node=ld,
                   key='load %s %s' % (tag, source))

def _unspec2(shape):
    import numpy as np
    out = np.empty(tuple(int(x) for x in shape), dtype=object)
    out[...] = sp.Integer(-7)
    return out


def buffer_types(ctx):
    """a `double[:]` buffer local accepts float64 arrays only (anything else raises `Buffer dtype mismatch` before the list is built): the cell attributes bound to
    such locals are float64 whatever the caller gave the cell (whole-number origin, integer vectors), decided from how the Box class stores them"""
    from .. import dtypeflow
    fn = ctx.fn(NL, 'nlist')
    table = dtypeflow.class_attr_types(ctx.fn('atomman/core/Box.py', 'Box'))
    n = 0
    for s in ast.walk(fn):
        if isinstance(s, ast.Assign) and getattr(s, '_ctype', None) in ('memoryview', 'const memoryview') and getattr(s, '_cbase', None) == 'double' and isinstance(s.value, ast.Attribute):
            path = norm(s.value)
            base = s.value.value
            if isinstance(base, ast.Name):          # a local alias of the cell: box = system.box
                al = [a_ for a_ in fn.body if isinstance(a_, ast.Assign) and len(a_.targets) == 1 and isinstance(a_.targets[0], ast.Name) and a_.targets[0].id == base.id]
                if len(al) == 1:
                    path = '%s.%s' % (norm(al[0].value), s.value.attr)
            if not path.startswith('system.box.'):
                continue
            n += 1
            t = table.get('self.' + s.value.attr)
            ctx.need(t is not None, 'Box has no attribute or property %s' % s.value.attr)
            other = [a for a in t if a != dtypeflow.FLOAT]
            ctx.ob('BUFFER-TYPES', NL + '::nlist', 'the double buffer `%s` is bound to %s, which the Box class keeps as float64 whatever the caller supplied' % (norm(s.targets[0]), path), not other,
                   'Box.%s may have: %s' % (s.value.attr, dtypeflow.describe(t)), node=s, key='buffer types ' + path)
    ctx.floor('BUFFER-TYPES/nlist', n, 2)


def run(ctx):
    _cache.clear()
    ctx.explanation = ('C03: nlist.pyx is read through Cython\'s parser; reaching definitions decide that the swept bins are the populated bins; stencil, superbox, ghost acceptance, '
                       'membership test, sorted symmetric insertion and storage growth are structural/affine obligations on the lowered tree; NeighborList view layout and writer/reader agreement. '
                       'nlist() is also interpreted whole, in exact arithmetic, on scripted small configurations (CONFIGURATIONS): the table returned lists exactly the atoms below the cutoff. Not decided: configurations outside the scripted ones beyond what the structural rules imply.')
    from .c02 import minfold, DM
    from .. import readonly, lints
    ctx.run_rules([lambda c: sweep_fill(c) and None, geometry, membership, return_type, insertion, configurations, stencil_pairs, unique_rows, neighborlist,
                   lambda c: minfold(c, DM, 'dmag2_c', False), lambda c: readonly.rule(c, NL, floor=2) and None,
                   lambda c: lints.c_double(c, 'C-DOUBLE', NL, floor=18), buffer_types])
