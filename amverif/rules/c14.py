"""C14 Surface-oriented cells, free surfaces and stacking faults.

Decided statically (fragments of the generators are evaluated on symbolic indices / model cells with recording stubs):
 * PLANE-TABLE: for all 26 zero/sign patterns of (hkl) the two starting lattice vectors of free_surface_basis satisfy the zone
   law, are integer, and s·(a x b) is a positive multiple of (h,k,l) (normal along +g); the table equals the one in
   tools/miller.plane_crystal_to_cartesian entry by entry; the normal is s·(a·cell) x (b·cell).
 * SEARCH: in-plane candidates are those with cart·normal = 0; the first in-plane vector is the shortest; the out-of-plane vector
   starts from an angle below 90 degrees (positive component along the normal) and is reduced by its gcd; the second in-plane
   vector must not be parallel to the first and must make (a x b)·normal > 0 (right-handed); the three cutboxvector arms are the
   cyclic permutations with the out-of-plane vector at the named position; 4-index output through vector3to4.
 * FREE-SURFACE: the cut axis index follows the letter; a rotated cell whose in-plane vectors have any component along the cut
   axis is refused (each of the two vectors separately); the offered shifts place the cell boundary exactly midway between
   consecutive atomic planes (model layer stacks, incl. a plane at the cell edge); surface(): supersize -> shift -> wrap ->
   periodic everywhere but across the cut; vacuum added to the cut diagonal with the origin moved by half; minwidth/even.
 * FAULT: relative and Cartesian fault positions define each other through origin + rel·width and the same strict `>` mask on the
   cut coordinate; fault() works on a copy, moves exactly the atoms above the plane by a1·a1 + a2·a2 + out·n, wraps; shift
   vectors with a component along the cut axis are refused by both setters.
Declined: that the rotated cell contains the same crystal (System.rotate, C04) and the geometry of a concrete cell.
"""
import ast
import itertools

import numpy as np
import sympy as sp

from ..core import norm, calls_in, AnalysisError, walk_no_nested
from ..symx import SymEval, SymObj, PyStub, Path, Opaque, WouldRaise, ModelError, module_aliases, symarray, is_zero, equal, arr, is_arr

FSB = 'atomman/defect/free_surface_basis.py'
FS = 'atomman/defect/FreeSurface.py'
SF = 'atomman/defect/StackingFault.py'
MIL = 'atomman/tools/miller.py'


def _table_stmt(fn, var):
    """the if/elif tree that dispatches on the zero pattern of `var`"""
    for s in fn.body:
        if isinstance(s, ast.If) and norm(s.test).replace(' ', '') == '%s[0]!=0' % var:
            return s
    return None


def _eval_table(ctx, rel, stmt, var, idx):
    ev = SymEval(module_aliases(ctx.mod(rel)))
    lcm_args = []
    M = sp.Symbol('m', positive=True, integer=True)
    ev.np_override = {'numpy.lcm': lambda *a: (lcm_args.extend(a) or M), 'numpy.lcm.reduce': lambda a: (lcm_args.extend(list(a)) or M)}
    paths = ev.block([stmt], [Path({var: idx})])
    live = [p for p in paths if p.done is None]
    if len(live) != 1:
        return None, lcm_args, M
    return live[0].env, lcm_args, M


def plane_table(ctx):
    fn = ctx.fn(FSB, 'free_surface_basis')
    loc = FSB + '::free_surface_basis'
    st = _table_stmt(fn, 'hkl')
    ctx.need(st is not None, 'free_surface_basis: the zero-pattern table on hkl is not recognisable')
    mouter = ctx.fn(MIL, 'plane_crystal_to_cartesian')
    minner = [n for n in mouter.body if isinstance(n, ast.FunctionDef)]
    ctx.need(len(minner) == 1, 'miller.plane_crystal_to_cartesian: nested helper not found')
    mst = _table_stmt(minner[0], 'indices')
    ctx.need(mst is not None, 'miller: zero-pattern table not recognisable')
    H = [sp.Symbol(n, positive=True, integer=True) for n in 'HKL']
    n = 0
    for pat in itertools.product((-1, 0, 1), repeat=3):
        if pat == (0, 0, 0):
            continue
        n += 1
        idx = arr([sp.Integer(0) if p == 0 else p * H[i] for i, p in enumerate(pat)])
        tag = '(%s)' % ' '.join({-1: '-' + 'hkl'[i], 0: '0', 1: 'hkl'[i]}[p] for i, p in enumerate(pat))
        try:
            env, lcm_args, M = _eval_table(ctx, FSB, st, 'hkl', idx)
            menv, _l, _m = _eval_table(ctx, MIL, mst, 'indices', idx)
        except Opaque as e:
            raise AnalysisError('plane table %s: %s' % (tag, e))
        if env is None:
            ctx.ob('PLANE-TABLE', loc, '%s: two in-plane starting vectors are produced' % tag, False, node=st, key=tag)
            continue
        a, b, s, m = env.get('a_uvw'), env.get('b_uvw'), env.get('s'), env.get('m')
        ctx.need(a is not None and b is not None and s is not None, 'free_surface_basis no longer names a_uvw, b_uvw, s in its table')
        hkl = [sp.sympify(v) for v in idx]
        za = sp.simplify(sum(x * y for x, y in zip(a, hkl)))
        zb = sp.simplify(sum(x * y for x, y in zip(b, hkl)))
        cr = [sp.simplify(s * c) for c in np.cross(a, b)]
        par = all(sp.simplify(c) == 0 for c in np.cross(arr(cr), arr(hkl)))
        dot = sp.simplify(sum(x * y for x, y in zip(cr, hkl)))
        ctx.ob('PLANE-TABLE', loc, '%s: both starting vectors obey the zone law and s·(a×b) is a positive multiple of (h,k,l): the reported normal points along +g' % tag,
               za == 0 and zb == 0 and par and bool(dot.is_positive), 'h·a = %s, h·b = %s, s(a×b) = %s' % (za, zb, cr), node=st, key=tag)
        divisors = set()
        for comp in list(a) + list(b):
            num, den = sp.fraction(sp.together(sp.sympify(comp)))
            divisors |= set(den.free_symbols)
        okm = (not divisors) or ({sy for x in lcm_args for sy in sp.sympify(x).free_symbols} >= divisors and m == M)
        ctx.ob('PLANE-TABLE', loc, '%s: the starting vectors are integer (every index they divide by is covered by the least common multiple)' % tag, okm, 'divisors %s, lcm of %s' % (divisors, lcm_args), node=st, key=tag + ' integer')
        oks = menv is not None and all(sp.simplify(x - y) == 0 for x, y in zip(list(a) + list(b) + [s], list(menv.get('a_uvw', [])) + list(menv.get('b_uvw', [])) + [menv.get('s')]))
        ctx.ob('PLANE-TABLE', loc, '%s: same vectors and sign as tools/miller.plane_crystal_to_cartesian (one definition of the plane normal)' % tag, bool(oks), node=st, key=tag + ' sibling')
    ctx.floor('PLANE-TABLE', n, 26)
    # all zeros refused
    ev = SymEval(module_aliases(ctx.mod(FSB)))
    paths = ev.block([st], [Path({'hkl': arr([0, 0, 0])})])
    ctx.ob('PLANE-TABLE', loc, '(000) is refused', all(p.done == 'raise' for p in paths), node=st, key='000')
    # the normal
    pn = [s for s in fn.body if isinstance(s, ast.Assign) and norm(s.targets[0]) == 'planenormal']
    ctx.need(len(pn) == 1, 'free_surface_basis: definition of planenormal not found')
    V = symarray('v', (3, 3), real=True)
    av, bv = symarray('a', (3,), real=True), symarray('b', (3,), real=True)
    sg = sp.Symbol('sg', real=True)
    ev = SymEval(module_aliases(ctx.mod(FSB)))
    ev.globals = {'vector_crystal_to_cartesian': lambda u, box: np.asarray(u, dtype=object).dot(box)}
    q = ev.block([pn[0]], [Path({'a_uvw': av, 'b_uvw': bv, 's': sg, 'box': V})])
    got = q[0].env.get('planenormal')
    ctx.ob('PLANE-TABLE', loc, 'the Cartesian normal is s·(a·cell) × (b·cell) in the (primitive) cell the indices refer to', got is not None and equal(np.asarray(got, dtype=object), sg * np.cross(av.dot(V), bv.dot(V)), deep=False), node=pn[0], key='normal')
    # which cell: the head of the function (up to the search) evaluated with token cells
    gen_ = [k for k, s_ in enumerate(fn.body) if isinstance(s_, ast.FunctionDef)]
    start = [gen_[-1]] if gen_ else [k for k, s_ in enumerate(fn.body) if isinstance(s_, ast.Assign) and norm(s_.targets[0]) == 'a_mag']
    ctx.need(len(start) == 1, 'free_surface_basis: start of the search section not found')
    head = [s_ for s_ in fn.body[:start[0]] if not isinstance(s_, ast.FunctionDef)]
    for tag, setting in (('no conventional setting', None), ('face-centred conventional setting', 'f'), ('body-centred conventional setting', 'i')):
        used = []

        class PB(PyStub):
            def ishexagonal(self):
                return False

        class CB(PyStub):
            def ishexagonal(self):
                return False
        pbox, cbox = PB(), CB()

        class Rot(PyStub):
            box = cbox

        class Sy(PyStub):
            def __init__(self, box=None):
                self.b = box

            def rotate(self, uvws):
                return Rot()

        class Mil(PyStub):
            def vector_conventional_to_primitive(self, u, setting=None):
                return np.asarray(u, dtype=object) * 2 if np.ndim(u) == 1 else u

            def plane4to3(self, u):
                return u

        def v2c(u, box):
            used.append(box)
            return np.asarray(u, dtype=object)
        ev = SymEval(module_aliases(ctx.mod(FSB)))
        ev.globals = {'vector_crystal_to_cartesian': v2c, 'miller': Mil(), 'System': Sy, 'int': lambda x: x}
        ev.np_override = {'numpy.allclose': lambda a, b, **k: True, 'numpy.lcm.reduce': lambda v: sp.ilcm(*[int(x) for x in v]), 'numpy.lcm': lambda a, b: sp.ilcm(int(a), int(b)),
                          'numpy.max': lambda v: max(int(x) for row in v for x in np.ravel(row))}
        try:
            q = ev.block(head, [Path({'hkl': arr([1, 1, 1]), 'box': pbox, 'cutboxvector': 'c', 'maxindex': None, 'return_hexagonal': None, 'return_planenormal': True, 'conventional_setting': setting,
                                      'tol': sp.Rational(1, 10 ** 8)})])
        except Opaque as e:
            raise AnalysisError('free_surface_basis head (%s): %s' % (tag, e))
        live = [p_ for p_ in q if p_.done is None]
        ok = len(live) == 1 and live[0].env.get('box') is pbox and len(used) >= 2 and all(b_ is pbox for b_ in used)
        ctx.ob('PLANE-TABLE', loc, '%s: the plane normal, and every Cartesian conversion after it, is taken in the (primitive) cell the returned indices refer to' % tag, bool(ok),
               'conversions used %s; cell in force after the head: %s' % ([type(b_).__name__ for b_ in used], type(live[0].env.get('box')).__name__ if live else None), node=pn[0], key='cell ' + tag)
    # Miller-Bravais input: (hkil) is a *plane*: its three-index form drops i (the direction conversion 2h+k, 2k+h is for lattice vectors)
    conv = []

    class HB(PyStub):
        def ishexagonal(self):
            return True

    class MilH(PyStub):
        def plane4to3(self, u):
            conv.append('plane4to3')
            u = np.asarray(u, dtype=object)
            return u[..., [0, 1, 3]]

        def vector4to3(self, u):
            conv.append('vector4to3')
            u = np.asarray(u, dtype=object)
            return np.array([2 * u[0] + u[1], 2 * u[1] + u[0], u[3]], dtype=object)

        def vector_conventional_to_primitive(self, u, setting=None):
            return u
    ev = SymEval(module_aliases(ctx.mod(FSB)))
    ev.globals = {'vector_crystal_to_cartesian': lambda u, box: np.asarray(u, dtype=object), 'miller': MilH(), 'int': lambda x: x}
    ev.np_override = {'numpy.allclose': lambda a, b, **k: True, 'numpy.lcm.reduce': lambda v: sp.ilcm(*[int(x) for x in v]), 'numpy.lcm': lambda a, b: sp.ilcm(int(a), int(b)),
                      'numpy.max': lambda v: max(int(x) for row in v for x in np.ravel(row))}
    try:
        q = ev.block(head, [Path({'hkl': arr([1, 0, -1, 2]), 'box': HB(), 'cutboxvector': 'c', 'maxindex': None, 'return_hexagonal': None, 'return_planenormal': True, 'conventional_setting': None,
                                  'tol': sp.Rational(1, 10 ** 8)})])
        live = [p_ for p_ in q if p_.done is None]
        h3 = live[0].env.get('hkl') if len(live) == 1 else None
        ok4 = conv == ['plane4to3'] and h3 is not None and [int(x) for x in np.ravel(h3)] == [1, 0, 2]
    except (Opaque, WouldRaise, TypeError, ValueError) as e:
        ok4, h3 = False, str(e)
    ctx.ob('PLANE-TABLE', loc, 'a four-index plane (10-12) in a hexagonal cell is reduced as a plane: (h k l) = (1 0 2)', bool(ok4), 'conversions called %s, indices used %s' % (conv, h3 if isinstance(h3, str) else (None if h3 is None else list(np.ravel(h3)))),
           node=fn, key='hkil')


def _search_eval(ctx, fn, V, normal, maxindex, order=None, hkl=None, numpy_close=False):
    """interpret the two candidate-search loops on a concrete cell; the candidate generator is replaced by an explicit list"""
    # the search section: everything between the candidate generator (a nested def) and the arrangement by cutboxvector
    gen = [k for k, s in enumerate(fn.body) if isinstance(s, ast.FunctionDef)]
    start = [gen[-1] + 1] if gen else [k for k, s in enumerate(fn.body) if isinstance(s, ast.Assign) and norm(s.targets[0]) == 'a_mag']
    end = [k for k, s in enumerate(fn.body) if isinstance(s, ast.If) and 'cutboxvector' in norm(s.test) and k > (start[0] if start else 0)][:1]
    if len(start) != 1 or len(end) != 1:
        raise AnalysisError('free_surface_basis: the search section is not recognisable')
    stmts = [s for s in fn.body[start[0]:end[0]] if not isinstance(s, ast.FunctionDef)]
    cands = [np.array([i, j, k], dtype=object) for k in range(-maxindex, maxindex + 1) for j in range(-maxindex, maxindex + 1) for i in range(-maxindex, maxindex + 1) if (i, j, k) != (0, 0, 0)]
    if order in ('reversed', 'negated-reversed'):
        cands = cands[::-1]
    if order in ('negated', 'negated-reversed'):
        cands = [-c for c in cands]
    if order == 'rotated':
        cands = cands[len(cands) // 3:] + cands[:len(cands) // 3]
    cands = [arr([sp.Integer(int(x)) for x in c]) for c in cands]

    def angle(a, b):
        a, b = np.asarray(a, dtype=object), np.asarray(b, dtype=object)
        c = sp.nsimplify(a.dot(b)) / sp.sqrt(sp.nsimplify(a.dot(a)) * sp.nsimplify(b.dot(b)))
        c = sp.simplify(c)
        if c == 1:
            return sp.Integer(0)
        if c == -1:
            return sp.Integer(180)
        return sp.acos(c) * 180 / sp.pi
    ev = SymEval(module_aliases(ctx.mod(FSB)))
    def v2c(u, box):
        if box != 'BOX':
            raise WouldRaise('a Cartesian conversion in the search uses another cell than the one in force (%r)' % (box,))
        return np.asarray(u, dtype=object).dot(V)
    ev.globals = {'gen_vector': lambda n: list(cands), 'vector_crystal_to_cartesian': v2c, 'vect_angle': angle}

    def isclose(a, b, rtol=sp.Rational(1, 10 ** 5), atol=sp.Rational(1, 10 ** 8), **k):
        if isinstance(a, (list, tuple, np.ndarray)) or isinstance(b, (list, tuple, np.ndarray)):
            A_, B_ = np.broadcast_arrays(np.asarray(a, dtype=object), np.asarray(b, dtype=object))
            return np.array([isclose(x_, y_, rtol=rtol, atol=atol) for x_, y_ in zip(A_.ravel(), B_.ravel())], dtype=bool).reshape(A_.shape)
        if numpy_close:
            # concrete numbers, numpy's own test |a - b| <= atol + rtol·|b| (40-digit evaluation): an absolute tolerance on a quantity that carries a length shows at small scales
            return bool(sp.N(sp.Abs(sp.sympify(a) - sp.sympify(b)), 40) <= sp.N(sp.sympify(atol) + sp.sympify(rtol) * sp.Abs(sp.sympify(b)), 40))
        return bool(sp.simplify(sp.sympify(a) - b) == 0)

    def cmp_decide(text, v, p):
        # comparisons between exact algebraic numbers: decided by 40-digit evaluation
        try:
            if isinstance(v, sp.core.relational.Relational):
                d = sp.N(v.lhs - v.rhs, 40)
                if abs(d) < sp.Float('1e-30'):
                    d = 0
                return {sp.StrictLessThan: d < 0, sp.StrictGreaterThan: d > 0, sp.LessThan: d <= 0, sp.GreaterThan: d >= 0}.get(type(v))
        except Exception:
            return None
        return None
    ev.decide = cmp_decide
    ev.np_override = {'numpy.isclose': isclose, 'numpy.linalg.norm': lambda v: sp.sqrt(sp.nsimplify(np.asarray(v, dtype=object).dot(np.asarray(v, dtype=object)))),
                      'numpy.gcd.reduce': lambda v: sp.Integer(int(np.gcd.reduce([int(x) for x in v])))}
    # the other locals of the head in scope during the search: the Miller indices as given (indices on the *conventional* cell when a centred setting is named, while the
    # search runs over lattice vectors of the cell in force), the sign of the normal, the in-plane starting vectors
    env = {'box': 'BOX', 'planenormal': normal, 'maxindex': maxindex, 'hkl': arr(list(hkl)) if hkl is not None else arr([sp.Symbol('h'), sp.Symbol('k'), sp.Symbol('l')]),
           's': sp.Integer(1), 'm': sp.Integer(1), 'conventional_setting': 'SETTING', 'primitive_box': 'BOX'}
    if numpy_close:
        # exact arithmetic throughout (no rounding of tiny rationals to "nice" numbers)
        ev.np_override['numpy.linalg.norm'] = lambda v: sp.sqrt(sp.together(sum(sp.sympify(x) ** 2 for x in np.ravel(np.asarray(v, dtype=object)))))
        ev.globals['vect_angle'] = lambda a, b: (lambda c: sp.Integer(0) if c == 1 else sp.Integer(180) if c == -1 else sp.acos(c) * 180 / sp.pi)(
            sp.simplify(np.asarray(a, dtype=object).dot(np.asarray(b, dtype=object)) / sp.sqrt(np.asarray(a, dtype=object).dot(np.asarray(a, dtype=object)) * np.asarray(b, dtype=object).dot(np.asarray(b, dtype=object)))))
    q = ev.block(stmts, [Path(env)])
    live = [p for p in q if p.done is None]
    if len(live) != 1:
        return None
    e = live[0].env
    return e.get('a_uvw'), e.get('b_uvw'), e.get('c_uvw'), cands


def search(ctx):
    fn = ctx.fn(FSB, 'free_surface_basis')
    loc = FSB + '::free_surface_basis'
    R = sp.Rational
    cells = [('cubic cell, (111)', np.array(sp.eye(3).tolist(), dtype=object), arr([1, 1, 1]), 1, None), ('cubic cell, (111), candidates in reverse order', np.array(sp.eye(3).tolist(), dtype=object), arr([1, 1, 1]), 1, 'reversed'),
             ('cubic cell, (111), candidates negated', np.array(sp.eye(3).tolist(), dtype=object), arr([1, 1, 1]), 1, 'negated'),
             ('cubic cell, (111), candidates negated and reversed', np.array(sp.eye(3).tolist(), dtype=object), arr([1, 1, 1]), 1, 'negated-reversed'),
             ('cubic cell, (111), candidates rotated', np.array(sp.eye(3).tolist(), dtype=object), arr([1, 1, 1]), 1, 'rotated'),
             ('cubic cell, (001), candidates negated', np.array(sp.eye(3).tolist(), dtype=object), arr([0, 0, 1]), 1, 'negated'),
             ('orthorhombic 1x2x3 cell, (110)', np.array([[1, 0, 0], [0, 2, 0], [0, 0, 3]], dtype=object), arr([1, R(1, 2), 0]), 1, None),
             ('tilted cell, (001)', np.array([[2, 0, 0], [1, 2, 0], [R(1, 2), R(1, 2), 3]], dtype=object), arr([0, 0, 1]), 1, None),
             ('cubic cell, (-1 2 0)', np.array(sp.eye(3).tolist(), dtype=object), arr([-1, 2, 0]), 2, None)]
    HKL = {'cubic cell, (111)': (1, 1, 1), 'cubic cell, (001), candidates negated': (0, 0, 1), 'orthorhombic 1x2x3 cell, (110)': (1, 1, 0), 'tilted cell, (001)': (0, 0, 1), 'cubic cell, (-1 2 0)': (-1, 2, 0)}
    cells = [c + (HKL.get(c[0], (1, 1, 1)),) for c in cells]
    # centred settings: the search runs in the primitive cell while (hkl) stays indexed on the conventional cell -- face-centred cubic, the conventional (100) and (110) planes
    fccp = np.array([[0, R(1, 2), R(1, 2)], [R(1, 2), 0, R(1, 2)], [R(1, 2), R(1, 2), 0]], dtype=object)
    cells += [('primitive cell of a face-centred cubic lattice, conventional (100)', fccp, arr([1, 0, 0]), 2, None, (1, 0, 0)),
              ('primitive cell of a face-centred cubic lattice, conventional (110)', fccp, arr([1, 1, 0]), 2, None, (1, 1, 0)),
              ('primitive cell of a body-centred cubic lattice, conventional (100)', np.array([[R(-1, 2), R(1, 2), R(1, 2)], [R(1, 2), R(-1, 2), R(1, 2)], [R(1, 2), R(1, 2), R(-1, 2)]], dtype=object), arr([1, 0, 0]), 2, None, (1, 0, 0))]
    n = 0
    for tag, V, normal, mi, order, hkl_ in cells:
        n += 1
        try:
            res = _search_eval(ctx, fn, V, normal, mi, order, hkl_)
        except WouldRaise as e:
            ctx.ob('SEARCH', loc, '%s: the search runs to completion' % tag, False, str(e), node=fn, key=tag)
            continue
        except Opaque as e:
            raise AnalysisError('free_surface_basis search (%s): %s' % (tag, e))
        if res is None or any(v is None for v in res[:3]):
            ctx.ob('SEARCH', loc, '%s: three lattice vectors are found' % tag, False, node=fn, key=tag)
            continue
        a, b, c, cands = res
        cart = lambda u: np.asarray(u, dtype=object).dot(V)
        dotn = lambda u: sp.simplify(cart(u).dot(normal))
        length2 = lambda u: sp.nsimplify(cart(u).dot(cart(u)))
        inplane = [u for u in cands if dotn(u) == 0]
        bad = []
        if dotn(a) != 0 or dotn(b) != 0:
            bad.append('in-plane vectors are not in the plane: a·n = %s, b·n = %s' % (dotn(a), dotn(b)))
        if not (dotn(c) > 0):
            bad.append('the out-of-plane vector does not point along the normal: c·n = %s' % dotn(c))
        tri = sp.simplify(np.cross(cart(a), cart(b)).dot(normal))
        if not (tri > 0):
            bad.append('(a × b)·n = %s: not right-handed' % tri)
        if inplane and length2(a) != min(length2(u) for u in inplane):
            bad.append('a is not a shortest in-plane lattice vector')
        adm = [u for u in inplane if sp.simplify(np.cross(cart(a), cart(u)).dot(normal)) > 0]
        if adm and length2(b) != min(length2(u) for u in adm):
            bad.append('b is not a shortest admissible in-plane vector')
        cosang = lambda u: dotn(u) / sp.sqrt(length2(u))
        outp = [u for u in cands if dotn(u) != 0]
        if outp and sp.N(cosang(c) - max(sp.N(cosang(u), 30) for u in outp), 30) < -sp.Float('1e-20'):
            bad.append('c is not the lattice vector closest to the normal')
        g = int(np.gcd.reduce([int(x) for x in c]))
        if g != 1:
            bad.append('c is not reduced by its gcd (%s)' % (list(c),))
        if any(sp.nsimplify(x) != int(sp.nsimplify(x)) for u in (a, b, c) for x in u):
            bad.append('non-integer indices')
        ctx.ob('SEARCH', loc, '%s: the vectors found are integer; a and b lie in the plane with a the shortest and b the shortest that makes (a, b, normal) right-handed; c is the reduced lattice vector closest to +normal' % tag,
               not bad, '; '.join(bad)[:300] + ' [a=%s b=%s c=%s]' % (list(a), list(b), list(c)), node=fn, key=tag)
    # the same cubic cell in other units of length: the vectors found are lattice indices, they do not depend on the unit (closeness tests with numpy's semantics here)
    eye = np.array(sp.eye(3).tolist(), dtype=object)
    for pl, nrm_ in (((1, 1, 1), arr([1, 1, 1])), ((2, 1, 0), arr([2, 1, 0]))):
        ref, bad = None, []
        for sc in (sp.Integer(1), R(1, 10 ** 4), R(1, 10 ** 10), sp.Integer(10 ** 6)):
            try:
                # the plane normal the head computes is a cross product of two lattice vectors: it scales with the square of the unit
                res = _search_eval(ctx, fn, eye * sc, nrm_ * sc ** 2, 2, None, pl, numpy_close=True)
                got = None if res is None or any(v is None for v in res[:3]) else [[int(x) for x in v] for v in res[:3]]
            except WouldRaise as e:
                got = 'raises: %s' % e
            except Opaque as e:
                raise AnalysisError('free_surface_basis search at scale %s: %s' % (sc, e))
            if ref is None:
                ref = got
            elif got != ref:
                bad.append('lengths x %s: %s' % (sc, got if got is not None else 'a vector is not found (the search is refused)'))
        n += 1
        ctx.ob('SEARCH', loc, 'cubic cell, (%s): the same three lattice vectors whatever the unit of length (cell scaled by 1e-4, 1e-10, 1e+6)' % ' '.join(map(str, pl)), ref is not None and not isinstance(ref, str) and not bad,
               '; '.join(bad)[:300] + ' [at scale 1: %s]' % (ref,), node=fn, key='scale %s' % (pl,))
    ctx.floor('SEARCH', n, 5)
    asserts = [norm(s.test) for s in fn.body if isinstance(s, ast.Assert)]
    ctx.ob('SEARCH', loc, 'a failed search is refused (all three vectors must have been found)', all(x in asserts for x in ('a_uvw is not None', 'c_uvw is not None', 'b_uvw is not None')), str(asserts), node=fn, key='asserts')
    # cutboxvector arms
    # the statements between the last refusal of a failed search and the Miller-Bravais conversion orient the rows
    last = max([i for i, s in enumerate(fn.body) if isinstance(s, ast.Assert)], default=None)
    conv = [i for i, s in enumerate(fn.body) if isinstance(s, ast.If) and 'return_hexagonal' in norm(s.test)]
    ctx.need(last is not None and conv and conv[-1] > last + 1, 'free_surface_basis: the statements that orient the rows by cutboxvector were not found')
    tail = fn.body[last + 1:conv[-1]]
    A, B, C = symarray('a', (3,)), symarray('b', (3,)), symarray('c', (3,))
    for letter, want, pos in (('c', (A, B, C), 2), ('b', (B, C, A), 1), ('a', (C, A, B), 0)):
        ev = SymEval(module_aliases(ctx.mod(FSB)))
        try:
            q = ev.block(tail, [Path({'cutboxvector': letter, 'a_uvw': A, 'b_uvw': B, 'c_uvw': C})])
        except WouldRaise:
            q = []
        q = [x for x in q if not getattr(x, 'returned', False)]
        u = q[0].env.get('uvws') if len(q) == 1 else None
        ok = u is not None and np.shape(u) == (3, 3) and all(equal(np.asarray(u[i], dtype=object), want[i], deep=False) for i in range(3))
        ctx.ob('SEARCH', loc, "cutboxvector='%s': rows are a cyclic permutation of (in-plane 1, in-plane 2, out-of-plane) with the out-of-plane vector in row %d" % (letter, pos), bool(ok), node=tail[0], key='arm ' + letter)
    ret = norm(fn).replace(' ', '')
    ctx.ob('SEARCH', loc, 'Miller-Bravais output goes through vector3to4; the normal is returned on request', 'ifreturn_hexagonal:uvws=miller.vector3to4(uvws)' in ret.replace('\n', '') and 'return(uvws,planenormal)' in ret, node=fn, key='return')


def _is_gt(rel, lhs_minus_rhs):
    """rel states  lhs - rhs > 0  strictly"""
    import sympy as _sp
    if isinstance(rel, _sp.StrictGreaterThan):
        return is_zero((rel.lhs - rel.rhs) - lhs_minus_rhs)
    if isinstance(rel, _sp.StrictLessThan):
        return is_zero((rel.rhs - rel.lhs) - lhs_minus_rhs)
    return False


class Bx(PyStub):
    def __init__(self, vects, origin=None):
        self.vects_ = np.array(vects, dtype=object)
        self.origin_ = np.array(origin if origin is not None else [0, 0, 0], dtype=object)

    @property
    def vects(self):
        return self.vects_.copy()

    @property
    def origin(self):
        return self.origin_.copy()

    @property
    def avect(self):
        return self.vects_[0].copy()

    @property
    def bvect(self):
        return self.vects_[1].copy()

    @property
    def cvect(self):
        return self.vects_[2].copy()


class At(PyStub):
    def __init__(self, pos):
        self.pos = pos


def _unique(a, return_index=False):
    vals = [sp.nsimplify(v) for v in np.ravel(a)]
    order = sorted(range(len(vals)), key=lambda i: (float(vals[i]), i))
    uniq, idx = [], []
    for i in order:
        if not uniq or vals[i] != uniq[-1]:
            uniq.append(vals[i])
            idx.append(i)
    u = arr(uniq)
    return (u, np.array(idx)) if return_index else u


def free_surface(ctx):
    fn = ctx.fn(FS, 'FreeSurface.__init__')
    cls = ctx.fn(FS, 'FreeSurface')
    loc = FS + '::FreeSurface.__init__'
    aliases = module_aliases(ctx.mod(FS))
    R = sp.Rational

    def run(letter, vects, coords, width_axis):
        pos = np.array([[R(1, 3), R(1, 7), R(2, 5)] for _ in coords], dtype=object)
        for r, c in enumerate(coords):
            pos[r, width_axis] = c

        class RC(PyStub):
            box = Bx(vects)
            atoms = At(pos)

        class UC(PyStub):
            box = 'UBOX'

            def rotate(self, uvws, return_transform=False):
                return RC(), 'TRANSFORM'
        obj = SymObj(cls, {'set_shift': lambda **k: None}, 'self')
        ev = SymEval(aliases)

        class Mil(PyStub):
            def vector_primitive_to_conventional(self, u, s):
                return u
        ev.globals = {'free_surface_basis': lambda *a, **k: np.array(sp.eye(3).tolist(), dtype=object), 'miller': Mil()}
        ev.np_override = {'numpy.unique': _unique, 'numpy.log10': lambda x: sp.log(x, 10), 'numpy.append': lambda a, v: arr(list(np.ravel(a)) + [v]),
                          'numpy.sort': lambda a: arr(sorted([sp.nsimplify(v) for v in np.ravel(a)], key=float)),
                          'numpy.isclose': lambda a, b, rtol=0, atol=0, **k: bool(sp.Abs(sp.sympify(a) - b) <= atol)}
        paths = ev.run_fn(fn, [obj, [1, 1, 1], UC()], dict(cutboxvector=letter, tol=R(1, 10 ** 7)))
        return obj, paths
    # refusals: each in-plane vector separately
    n = 0
    for letter, ci in (('a', 0), ('b', 1), ('c', 2)):
        others = [i for i in range(3) if i != ci]
        for which in (None, others[0], others[1]):
            n += 1
            vects = [[sp.Integer(0)] * 3 for _ in range(3)]
            for i in range(3):
                vects[i][i] = sp.Integer(4)
            if which is not None:
                vects[which][ci] = sp.Integer(1)
            try:
                obj, paths = run(letter, vects, [0, 1, 2], ci)
            except Opaque as e:
                raise AnalysisError('FreeSurface.__init__ (%s): %s' % (letter, e))
            live = [p for p in paths if p.done == 'return']
            if which is None:
                ok = len(live) == 1 and obj.attrs.get('_FreeSurface__cutindex') == ci
                ctx.ob('FREE-SURFACE', loc, "cutboxvector='%s': the cut axis is Cartesian axis %d and an aligned rotated cell is accepted" % (letter, ci), ok, node=fn, key='accept ' + letter)
            else:
                ctx.ob('FREE-SURFACE', loc, "cutboxvector='%s': a rotated cell whose box vector %d has a component along the cut axis is refused" % (letter, which), not live, node=fn, key='refuse %s %d' % (letter, which))
    ctx.floor('FREE-SURFACE/refusals', n, 9)
    # shifts midway between planes
    for tag, coords, w in (('three planes, none at the edge', [R(1, 8), R(1, 2), R(3, 4)], 2), ('plane at the cell origin', [0, R(1, 2), R(1, 4), R(1, 2)], 2), ('single plane', [R(1, 3)], 1), ('plane at both edges (periodic copy)', [0, 2, 4], 0),
                           ('three planes, out-of-plane box vector tilted (longer than the repeat distance along the normal)', [R(1, 8), R(1, 2), R(3, 4)], 1),
                           ('plane at both edges (periodic copy), out-of-plane vector tilted', [0, 2, 4], 2),
                           ('plane at both edges up to round-off (the top copy 1e-11 below the full width)', [0, 2, 4 - R(1, 10 ** 11)], 0)):
        vects = [[sp.Integer(0)] * 3 for _ in range(3)]
        for i in range(3):
            vects[i][i] = sp.Integer(4)
        if 'tilted' in tag:
            vects[w][(w + 1) % 3] = sp.Integer(3)
        letter = 'abc'[w]
        width = sp.Integer(4)
        coords_abs = [sp.nsimplify(c) * (1 if tag.startswith('plane at both') else width) for c in coords] if not tag.startswith('plane at both') else [sp.sympify(c) for c in coords]
        try:
            obj, paths = run(letter, vects, coords_abs, w)
        except WouldRaise as e:
            ctx.ob('FREE-SURFACE', loc, '%s: shifts can be computed' % tag, False, str(e), node=fn, key='shifts ' + tag)
            continue
        except Opaque as e:
            raise AnalysisError('FreeSurface.__init__ shifts (%s): %s' % (tag, e))
        sh = obj.attrs.get('_FreeSurface__shifts')
        planes = []
        for c in sorted({c % width for c in coords_abs}, key=float):      # coordinates within the tolerance of one another (also across the periodic boundary) are one atomic plane
            if not any(min(abs(c - p_), width - abs(c - p_)) <= R(1, 10 ** 7) for p_ in planes):
                planes.append(c)
        ok = sh is not None and np.ndim(sh) == 2 and np.shape(sh)[1] == 3
        bad = []
        if ok:
            if len(sh) != len(planes):
                bad.append('%d shifts offered for %d distinct atomic planes' % (len(sh), len(planes)))
            for s in sh:
                if any(s[j] != 0 for j in range(3) if j != w):
                    bad.append('shift %s not along the cut axis' % (list(s),))
                new = sorted(((c + s[w]) % width for c in planes), key=float)
                lo, hi = new[0], width - new[-1]
                if not (lo > 0 and abs(sp.nsimplify(lo - hi)) <= R(1, 10 ** 7)):
                    bad.append('shift %s puts the cut %s above the top plane and %s below the next (not midway)' % (s[w], hi, lo))
            if len({sp.nsimplify(s[w]) for s in sh}) != len(sh):
                bad.append('duplicate shifts')
        ctx.ob('FREE-SURFACE', loc, '%s: one shift per atomic plane, along the cut axis only, each placing the cell boundary exactly midway between two consecutive planes' % tag, bool(ok) and not bad, '; '.join(bad)[:300], node=fn, key='shifts ' + tag)
    # surface()
    sfn = ctx.fn(FS, 'FreeSurface.surface')
    locs = FS + '::FreeSurface.surface'
    for tag, kw, ci in (('plain', dict(sizemults=[2, 3, 4]), 2), ('vacuum', dict(sizemults=[2, 3, 4], vacuumwidth=sp.Integer(6)), 1), ('minwidth and even', dict(sizemults=[1, 1, 1], minwidth=sp.Integer(10), even=True), 0),
                        ('negative multiplier, minwidth', dict(sizemults=[1, 1, -1], minwidth=sp.Integer(10)), 2)):
        log = []
        V0 = np.array([[8, 0, 0], [0, 9, 0], [0, 0, 12]], dtype=object)
        P0 = symarray('p', (2, 3), real=True)

        class Sy(PyStub):
            def __init__(self):
                self.box = Bx(V0, [1, 2, 3])
                self.atoms = At(P0.copy())
                self.pbc0 = self.pbc = np.array([True, True, True], dtype=object)      # what supersize hands back: a periodicity array the generator may assign to or write into

            def wrap(self):
                log.append(('wrap', self.atoms.pos.copy(), [bool(x_) for x_ in self.pbc]))

            def box_set(self, **k):
                log.append(('box_set', k))
                self.box = Bx(k['vects'], k['origin'])
        system = Sy()

        class RC(PyStub):
            def supersize(self, *m):
                log.append(('supersize', [int(x) for x in m]))
                return system
        SH = symarray('s', (3,), real=True)
        obj = SymObj(cls, {'shift': SH, 'rcell': RC(), 'rcellwidth': sp.Integer(3), 'cutindex': ci, 'cutboxvector': 'abc'[ci], 'system': 'SYSTEM-PROPERTY', 'set_shift': lambda **k: log.append(('set_shift', k))}, 'self')
        ev = SymEval(aliases)
        ev.np_override = {'numpy.ceil': lambda x: sp.ceiling(x), 'numpy.linalg.norm': lambda v: sp.Symbol('area', positive=True)}
        try:
            ev.run_fn(sfn, [obj], {k: (list(v) if isinstance(v, list) else v) for k, v in kw.items()})
        except Opaque as e:
            raise AnalysisError('FreeSurface.surface (%s): %s' % (tag, e))
        ss = [l for l in log if l[0] == 'supersize']
        wr = [l for l in log if l[0] == 'wrap']
        want_m = {'plain': [2, 3, 4], 'vacuum': [2, 3, 4], 'minwidth and even': [4, 1, 1], 'negative multiplier, minwidth': [1, 1, -4]}[tag]
        ok = len(ss) == 1 and ss[0][1] == want_m
        ctx.ob('FREE-SURFACE', locs, '%s: the rotated cell is replicated %s (minimum width rounds the cut multiplier up keeping its sign; `even` makes it even)' % (tag, want_m), ok, str(ss), node=sfn, key='mults ' + tag)
        ok = len(wr) == 1 and equal(wr[0][1], P0 + SH, deep=False) and log.index(ss[0]) < log.index(wr[0]) if ss and wr else False
        ctx.ob('FREE-SURFACE', locs, '%s: all atoms are moved by the termination shift, then wrapped (before the periodicity is switched off)' % tag, bool(ok) and wr[0][2] == [True, True, True], node=sfn, key='shift-wrap ' + tag)
        want_pbc = [True, True, True]
        want_pbc[ci] = False
        ctx.ob('FREE-SURFACE', locs, '%s: the system is periodic except across the cut' % tag, [bool(x_) for x_ in system.pbc] == want_pbc, str(system.pbc), node=sfn, key='pbc ' + tag)
        ctx.ob('FREE-SURFACE', locs, '%s: the periodicity is assigned to the new system, not written into the array the supercell arrived with (that array may be the rotated cell\'s own: a second surface() would start from a non-periodic cell)' % tag,
               (system.pbc is not system.pbc0 and [bool(x_) for x_ in system.pbc0] == [True, True, True]) or _supercell_owns_pbc(ctx), str(list(system.pbc0)), node=sfn, key='pbc own ' + tag)
        bs = [l for l in log if l[0] == 'box_set']
        if 'vacuumwidth' in kw:
            Vw = V0.copy()
            Vw[ci, ci] = Vw[ci, ci] + 6
            ow = np.array([1, 2, 3], dtype=object)
            ow[ci] = ow[ci] - 3
            ok = len(bs) == 1 and equal(np.asarray(bs[0][1].get('vects'), dtype=object), Vw, deep=False) and equal(np.asarray(bs[0][1].get('origin'), dtype=object), ow, deep=False) and 'scale' not in bs[0][1]
            ctx.ob('FREE-SURFACE', locs, 'vacuum: the cut diagonal grows by the vacuum width and the origin moves down by half of it, atoms kept in place', bool(ok), str(bs)[:200], node=sfn, key='vacuum')
        else:
            ctx.ob('FREE-SURFACE', locs, '%s: no vacuum, the cell is left as replicated' % tag, not bs, node=sfn, key='novac ' + tag)
        ctx.ob('FREE-SURFACE', locs, '%s: the built system is stored and returned' % tag, obj.attrs.get('_FreeSurface__system') is system, node=sfn, key='stored ' + tag)
    ev = SymEval(aliases)
    obj = SymObj(cls, {'shift': arr([0, 0, 0]), 'rcell': None, 'rcellwidth': 3, 'cutindex': 2, 'cutboxvector': 'c', 'set_shift': lambda **k: None}, 'self')


def _supercell_owns_pbc(ctx):
    """System.supersize builds the supercell without handing it the seed's periodicity array (no pbc argument, or a fresh one): then writing into the supercell's flags is harmless"""
    from .. import effects
    SYS = 'atomman/core/System.py'
    fn = ctx.fn(SYS, 'System.supersize')
    eff = effects.Effects(fn, summaries={'deepcopy': ('fresh',)})
    calls = [c for c in calls_in(fn) if norm(c.func) == 'System']
    if len(calls) != 1:
        return False
    kw = [k for k in calls[0].keywords if k.arg == 'pbc']
    return not kw or eff.origins(kw[0].value) == {effects.FRESH}


def fault(ctx):
    cls = ctx.fn(SF, 'StackingFault')
    aliases = module_aliases(ctx.mod(SF))
    loc = SF + '::StackingFault.'
    R = sp.Rational
    # --- fault position setters
    width, org = sp.Symbol('w', positive=True), sp.Symbol('o0', real=True)
    Z = symarray('z', (4,), real=True)

    def mk(ci):
        V = np.zeros((3, 3), dtype=object)
        V[...] = sp.Integer(0)
        for i in range(3):
            V[i, i] = sp.Symbol('L%d' % i, positive=True)
        V[ci, ci] = width
        o = arr([sp.Symbol('oo%d' % i, real=True) for i in range(3)])
        o[ci] = org
        pos = symarray('p', (4, 3), real=True)
        pos[:, ci] = Z

        class Sy(PyStub):
            class Bxx(PyStub):
                vects = V
                origin = o
            box = Bxx()
            atoms = At(pos)
        return Sy()
    class _IndexOf(PyStub):
        # the indices at which a symbolic mask holds (np.where / np.flatnonzero of an undecided condition): stands for the same set of atoms as the mask
        def __init__(self, mask):
            self.mask = np.asarray(mask, dtype=object)

        def __getitem__(self, k):
            if k == 0:
                return self
            raise Opaque('np.where result indexed with %r' % (k,))

    def _where(c, *a):
        if a:
            raise Opaque('three-argument np.where on a symbolic mask')
        return (_IndexOf(c),)
    _unmask = lambda m_: m_.mask if isinstance(m_, _IndexOf) else m_
    for ci in (0, 2):
        sysm = mk(ci)
        rel = sp.Symbol('r', real=True)
        # relative -> cartesian
        obj = SymObj(cls, {'system': sysm, 'cutindex': ci}, 'self')
        ev = SymEval(aliases)
        ev.decide = lambda text, v, p: False     # 0 <= rel <= 1
        ev.np_override = {'numpy.where': _where, 'numpy.flatnonzero': lambda c: _IndexOf(c), 'numpy.nonzero': _where}
        fnr, _c = obj.lookup('faultpos_rel', setter=True)
        ev.run_fn(fnr, [obj, rel], {})
        cart = obj.attrs.get('_StackingFault__faultpos_cart')
        mask = _unmask(obj.attrs.get('_StackingFault__abovefault'))
        ok = cart is not None and is_zero(cart - (org + rel * width))
        ctx.ob('FAULT', loc + 'faultpos_rel.setter', 'cut axis %d: Cartesian fault position = box origin along the cut + relative position × cut width' % ci, bool(ok), 'got %s' % cart, node=fnr, key='rel->cart %d' % ci)
        okm = mask is not None and len(mask) == 4 and all(_is_gt(mask[i], Z[i] - (org + rel * width)) for i in range(4))
        ctx.ob('FAULT', loc + 'faultpos_rel.setter', 'cut axis %d: atoms above the fault are those whose cut coordinate is strictly greater than that position' % ci, bool(okm), str(list(mask) if mask is not None else None)[:200], node=fnr, key='mask rel %d' % ci)
        # cartesian -> relative
        obj2 = SymObj(cls, {'system': sysm, 'cutindex': ci}, 'self')
        cz = sp.Symbol('zc', real=True)
        fnc, _c = obj2.lookup('faultpos_cart', setter=True)
        ev = SymEval(aliases)
        ev.decide = lambda text, v, p: False
        ev.np_override = {'numpy.where': _where, 'numpy.flatnonzero': lambda c: _IndexOf(c), 'numpy.nonzero': _where}
        ev.run_fn(fnc, [obj2, cz], {})
        r2 = obj2.attrs.get('_StackingFault__faultpos_rel')
        m2 = _unmask(obj2.attrs.get('_StackingFault__abovefault'))
        ok = r2 is not None and is_zero(r2 - (cz - org) / width) and obj2.attrs.get('_StackingFault__faultpos_cart') == cz
        ctx.ob('FAULT', loc + 'faultpos_cart.setter', 'cut axis %d: relative fault position = (Cartesian position - box origin along the cut) / cut width, the inverse of the other setter' % ci, bool(ok), 'got %s' % r2, node=fnc, key='cart->rel %d' % ci)
        okm = m2 is not None and all(_is_gt(m2[i], Z[i] - cz) for i in range(4))
        ctx.ob('FAULT', loc + 'faultpos_cart.setter', 'cut axis %d: the same strict comparison defines the atoms above the fault' % ci, bool(okm), node=fnc, key='mask cart %d' % ci)
    for name in ('faultpos_rel', 'faultpos_cart'):
        obj = SymObj(cls, {'system': mk(2), 'cutindex': 2}, 'self')
        f_, _c = obj.lookup(name, setter=True)
        ev = SymEval(aliases)
        bad = sp.Rational(3, 2) if name == 'faultpos_rel' else None
        if bad is not None:
            paths = ev.run_fn(f_, [obj, bad], {})
            ctx.ob('FAULT', loc + name + '.setter', 'a relative position outside [0, 1] is refused', not [p for p in paths if p.done == 'return'], node=f_, key='range ' + name)
    # --- fault()
    ffn = ctx.fn(SF, 'StackingFault.fault')
    for tag, ci, kw in (('fractions of a1, a2 and out of plane', 2, dict(a1=sp.Symbol('f1'), a2=sp.Symbol('f2'), outofplane=sp.Symbol('f3'))), ('a1 only', 0, dict(a1=sp.Symbol('f1'))),
                        ('a2 only', 1, dict(a2=sp.Symbol('f2'))), ('out of plane only', 2, dict(outofplane=sp.Symbol('f3'))), ('out of plane only, cut along b', 1, dict(outofplane=sp.Symbol('f3'))),
                        ('explicit shift vector', 1, dict(faultshift=symarray('fs', (3,), real=True))), ('no shift', 2, {})):
        log = []
        P = symarray('p', (4, 3), real=True)
        mask = np.array([False, True, True, False])

        class Sy(PyStub):
            box, pbc, symbols, masses = 'BOX', (True, True, False), ('Al',), (None,)

            def __init__(self):
                self.atoms = At(P.copy())

            def wrap(self):
                log.append(('wrap', self.atoms.pos.copy()))
        orig = Sy()
        copies = []

        def deepcopy(x):
            c = Sy()
            c.atoms = At(x.atoms.pos.copy())
            copies.append(c)
            return c

        def mksystem(atoms=None, box=None, pbc=None, symbols=None, masses=None, safecopy=False, **k_):
            # the System constructor: the new system holds the very Atoms and Box it was given unless safecopy is asked for
            if k_ or atoms is None:
                raise Opaque('System(%s)' % sorted(k_))
            c = Sy()
            c.atoms = At(atoms.pos.copy()) if safecopy else atoms
            c.box, c.pbc, c.symbols, c.masses = box, pbc, symbols, masses
            copies.append(c)
            return c
        A1, A2 = symarray('u', (3,), real=True), symarray('w', (3,), real=True)
        obj = SymObj(cls, {'system': orig, 'cutindex': ci, 'abovefault': mask, 'a1vect_cart': A1, 'a2vect_cart': A2, 'faultpos_cart': sp.Symbol('zf')}, 'self')
        ev = SymEval(aliases)
        ev.globals = {'deepcopy': deepcopy, 'System': mksystem}
        try:
            r = [q for q in ev.run_fn(ffn, [obj], dict(kw)) if q.done == 'return']
        except Opaque as e:
            raise AnalysisError('StackingFault.fault (%s): %s' % (tag, e))
        ctx.need(len(r) == 1, 'fault() does not reduce to one path (%s)' % tag)
        res = r[0].ret
        ov = np.array([sp.Integer(1) if i == ci else sp.Integer(0) for i in range(3)], dtype=object)
        if 'faultshift' in kw:
            shift = kw['faultshift']
        else:
            shift = kw.get('a1', 0) * A1 + kw.get('a2', 0) * A2 + kw.get('outofplane', 0) * ov
        want = P.copy()
        for i in range(4):
            if mask[i]:
                want[i] = want[i] + shift
        ok = len(copies) == 1 and res is copies[0] and equal(res.atoms.pos, want, deep=False)
        ctx.ob('FAULT', loc + 'fault', '%s: atoms above the fault plane move by exactly a1·(a1 vector) + a2·(a2 vector) + out·(cut normal) (or the given vector); atoms below stay' % tag, bool(ok), node=ffn, key='shift ' + tag)
        ctx.ob('FAULT', loc + 'fault', '%s: the stored defect-free system is not modified (the fault is made on a copy) and the copy is wrapped after the shift' % tag,
               equal(orig.atoms.pos, P, deep=False) and len(log) == 1 and equal(log[0][1], want, deep=False), node=ffn, key='copy ' + tag)
    # minimum_r: the closest pair across the fault is looked for through the system's periodic separation (an upper atom may be closest to a periodic image of a lower one)
    for tag, Lx, top, bot, images in (('closest pair through a periodic image', 4, [R(39, 10), 0, R(11, 10)], [R(1, 10), 0, R(9, 10)], True), ('closest pair inside the cell', 40, [R(3, 10), 0, R(11, 10)], [R(1, 10), 0, R(9, 10)], False)):
        far = [R(Lx, 2), R(Lx, 2), R(9, 10)]                  # a second lower atom, listed first, far from the upper atom
        Pc = np.array([far, bot, top], dtype=object)
        dcalls = []

        class BxC(PyStub):
            origin = arr([0, 0, 0])
            vects = np.array([[Lx, 0, 0], [0, Lx, 0], [0, 0, 3]], dtype=object)

        class SyC(PyStub):
            box, pbc, symbols, masses = BxC(), (True, True, False), ('Al',), (None,)

            def __init__(self, pos):
                self.atoms = At(pos)

            def wrap(self):
                return None

            def dvect(self, p0, p1):
                dcalls.append(1)
                d = np.atleast_2d(np.asarray(p1, dtype=object)) - np.atleast_2d(np.asarray(p0, dtype=object))
                for row in d:
                    for ax in (0, 1):           # periodic in the fault plane, period Lx
                        while row[ax] >= R(Lx, 2):
                            row[ax] -= Lx
                        while row[ax] < -R(Lx, 2):
                            row[ax] += Lx
                return d if len(d) > 1 else d[0]
        origc = SyC(Pc.copy())
        # which atoms are above the fault is whatever the fault-position setter records (a mask, or indices): set the position through it, then make the fault
        obj = SymObj(cls, {'system': origc, 'cutindex': 2, 'a1vect_cart': arr([Lx, 0, 0]), 'a2vect_cart': arr([0, Lx, 0])}, 'self')
        fpc, _c0 = obj.lookup('faultpos_cart', setter=True)
        try:
            SymEval(aliases).run_fn(fpc, [obj, R(1)], {})
        except (Opaque, WouldRaise) as e:
            raise AnalysisError('StackingFault.faultpos_cart setter on the model: %s' % e)
        ev = SymEval(aliases)
        def mksysc(atoms=None, box=None, pbc=None, symbols=None, masses=None, safecopy=False, **k_):
            if k_ or atoms is None:
                raise Opaque('System(%s)' % sorted(k_))
            return SyC(atoms.pos.copy() if safecopy else atoms.pos)
        ev.globals = {'deepcopy': lambda x: SyC(x.atoms.pos.copy()), 'System': mksysc}
        try:
            r = [q for q in ev.run_fn(ffn, [obj], dict(minimum_r=R(1))) if q.done == 'return']
        except (Opaque, WouldRaise) as e:
            raise AnalysisError('StackingFault.fault (minimum_r, %s): %s' % (tag, e))
        ctx.need(len(r) == 1, 'fault(minimum_r=...) does not reduce to one path (%s)' % tag)
        z = r[0].ret.atoms.pos[2][2]
        wantz = R(9, 10) + sp.sqrt(1 - R(4, 100))          # in-plane separation 0.2 (through the image in the first case): out-of-plane separation sqrt(1 - 0.04)
        ok = abs(float(sp.N(sp.sympify(z) - wantz))) < 1e-9 and bool(dcalls)
        ctx.ob('FAULT', loc + 'fault', 'minimum_r, %s: the upper crystal is pushed out until the closest pair across the fault (by the periodic separation of the system) is exactly minimum_r apart' % tag, bool(ok),
               'upper atom ends at height %s, expected %s' % (sp.N(z, 8), sp.N(wantz, 8)), node=ffn, key='minimum_r ' + tag)
    paths = SymEval(aliases).run_fn(ffn, [SymObj(cls, {'system': None, 'cutindex': 2, 'abovefault': None, 'a1vect_cart': None, 'a2vect_cart': None}, 'self')], dict(a1=1, faultshift=arr([1, 0, 0])))
    ctx.ob('FAULT', loc + 'fault', 'fractional shifts together with an explicit vector are refused', not [p for p in paths if p.done == 'return'], node=ffn, key='both')
    # --- shift-vector setters refuse out-of-plane vectors; the two are the same function up to the name
    srcs = {}
    for name in ('a1vect_uvw', 'a2vect_uvw'):
        obj = SymObj(cls, {}, 'self')
        f_, _c = obj.lookup(name, setter=True)
        ctx.need(f_ is not None, 'StackingFault.%s setter vanished' % name)
        srcs[name] = norm(f_).replace(name, 'AVECT').replace(name.replace('_uvw', ''), 'AV')
        for tag, cartv, accept in (('in the fault plane', [sp.Symbol('x1'), sp.Symbol('x2'), 0], True), ('with a component along the cut axis', [sp.Symbol('x1'), 0, sp.Rational(1, 2)], False)):
            converted = []

            class Mil(PyStub):
                # the two index conversions are told apart by what they return
                def vector_conventional_to_primitive(self, u, s=None, setting=None):
                    return np.asarray(u, dtype=object) * 2

                def vector_primitive_to_conventional(self, u, s=None, setting=None):
                    return np.asarray(u, dtype=object) * 3

                def vector_crystal_to_cartesian(self, u, box, _c=converted):
                    _c.append((np.asarray(u, dtype=object), box))
                    return arr(cartv)

                def vector4to3(self, u):
                    return u

                def vector3to4(self, u):
                    return u

            class Tr(PyStub):
                def dot(self, v):
                    return v

            class UC(PyStub):
                box = 'BOX'
            obj = SymObj(cls, {'hkl': arr([1, 1, 1]), 'conventional_setting': 'p', 'transform': Tr(), 'ucell': UC(), 'cutindex': 2}, 'self')
            ev = SymEval(aliases)
            ev.globals = {'miller': Mil()}
            ev.np_override = {'numpy.isclose': lambda a, b, **k: bool(sp.simplify(sp.sympify(a) - b) == 0)}
            paths = ev.run_fn(f_, [obj, arr([1, -1, 0])], {})
            acc = bool([p for p in paths if p.done == 'return'])
            ctx.ob('FAULT', loc + name + '.setter', 'a shift vector %s is %s' % (tag, 'accepted' if accept else 'refused'), acc == accept, node=f_, key='%s %s' % (name, tag))
            if accept:
                okc = len(converted) == 1 and converted[0][1] == 'BOX' and equal(converted[0][0], arr([2, -2, 0]), deep=False)
                ctx.ob('FAULT', loc + name + '.setter', 'the indices given on the conventional cell are converted to the primitive cell (conventional -> primitive, not the reverse) before they are made Cartesian in the unit cell\'s box',
                       bool(okc), 'made Cartesian: %s' % ([(list(u_), b_) for u_, b_ in converted],), node=f_, key='%s conversion' % name)
    ctx.ob('FAULT', loc + 'a2vect_uvw.setter', 'the two shift-vector setters are the same code up to the vector\'s name', srcs['a1vect_uvw'].replace('__a1vect', '__aNvect') == srcs['a2vect_uvw'].replace('__a2vect', '__aNvect'), key='siblings')
    # surface(): default fault position in the middle; both given refused
    sfn = ctx.fn(SF, 'StackingFault.surface')
    FRESH = {'_StackingFault__faultpos_rel': None, '_StackingFault__faultpos_cart': None, '_StackingFault__abovefault': None}
    USED = {'_StackingFault__faultpos_rel': sp.Rational(1, 2), '_StackingFault__faultpos_cart': sp.Integer(9), '_StackingFault__abovefault': 'MASK-OF-THE-PREVIOUS-SYSTEM'}
    for tag, kw, want, state in (('default', {}, ('rel', sp.Rational(1, 2)), FRESH), ('relative given', dict(faultpos_rel=sp.Rational(1, 4)), ('rel', sp.Rational(1, 4)), FRESH),
                                 ('Cartesian given', dict(faultpos_cart=sp.Integer(7)), ('cart', sp.Integer(7)), FRESH),
                                 ('default, on an object that already built a system before (position and mask must be recomputed for the new system)', {}, ('rel', sp.Rational(1, 2)), USED),
                                 ('relative given, on an object used before', dict(faultpos_rel=sp.Rational(1, 4)), ('rel', sp.Rational(1, 4)), USED)):
        sets = []

        class Sup(PyStub):
            def surface(self, **k):
                sets.append(('super', k))
        obj = SymObj(cls, dict(state, system='SYS'), 'self')
        # record attribute stores to the two position properties
        ev = SymEval(aliases)
        ev.globals = {'super': lambda *a: Sup()}
        fr, _ = obj.lookup('faultpos_rel', setter=True)
        fc, _ = obj.lookup('faultpos_cart', setter=True)
        orig_assign = ev.assign

        def assign(t, v, p, _o=orig_assign):
            if isinstance(t, ast.Attribute) and norm(t) in ('self.faultpos_rel', 'self.faultpos_cart'):
                sets.append(('rel' if t.attr.endswith('rel') else 'cart', v))
                return
            return _o(t, v, p)
        ev.assign = assign
        ev.run_fn(sfn, [obj], dict(kw, sizemults=[1, 1, 2]))
        got = [s for s in sets if s[0] != 'super']
        sup = [s for s in sets if s[0] == 'super']
        ctx.ob('FAULT', loc + 'surface', '%s: the free-surface system is built first (arguments forwarded), then the fault position is set to %s %s' % (tag, want[0], want[1]),
               got == [want] and len(sup) == 1 and sup[0][1].get('sizemults') == [1, 1, 2] and sets.index(sup[0]) < sets.index(got[0]) if got else False, str(sets)[:200], node=sfn, key='surface ' + tag)


def run(ctx):
    ctx.explanation = ('C14: the plane-normal table of free_surface_basis is evaluated for all 26 zero/sign patterns (zone law, integrality, +g orientation, agreement with tools/miller); '
                       'the search guards and cutboxvector arms are checked on the syntax tree / by evaluation; FreeSurface.__init__, surface(), the stacking-fault position setters and fault() are '
                       'evaluated on model cells with recording stubs (refusals, mid-plane shifts, call order, periodicity, vacuum, which atoms move by which vector). Not decided: concrete cell geometry.')
    # fault() moves the atoms above the plane and then wraps the system (out-of-plane shifts push atoms through a non-periodic face): "atoms below stay, atoms above move by
    # the shift" rests on System.wrap keeping absolute positions while it extends the cell, decided by the rule of the property that owns it
    from .c05 import wrap as system_wrap
    # free_surface_basis / FreeSurface take (hkl) relative to the conventional cell and carry the two in-plane seed vectors into the primitive cell through the centering
    # tables of tools/miller (conventional_setting p/a/b/c/i/f/t1/t2): a table that is not the inverse of its partner puts the seeds in another plane
    from .c04 import centering as centering_tables
    ctx.run_rules([plane_table, search, free_surface, fault, system_wrap, centering_tables])
