"""C13 Dislocation configurations (monopole, periodic array).

Decided statically (fragments of the generators are evaluated on symbolic / model inputs with recording stubs):
 * ORIENT: the six (cutindex, lineindex) arms place the line vector in row `lineindex`, the plane-normal vector in row `cutindex`
   and +-the in-plane vector in the third row so that the rows are an even (right-handed) arrangement of (m, n, xi);
   motionindex = 3 - line - cut.
 * SHIFTS: the offered slip-plane shifts put the plane exactly midway between consecutive atomic planes along the cut axis (model
   layer stacks), are directed along n, one per plane; set_shift selects / converts as documented.
 * MONOPOLE: multipliers are symmetric about the origin in the two directions normal to the line (odd counts refused, minimum
   widths rounded up to even), the reference crystal is supersize -> shift -> wrap, the dislocation system is a copy of it with
   the elastic displacement evaluated at (reference position - centre) *added*, periodic along the line only, wrapped; both
   systems are stored; boundary atoms are exactly shape.outside(positions), re-typed by +natypes with the symbols doubled.
 * BOUNDARY: box/array boundaries are the cell faces not crossed by the line (resp. the two cut faces) moved inward by the width;
   the cylinder radius is the smallest distance from the line to the four side faces minus the width (model cross-sections,
   rectangular and tilted), axis along the line vector.
 * ARRAY: the in-plane box vector is shortened/extended by b/2 according to the sign of b.m, periodicity is dropped across the
   cut; atoms on the slip plane, a non-integer deletion count and found != expected (either way) are refused; old_id records the
   kept atoms and the reference system is trimmed by it; the linear displacement is sign(y)(1/4 - x/2L) b; boundary re-typing.
 * DISREGISTRY: (shared with C17) displacement through the final box, layers adjoining planepos.n.
Declined: that the disregistry integrates to b, absence of overlaps for a concrete crystal, the returned rotation (C04).
"""
import ast
import itertools

import numpy as np
import sympy as sp

from ..core import norm, calls_in, AnalysisError
from .. import lints, effects
from ..symx import SymEval, SymObj, PyStub, Path, Opaque, WouldRaise, ModelError, module_aliases, symarray, is_zero, equal, arr, is_arr
from . import c17
from .c14 import At, Bx, _unique

DI = 'atomman/defect/Dislocation/__init__.py'
MO = 'atomman/defect/Dislocation/_monopole.py'
PA = 'atomman/defect/Dislocation/_periodicarray.py'


def orient(ctx):
    """the tail of __set_cells (from the identification of the cut / line axes on) interpreted for the six axis assignments"""
    fn = ctx.fn(DI, 'Dislocation.__set_cells')
    loc = DI + '::Dislocation.__set_cells'
    start = [i for i, s_ in enumerate(fn.body) if any(isinstance(t, ast.Name) and t.id == 'cutindex' and isinstance(t.ctx, ast.Store) for t in ast.walk(s_))]
    ctx.need(bool(start), '__set_cells: the statement that identifies the cut axis was not found')
    first = start[0]
    while first > 0 and isinstance(fn.body[first - 1], ast.Assign) and any(isinstance(t, ast.Name) and t.id in {n_.id for n_ in ast.walk(fn.body[start[0]]) if isinstance(n_, ast.Name)} for t in fn.body[first - 1].targets):
        first -= 1          # helper tables used by that statement (e.g. `indices = np.array([0, 1, 2])`)
    tail = fn.body[first:]
    M, Nn, X = symarray('m', (3,)), symarray('n', (3,)), symarray('x', (3,))
    unit = lambda k, sgn=1: arr([sgn if i == k else 0 for i in range(3)])

    def run(cut, line, sgn=1):
        rotated = []

        class Sol(PyStub):
            pass
        sol = Sol()
        sol.n, setattr_xi = unit(cut, sgn), None
        setattr(sol, 'ξ', unit(line, sgn))
        sol.m = unit(3 - cut - line) if cut != line else unit((cut + 1) % 3)

        class Prim(PyStub):
            def rotate(self, uvws, **k):
                rotated.append(np.asarray(uvws, dtype=object))
                return 'RCELL'

        class Mil(PyStub):
            def vector_primitive_to_conventional(self, u, setting=None):
                return u

            def vector3to4(self, u):
                return ('FOUR', u)
        obj = SymObj(ctx.fn(DI, 'Dislocation'), {}, 'self')
        ev = SymEval(module_aliases(ctx.mod(DI)))
        ev.globals = {'miller': Mil()}
        # every local of the head is in scope: the line direction in primitive indices (the one the rotated cell is built from) and in conventional indices, the Cartesian axes, ...
        env = {'self': obj, 'dislsol': sol, 'ξ_uvw_p': X, 'ξ_uvw': symarray('xconv', (3,)), 'm_uvw': M, 'n_uvw': Nn, 'm_cart': symarray('mc', (3,)), 'n_cart': symarray('nc', (3,)),
               'ucell_prim': Prim(), 'ucell': 'UCELL', 'setting': 'p', 'hexindices': False, 'tol': sp.Rational(1, 10 ** 8), 'maxindex': 5}
        try:
            q = ev.block(tail, [Path(env)])
        except WouldRaise:
            return 'raise', obj, rotated
        except Opaque as e:
            raise AnalysisError('__set_cells (cut axis %d, line axis %d): %s' % (cut, line, e))
        live = [x for x in q if x.done != 'raise']
        return ('ok' if len(live) == 1 else 'raise'), obj, rotated
    n = 0
    for cut, line in itertools.permutations(range(3), 2):
        for sgn in (1, -1):
            n += 1
            st, obj, rotated = run(cut, line, sgn)
            u = obj.attrs.get('_Dislocation__uvws_prim')
            ok = st == 'ok' and u is not None and np.shape(u) == (3, 3) and len(rotated) == 1 and equal(rotated[0], np.asarray(u, dtype=object), deep=False)
            det = ''
            if ok:
                motion = 3 - cut - line
                S = sp.zeros(3, 3)       # rows in the basis (m, n, xi): a signed permutation
                for r in range(3):
                    for c, base in enumerate((M, Nn, X)):
                        if all(sp.simplify(u[r][k] - base[k]) == 0 for k in range(3)):
                            S[r, c] = 1
                        elif all(sp.simplify(u[r][k] + base[k]) == 0 for k in range(3)):
                            S[r, c] = -1
                ok = S[line, 2] == 1 and S[cut, 1] == 1 and abs(S[motion, 0]) == 1 and S.det() == 1 and obj.attrs.get('_Dislocation__lineindex') == line and obj.attrs.get('_Dislocation__cutindex') == cut \
                    and obj.attrs.get('_Dislocation__motionindex') == motion and obj.attrs.get('_Dislocation__rcell') == 'RCELL'
                det = 'rows in the (m, n, ξ) basis: %s; indices line/cut/motion %s/%s/%s' % (S.tolist(), obj.attrs.get('_Dislocation__lineindex'), obj.attrs.get('_Dislocation__cutindex'), obj.attrs.get('_Dislocation__motionindex'))
            ctx.ob('ORIENT', loc, 'n along %saxis %d, ξ along %saxis %d: the cut / line indices are those axes, row %d of the rotation indices is the line vector, row %d the plane-normal vector, the third is ±m with the sign that keeps the cell '
                   'right-handed, the motion index is the remaining one, and the primitive cell is rotated with exactly those rows' % ('+' if sgn > 0 else '-', cut, '+' if sgn > 0 else '-', line, line, cut), bool(ok), det, node=fn, key='arm %d %d %d' % (cut, line, sgn))
    ctx.floor('ORIENT', n, 12)
    verd = [run(k, k)[0] for k in range(3)]
    ctx.ob('ORIENT', loc, 'a solution whose n and ξ point along the same axis is refused', all(v == 'raise' for v in verd), str(verd), node=fn, key='motion')


def shifts(ctx):
    fn = ctx.fn(DI, 'Dislocation.__identify_shifts')
    cls = ctx.fn(DI, 'Dislocation')
    loc = DI + '::Dislocation.__identify_shifts'
    R = sp.Rational
    for tag, coords, w in (('three planes', [R(1, 2), 2, 3], 1), ('plane at the cell origin', [0, 1, 1, 2], 2), ('single plane', [R(4, 3)], 0), ('periodic copy at both edges', [0, 2, 4], 1),
                           ('three planes, out-of-plane box vector tilted (longer than the period along n)', [R(1, 2), 2, 3], 1), ('periodic copy at both edges, tilted out-of-plane vector', [0, 2, 4], 2)):
        width = sp.Integer(4)
        pos = np.array([[R(1, 3), R(1, 7), R(2, 5)] for _ in coords], dtype=object)
        for r, c in enumerate(coords):
            pos[r, w] = sp.nsimplify(c)
        V = np.zeros((3, 3), dtype=object)
        V[...] = sp.Integer(0)
        for i in range(3):
            V[i, i] = width
        if 'tilted' in tag:
            V[w, (w + 1) % 3] = sp.Integer(3)      # |vect| = 5 while the period along n stays 4

        class RC(PyStub):
            box = Bx(V)
            atoms = At(pos)

        class Sol(PyStub):
            n = arr([1 if i == w else 0 for i in range(3)])
        obj = SymObj(cls, {'dislsol': Sol(), 'rcell': RC(), 'cutindex': w}, 'self')
        ev = SymEval(module_aliases(ctx.mod(DI)))
        ev.np_override = {'numpy.unique': _unique, 'numpy.log10': lambda x: sp.log(x, 10), 'numpy.append': lambda a, v: arr(list(np.ravel(a)) + [v]),
                          'numpy.sort': lambda a: arr(sorted([sp.nsimplify(v) for v in np.ravel(a)], key=float)),
                          'numpy.isclose': lambda a, b, rtol=0, atol=0, **k: bool(sp.Abs(sp.sympify(a) - b) <= atol)}
        try:
            ev.run_fn(fn, [obj, R(1, 10 ** 7)], {})
        except WouldRaise as e:
            ctx.ob('SHIFTS', loc, '%s: shifts can be computed' % tag, False, str(e), node=fn, key=tag)
            continue
        except Opaque as e:
            raise AnalysisError('__identify_shifts (%s): %s' % (tag, e))
        sh = obj.attrs.get('_Dislocation__shifts')
        planes = sorted({sp.nsimplify(c) % width for c in coords}, key=float)
        bad = []
        ok = sh is not None and np.ndim(sh) == 2 and np.shape(sh)[1] == 3
        if ok:
            if len(sh) != len(planes):
                bad.append('%d shifts for %d distinct planes' % (len(sh), len(planes)))
            for s in sh:
                if any(s[j] != 0 for j in range(3) if j != w):
                    bad.append('shift %s not along n' % (list(s),))
                new = sorted(((c + s[w]) % width for c in planes), key=float)
                lo, hi = new[0], width - new[-1]
                if not (lo > 0 and sp.simplify(lo - hi) == 0):
                    bad.append('shift %s leaves the slip plane %s / %s from its neighbours (not midway)' % (s[w], lo, hi))
        ctx.ob('SHIFTS', loc, '%s: one shift per atomic plane, along n, each putting the slip plane (cell boundary along the cut) exactly midway between two consecutive planes' % tag, bool(ok) and not bad, '; '.join(bad)[:300], node=fn, key=tag)
    # set_shift
    sfn = ctx.fn(DI, 'Dislocation.set_shift')
    SH = [arr([0, 0, sp.Rational(1, 2)]), arr([0, 0, sp.Rational(3, 2)])]

    class Mil(PyStub):
        def vector_crystal_to_cartesian(self, v, box):
            return ('CART', tuple(v), box)

    class RC2(PyStub):
        box = 'RBOX'
    for tag, kw, want in (('default', {}, SH[0]), ('by index', dict(shiftindex=1), SH[1]), ('Cartesian vector', dict(shift=[1, 2, 3]), arr([1, 2, 3])), ('box-relative vector', dict(shift=[1, 2, 3], shiftscale=True), ('CART', (1, 2, 3), 'RBOX'))):
        obj = SymObj(cls, {'shifts': SH, 'rcell': RC2()}, 'self')
        ev = SymEval(module_aliases(ctx.mod(DI)))
        ev.globals = {'miller': Mil()}
        ev.run_fn(sfn, [obj], dict(kw))
        got = obj.attrs.get('_Dislocation__shift')
        ok = (got == want) if isinstance(want, tuple) else (got is not None and equal(np.asarray(got, dtype=object), want, deep=False))
        ctx.ob('SHIFTS', DI + '::Dislocation.set_shift', '%s: the shift is %s' % (tag, {'default': 'the first offered one', 'by index': 'the offered one with that index', 'Cartesian vector': 'the given vector', 'box-relative vector': 'the given vector converted with the rotated cell'}[tag]),
               bool(ok), str(got), node=sfn, key='set_shift ' + tag)
    paths = SymEval(module_aliases(ctx.mod(DI))).run_fn(sfn, [SymObj(cls, {'shifts': SH}, 'self')], dict(shift=[1, 2, 3], shiftindex=0))
    ctx.ob('SHIFTS', DI + '::Dislocation.set_shift', 'shift and shiftindex together are refused', not [p for p in paths if p.done == 'return'], node=sfn, key='set_shift both')


class Sysm(PyStub):
    def __init__(self, log, tag, pos, natypes=2, symbols=('Al', 'Cu')):
        self.log, self.tag = log, tag
        self.atoms = At(pos)
        self.atoms.atype = arr([1, 2, 1])
        self.pbc = 'UNSET'
        self.natypes, self.symbols = natypes, symbols
        self.box = 'BOX_' + tag

    def wrap(self):
        self.log.append(('wrap', self.tag, self.atoms.pos.copy(), list(self.pbc) if not isinstance(self.pbc, str) else self.pbc))


def monopole(ctx):
    fn = ctx.fn(MO, 'monopole')
    loc = MO + '::monopole'
    aliases = module_aliases(ctx.mod(MO))
    P = symarray('p', (3, 3), real=True)
    SH = symarray('s', (3,), real=True)
    CE = symarray('c', (3,), real=True)
    VR, VU = symarray('vr', (3, 3), real=True), symarray('vu', (3, 3), real=True)      # vectors of the rotated cell and of the unit cell: different cells

    class UCm(PyStub):
        class B(PyStub):
            a = sp.Integer(7)

            def vector_crystal_to_cartesian(self, v):
                return np.asarray(v, dtype=object).dot(VU)
        box = B()

    def setup(line, **extra):
        log = []
        base = Sysm(log, 'base', P.copy())

        class RC(PyStub):
            class B(PyStub):
                a, b, c = sp.Integer(3), sp.Integer(4), sp.Integer(5)

                def vector_crystal_to_cartesian(self, v):
                    return np.asarray(v, dtype=object).dot(VR) if is_arr(v) else ('CART', tuple(v))
            box = B()

            def supersize(self, *m):
                log.append(('supersize', list(m)))
                return base

        class Sol(PyStub):
            def displacement(self, x):
                log.append(('displacement', np.array(x, dtype=object)))
                return np.array([[sp.Function('u%d' % j)(*row) for j in range(3)] for row in np.asarray(x, dtype=object)], dtype=object)
        # the solution's own axes: the line direction points along the *negative* Cartesian axis for odd assignments of m and n (m x n = -e_line)
        setattr(Sol, 'ξ', arr([-1 if i == line else 0 for i in range(3)]))
        Sol.m = arr([1 if i == (line + 2) % 3 else 0 for i in range(3)])
        Sol.n = arr([1 if i == (line + 1) % 3 else 0 for i in range(3)])

        class Shape(PyStub):
            def outside(self, pos):
                log.append(('outside', np.array(pos, dtype=object)))
                return np.array([True, False, True])

            def inside(self, pos):
                log.append(('inside', np.array(pos, dtype=object)))
                return np.array([False, True, False])
        copies = []

        def deepcopy(x):
            if isinstance(x, Sysm):
                c = Sysm(log, 'disl', x.atoms.pos.copy())
                copies.append(c)
                return c
            return list(x) if isinstance(x, (list, tuple)) else x
        attrs = {'lineindex': line, 'rcell': RC(), 'shift': SH, 'dislsol': Sol(), 'set_shift': lambda *a, **k: log.append(('set_shift', _sargs(a, k))), 'set_systems': lambda base_system=None, disl_system=None: log.append(('set_systems', base_system, disl_system)),
                 'box_boundary': lambda box, w: (log.append(('box_boundary', box, w)) or Shape()), 'cylinder_boundary': lambda box, w: (log.append(('cylinder_boundary', box, w)) or Shape()),
                 'ucell': None}
        attrs.update(extra)
        obj = SymObj(None, attrs, 'self')
        ev = SymEval(aliases)
        ev.globals = {'deepcopy': deepcopy}
        ev.np_override = {'numpy.ceil': lambda x: sp.ceiling(x)}
        return obj, ev, log, base, copies
    # multipliers
    for tag, line, kw, want in (('default', 2, {}, [(-1, 1), (-1, 1), (0, 1)]), ('given tuple', 0, dict(sizemults=(3, 4, 6)), [(0, 3), (-2, 2), (-3, 3)]),
                                ('minimum widths', 1, dict(sizemults=(2, 1, 2), amin=sp.Integer(10), bmin=sp.Integer(9), cmin=sp.Integer(11)), [(-2, 2), (0, 3), (-2, 2)])):
        obj, ev, log, base, copies = setup(line)
        try:
            r = [q for q in ev.run_fn(fn, [obj], dict(kw)) if q.done == 'return']
        except Opaque as e:
            raise AnalysisError('monopole (%s): %s' % (tag, e))
        ss = [l for l in log if l[0] == 'supersize']
        got = [tuple(int(v) for v in m) if isinstance(m, (tuple, list)) else m for m in ss[0][1]] if ss else None
        ctx.ob('MONOPOLE', loc, '%s (line along axis %d): replication %s - symmetric about the origin normal to the line, (0, n) along it%s' % (tag, line, want, '; minimum widths rounded up to an even count' if 'amin' in kw else ''),
               len(r) == 1 and got == want, 'got %s' % (got,), node=fn, key='mults ' + tag)
    for tag, sm in (('odd count normal to the line', (1, 3, 2)), ('zero', (1, 0, 2)), ('two entries', (2, 2))):
        obj, ev, log, base, copies = setup(0)
        try:
            paths = ev.run_fn(fn, [obj], dict(sizemults=sm))
            acc = bool([q for q in paths if q.done == 'return'])
        except WouldRaise:
            acc = False
        ctx.ob('MONOPOLE', loc, 'sizemults with %s are refused' % tag, not acc, node=fn, key='refuse ' + tag)
    # sequence
    for tag, kw in (('cylinder boundary, centre given', dict(center=CE, boundarywidth=sp.Integer(2), boundaryshape='cylinder', return_base_system=True)), ('box boundary', dict(boundarywidth=sp.Integer(2), boundaryshape='box')),
                    ('no boundary', dict()), ('centre given relative to the rotated cell', dict(center=CE, centerscale=True))):
        obj, ev, log, base, copies = setup(1, ucell=UCm())
        try:
            r = [q for q in ev.run_fn(fn, [obj], dict(kw)) if q.done == 'return']
        except Opaque as e:
            raise AnalysisError('monopole (%s): %s' % (tag, e))
        ctx.need(len(r) == 1, 'monopole does not reduce to one path (%s)' % tag)
        disl = copies[0] if copies else None
        wr = [l for l in log if l[0] == 'wrap']
        ok = len(wr) == 2 and wr[0][1] == 'base' and equal(wr[0][2], P + SH, deep=False) and len(copies) == 1
        ctx.ob('MONOPOLE', loc, '%s: the reference crystal is replicated, moved by the slip-plane shift and wrapped; the dislocation system starts as a copy of it' % tag, bool(ok), node=fn, key='base ' + tag)
        dp = [l for l in log if l[0] == 'displacement']
        ce = kw.get('center', arr([0, 0, 0]))
        if kw.get('centerscale'):
            ce = CE.dot(VR)          # a relative centre is stated in the vectors of the rotated cell the crystal is built from (as periodicarray does), not of the unit cell
        ok = len(dp) == 1 and equal(dp[0][1], (P + SH) - ce, deep=False)
        if ok and disl is not None:
            U = np.array([[sp.Function('u%d' % j)(*row) for j in range(3)] for row in ((P + SH) - ce)], dtype=object)
            ok = equal(disl.atoms.pos, (P + SH) + U, deep=False) and equal(base.atoms.pos, P + SH, deep=False)
        ctx.ob('MONOPOLE', loc, '%s: every atom of the copy is displaced by the elastic solution evaluated at (its reference position - centre), added to its position; the reference system is not displaced' % tag, bool(ok), node=fn, key='disp ' + tag)
        ok = disl is not None and list(disl.pbc) == [False, True, False] and len(wr) == 2 and wr[1][1] == 'disl' and wr[1][3] == [False, True, False]
        ctx.ob('MONOPOLE', loc, '%s: the dislocation system is periodic along the line only, and wrapped after that' % tag, bool(ok), str(getattr(disl, 'pbc', None)), node=fn, key='pbc ' + tag)
        st = [l for l in log if l[0] == 'set_systems']
        ctx.ob('MONOPOLE', loc, '%s: reference and dislocation systems are stored together (same atom for atom)' % tag, len(st) == 1 and st[0][1] is base and st[0][2] is disl, node=fn, key='stored ' + tag)
        if 'boundarywidth' in kw:
            which = kw['boundaryshape'] + '_boundary'
            bc = [l for l in log if l[0] == which]
            oc = [l for l in log if l[0] == 'outside']
            ok = len(bc) == 1 and bc[0][1] == 'BOX_base' and bc[0][2] == 2 and len(oc) == 1 and equal(oc[0][1], disl.atoms.pos, deep=False) \
                and [int(v) for v in disl.atoms.atype] == [3, 2, 3] and tuple(disl.symbols) == ('Al', 'Cu', 'Al', 'Cu')
            ctx.ob('MONOPOLE', loc, '%s: exactly the atoms outside the %s region (built from the reference box and the width) get type + natypes; symbols doubled' % (tag, kw['boundaryshape']), bool(ok),
                   'types %s' % [int(v) for v in disl.atoms.atype], node=fn, key='boundary ' + tag)
        else:
            ctx.ob('MONOPOLE', loc, '%s: no atom is re-typed' % tag, [int(v) for v in disl.atoms.atype] == [1, 2, 1], node=fn, key='boundary ' + tag)
        ret = r[0].ret
        ctx.ob('MONOPOLE', loc, '%s: returns %s' % (tag, '(reference, dislocation)' if kw.get('return_base_system') else 'the dislocation system'),
               (isinstance(ret, tuple) and ret[0] is base and ret[1] is disl) if kw.get('return_base_system') else ret is disl, node=fn, key='ret ' + tag)
    # which shift: a given shift / shift index (0 included) is set before it is used; with neither, the current one is kept
    TS = symarray('t', (3,), real=True)
    for tag, kw, want_call, want_shift in (('shiftindex=0', dict(shiftindex=0), (None, 0, False), TS), ('shiftindex=2', dict(shiftindex=2), (None, 2, False), TS),
                                           ('shift vector, box-relative', dict(shift='V', shiftscale=True), ('V', None, True), TS), ('neither', {}, None, SH)):
        obj, ev, log, base, copies = setup(1)
        obj.attrs['set_shift'] = lambda *a, o=obj, l=log, **k: (l.append(('set_shift', _sargs(a, k))), o.attrs.__setitem__('shift', TS))[0]
        try:
            r = [q for q in ev.run_fn(fn, [obj], dict(kw)) if q.done == 'return']
        except Opaque as e:
            raise AnalysisError('monopole (%s): %s' % (tag, e))
        calls = [l[1] for l in log if l[0] == 'set_shift']
        wr = [l for l in log if l[0] == 'wrap']
        ok = len(r) == 1 and (calls == [want_call] if want_call is not None else calls == []) and len(wr) >= 1 and equal(wr[0][2], P + want_shift, deep=False)
        ctx.ob('MONOPOLE', loc, '%s: %s' % (tag, 'the shift is set from the arguments before the reference crystal is moved by it' if want_call is not None else 'the current shift is kept'), bool(ok),
               'set_shift calls %s' % (calls,), node=fn, key='shift ' + tag)
    obj, ev, log, base, copies = setup(1)
    paths = ev.run_fn(fn, [obj], dict(boundaryshape='sphere'))
    ctx.ob('MONOPOLE', loc, 'an unknown boundary shape is refused', not [q for q in paths if q.done == 'return'], node=fn, key='shape')


def _sargs(a, k):
    """the arguments of Dislocation.set_shift(shift, shiftindex, shiftscale) as a tuple, however they were passed"""
    names = ('shift', 'shiftindex', 'shiftscale')
    vals = dict(zip(names, a))
    vals.update(k)
    return tuple(vals.get(n_, False if n_ == 'shiftscale' else None) for n_ in names)


class Plane(PyStub):
    def __init__(self, i):
        self.i = i
        self.point = symarray('pt%d_' % i, (3,), real=True)
        self.normal = symarray('nr%d_' % i, (3,), real=True)
        self.point0 = self.point.copy()


def boundary(ctx):
    for rel, name, idx_attr, want_fn in ((MO, 'box_boundary', 'lineindex', lambda k: [i for i in range(3) if i != k]), (PA, 'array_boundary', 'cutindex', lambda k: [k])):
        fn = ctx.fn(rel, name)
        for k in range(3):
            planes = [Plane(i) for i in range(6)]

            class B(PyStub):
                pass
            b = B()
            b.planes = planes
            made = []
            obj = SymObj(None, {idx_attr: k}, 'self')
            ev = SymEval(module_aliases(ctx.mod(rel)))
            ev.globals = {'PlaneSet': lambda ps: (made.append(list(ps)) or 'PLANESET')}
            w = sp.Symbol('w', positive=True)
            try:
                ev.run_fn(fn, [obj, b, w], {})
            except Opaque as e:
                raise AnalysisError('%s: %s' % (name, e))
            want = sorted(i for a in want_fn(k) for i in (a, a + 3))
            got = sorted(p.i for p in made[0]) if made else None
            ok = got == want and all(equal(p.point, p.point0 - w * p.normal, deep=False) for p in made[0]) and all(equal(planes[i].point, planes[i].point0, deep=False) for i in range(6) if i not in want)
            ctx.ob('BOUNDARY', '%s::%s' % (rel, name), '%s=%d: the region is bounded by the cell faces %s, each moved inward (against its outward normal) by the width' % (idx_attr, k, want), bool(ok), 'faces %s' % got, node=fn, key='%s %d' % (name, k))
    # cylinder
    fn = ctx.fn(MO, 'cylinder_boundary')
    loc = MO + '::cylinder_boundary'
    R = sp.Rational
    for tag, line, vects, origin in (('rectangular cross-section', 2, [[6, 0, 0], [0, 4, 0], [0, 0, 3]], [-3, -2, 0]), ('tilted cross-section', 2, [[6, 0, 0], [2, 5, 0], [0, 0, 3]], [-4, R(-5, 2), 0]),
                                     ('tilted, line along x, m=y n=z', 0, [[3, 0, 0], [0, 6, 1], [0, 2, 5]], [0, -4, -3]),
                                     ('second side vector tilted and nearest', 2, [[4, 0, 0], [3, 12, 0], [0, 0, 3]], [R(-7, 2), -6, 0]),
                                     ('first side vector tilted and nearest', 2, [[3, 12, 0], [4, 0, 0], [0, 0, 3]], [R(-7, 2), -6, 0]),
                                     ('off-centre line in a tilted cell', 2, [[4, 0, 0], [3, 12, 0], [0, 0, 3]], [-3, -5, 0])):
        made = []
        mn = {2: ([1, 0, 0], [0, 1, 0]), 0: ([0, 1, 0], [0, 0, 1])}[line]

        class Sol(PyStub):
            m, n = arr(mn[0]), arr(mn[1])
        V = arr(vects)

        class B(PyStub):
            pass
        b = B()
        b.vects, b.origin = V, arr(origin)
        obj = SymObj(None, {'dislsol': Sol(), 'lineindex': line}, 'self')
        ev = SymEval(module_aliases(ctx.mod(MO)))
        ev.globals = {'Cylinder': lambda c1, c2, r, **k: (made.append((c1, c2, r, k)) or 'CYL')}
        w = R(1, 2)
        try:
            ev.run_fn(fn, [obj, b, w], {})
        except WouldRaise as e:
            ctx.ob('BOUNDARY', loc, '%s: the cylinder can be built' % tag, False, str(e), node=fn, key='cyl ' + tag)
            continue
        except Opaque as e:
            raise AnalysisError('cylinder_boundary (%s): %s' % (tag, e))
        # independent: distance from the line (origin of the m-n plane) to the four side faces
        M2 = np.array([mn[0], mn[1]], dtype=object)
        v1, v2, o2 = M2.dot(V[line - 2]), M2.dot(V[line - 1]), M2.dot(arr(origin))
        cr = lambda a, b_: a[0] * b_[1] - a[1] * b_[0]
        dists = [sp.Abs(cr(o2, v1)) / sp.sqrt(v1.dot(v1)), sp.Abs(cr(o2, v2)) / sp.sqrt(v2.dot(v2)), sp.Abs(cr(o2 + v2, v1)) / sp.sqrt(v1.dot(v1)), sp.Abs(cr(o2 + v1, v2)) / sp.sqrt(v2.dot(v2))]
        want = sp.Min(*dists) - w
        ok = len(made) == 1 and sp.simplify(made[0][2] - want) == 0
        ctx.ob('BOUNDARY', loc, '%s: radius = (smallest distance from the dislocation line to the four side faces) - width' % tag, bool(ok), 'radius %s, expected %s' % (made[0][2] if made else None, want), node=fn, key='radius ' + tag)
        ok = len(made) == 1 and equal(np.asarray(made[0][0], dtype=object), arr([0, 0, 0]), deep=False) and equal(np.asarray(made[0][1], dtype=object), V[line], deep=False) and made[0][3].get('endcaps') is False
        ctx.ob('BOUNDARY', loc, '%s: the cylinder axis runs from the origin along the line box vector, open ended' % tag, bool(ok), node=fn, key='axis ' + tag)


def array(ctx):
    fn = ctx.fn(PA, 'build_disl_array')
    loc = PA + '::build_disl_array'
    aliases = module_aliases(ctx.mod(PA))
    # (the cell tilt, the deletion count and the refusals are decided by array_model on the model crystal)
    bb = symarray('b', (3,), real=True)
    # linear displacement
    lfn = ctx.fn(PA, 'linear_displacement')
    x, y, L = sp.symbols('x y L', positive=True)
    for sy in (1, -1):
        pos = arr([[x, sy * y, 0]])
        r = [q for q in SymEval(aliases).run_fn(lfn, [pos, bb, L, arr([1, 0, 0]), arr([0, 1, 0])], {}) if q.done == 'return'][0].ret
        want = sy * (sp.Rational(1, 4) - x / (2 * L)) * bb
        ctx.ob('ARRAY', PA + '::linear_displacement', 'linear field %s the slip plane: %s(1/4 - x/2L) b (odd in n, linear in m; the two sides differ by b/2 - x b/L)' % ('above' if sy > 0 else 'below', '+' if sy > 0 else '-'),
               equal(np.asarray(r, dtype=object)[0], want, deep=False), node=lfn, key='linear %d' % sy)
    # top-level periodicarray
    pfn = ctx.fn(PA, 'periodicarray')
    locp = PA + '::periodicarray'
    log = []
    P = symarray('p', (3, 3), real=True)
    SH = symarray('s', (3,), real=True)
    base = Sysm(log, 'base', P.copy())

    class Ix(PyStub):
        def __getitem__(self, ids):
            log.append(('trim', ids))
            return trimmed
    trimmed = Sysm(log, 'trimmed', P.copy())
    base.atoms_ix = Ix()

    class AtB(PyStub):
        # the reference atoms: indexing them by the kept ids is the same reduction as the system's atom indexer
        pos = base.atoms.pos
        atype = base.atoms.atype

        def __getitem__(self, ids):
            log.append(('trim', ids))
            return trimmed.atoms
    base.atoms = AtB()

    def mkSystem(**kw):
        # the indexer written out: a System of the reduced atoms with the reference system's own box, periodicity and symbols is the trimmed reference system
        if kw.get('atoms') is trimmed.atoms and kw.get('box') == base.box and kw.get('symbols') == base.symbols and kw.get('pbc') == base.pbc:
            return trimmed
        raise Opaque('System(%s) on the model' % sorted(kw))
    disl = Sysm(log, 'disl', P.copy())
    disl.atoms.old_id = 'OLD_ID'

    class RC(PyStub):
        class B(PyStub):
            a, b, c = 3, 4, 5
        box = B()

        def supersize(self, *m):
            log.append(('supersize', list(m)))
            return base

    class Shape(PyStub):
        def outside(self, pos):
            return np.array([False, True, True])

        def inside(self, pos):
            return np.array([True, False, False])
    obj = SymObj(None, {'lineindex': 0, 'rcell': RC(), 'shift': SH, 'set_shift': lambda *a, **k: None, 'set_systems': lambda base_system=None, disl_system=None: log.append(('set_systems', base_system, disl_system)),
                        'build_disl_array': lambda b, c, **k: (log.append(('build', b, np.array(c, dtype=object), k)) or disl), 'array_boundary': lambda box, w: (log.append(('array_boundary', box, w)) or Shape())}, 'self')
    def SymEvalPA():
        e_ = SymEval(aliases)
        e_.np_override = {'numpy.ceil': lambda v: sp.ceiling(v)}
        e_.globals = {'System': mkSystem}
        return e_
    ev = SymEvalPA()
    try:
        r = [q for q in ev.run_fn(pfn, [obj], dict(sizemults=(1, 4, 2), boundarywidth=sp.Integer(3), linear=True, cutoff=sp.Rational(1, 2))) if q.done == 'return']
    except Opaque as e:
        raise AnalysisError('periodicarray: %s' % e)
    ss = [l for l in log if l[0] == 'supersize']
    got = [tuple(int(v) for v in m) for m in ss[0][1]] if ss else None
    ctx.ob('ARRAY', locp, 'replication (0, n) along the line and symmetric about the origin in the other two directions; a documented tuple is accepted', got == [(0, 1), (-2, 2), (-1, 1)], str(got), node=pfn, key='mults')
    bl = [l for l in log if l[0] == 'build']
    wr = [l for l in log if l[0] == 'wrap']
    ok = len(bl) == 1 and bl[0][1] is base and equal(bl[0][2], arr([0, 0, 0]), deep=False) and bl[0][3] == {'linear': True, 'bwidth': 3, 'cutoff': sp.Rational(1, 2)} and len(wr) >= 1 and wr[0][1] == 'base' \
        and equal(wr[0][2], P + SH, deep=False) and log.index(wr[0]) < log.index(bl[0])
    ctx.ob('ARRAY', locp, 'the reference crystal is replicated, shifted and wrapped before the array is built from it (centre, linear, boundary width and cutoff forwarded)', bool(ok), str(bl)[:200], node=pfn, key='build')
    tr = [l for l in log if l[0] == 'trim']
    st = [l for l in log if l[0] == 'set_systems']
    ok = len(tr) == 1 and tr[0][1] == 'OLD_ID' and len(st) == 1 and st[0][1] is trimmed and st[0][2] is disl
    ctx.ob('ARRAY', locp, 'the reference system is reduced to the atoms kept (by their old_id), so that both stored systems correspond atom for atom', bool(ok), node=pfn, key='trim')
    ok = [int(v) for v in disl.atoms.atype] == [1, 4, 3] and tuple(disl.symbols) == ('Al', 'Cu', 'Al', 'Cu')
    ctx.ob('ARRAY', locp, 'atoms outside the inward-moved cut faces get type + natypes; symbols doubled', ok, str([int(v) for v in disl.atoms.atype]), node=pfn, key='retype')
    TS = symarray('t', (3,), real=True)
    for tag, kw, want_call, want_shift in (('shiftindex=0', dict(shiftindex=0), (None, 0, False), TS), ('shift vector', dict(shift='V'), ('V', None, False), TS),
                                           ('shift vector, box-relative', dict(shift='V', shiftscale=True), ('V', None, True), TS), ('neither', {}, None, SH)):
        del log[:]
        base.atoms.pos = P.copy()
        disl.atoms.atype = arr([1, 2, 1])
        disl.symbols = ('Al', 'Cu')
        obj.attrs['shift'] = SH
        obj.attrs['set_shift'] = lambda *a, **k: (log.append(('set_shift', _sargs(a, k))), obj.attrs.__setitem__('shift', TS))[0]
        try:
            r = [q for q in SymEvalPA().run_fn(pfn, [obj], dict(sizemults=(1, 4, 2), **kw)) if q.done == 'return']
        except Opaque as e:
            raise AnalysisError('periodicarray (%s): %s' % (tag, e))
        calls = [l[1] for l in log if l[0] == 'set_shift']
        wr = [l for l in log if l[0] == 'wrap']
        ok = len(r) == 1 and (calls == [want_call] if want_call is not None else calls == []) and len(wr) >= 1 and equal(wr[0][2], P + want_shift, deep=False)
        ctx.ob('ARRAY', locp, '%s: %s' % (tag, 'the shift is set from the arguments before the reference crystal is moved by it' if want_call is not None else 'the current shift is kept'), bool(ok),
               'set_shift calls %s' % (calls,), node=pfn, key='shift ' + tag)


def _tobool(m):
    m = np.asarray(m)
    if m.dtype == object and all(v in (sp.true, sp.false, True, False) for v in m.ravel()):
        return np.array([bool(v) for v in m.ravel()]).reshape(m.shape)
    return m


class MAtoms(PyStub):
    """per-atom table: every property is sliced together (the part of Atoms the array generator relies on)"""
    def __init__(self, view):
        object.__setattr__(self, 'view', {k: np.array(v, dtype=object) for k, v in view.items()})

    def __getattr__(self, k):
        v = object.__getattribute__(self, 'view')
        if k in v:
            return v[k]
        raise AttributeError(k)

    def __setattr__(self, k, val):
        val = np.array(list(val) if isinstance(val, range) else val, dtype=object)
        if len(val) != len(self.view['pos']):
            raise ModelError('ValueError', 'per-atom property %s of length %d for %d atoms' % (k, len(val), len(self.view['pos'])))
        self.view[k] = val

    @property
    def natoms(self):
        return len(self.view['pos'])

    def __getitem__(self, ix):
        ix = _tobool(ix)
        return MAtoms({k: v[ix] for k, v in self.view.items()})

    def __deepcopy__(self, memo=None):
        return MAtoms({k: v.copy() for k, v in self.view.items()})


class MBox(PyStub):
    def __init__(self, vects=None, origin=None):
        self._v = np.array(vects, dtype=object)
        self._o = np.array(origin if origin is not None else [0, 0, 0], dtype=object)

    @property
    def vects(self):
        return self._v.copy()

    @property
    def origin(self):
        return self._o.copy()

    @property
    def volume(self):
        return sp.Abs(sp.Matrix(self._v.tolist()).det())

    def inv(self):
        return np.array(sp.Matrix(self._v.tolist()).inv().tolist(), dtype=object)


class MSys(PyStub):
    def __init__(self, atoms=None, box=None, pbc=None, symbols=None):
        self.atoms, self.box, self.pbc, self.symbols = atoms, box, list(pbc), symbols
        self.wrapped = []

    @property
    def natoms(self):
        return self.atoms.natoms

    def atoms_prop(self, key=None, scale=False, **kw):
        if key != 'pos' or not scale:
            raise Opaque('atoms_prop(%s, scale=%s) on the model system' % (key, scale))
        return (self.atoms.pos - self.box._o).dot(self.box.inv())

    def dvect(self, i, js):
        d = np.atleast_2d(self.atoms.pos[np.asarray(js, dtype=int)] - self.atoms.pos[int(i)]).dot(self.box.inv())
        for r in range(d.shape[0]):
            for k in range(3):
                if self.pbc[k]:
                    d[r, k] = d[r, k] - sp.floor(d[r, k] + sp.Rational(1, 2))
        return d.dot(self.box._v)

    def wrap(self):
        self.wrapped.append(self.atoms.pos.copy())


def array_model(ctx):
    """build_disl_array evaluated on a 4x4 single-layer model crystal (exact rational positions, symbolic elastic field)"""
    import copy
    fn = ctx.fn(PA, 'build_disl_array')
    loc = PA + '::build_disl_array'
    R = sp.Rational
    xs = [R(-7, 4), R(-3, 4), R(1, 4), R(5, 4)]
    C = arr([R(1, 8), R(1, 16), 0])

    def lin(rel, b, L):
        sgn = sp.sign(rel[1])
        return np.array([sgn * (R(1, 4) - rel[0] / (2 * L)) * bi for bi in b], dtype=object)

    def run(burgers, linear, order, cutoff=R(1, 2), ys=None, **kw):
        ys_ = ys or xs
        pts = [[x, y, 0] for y in ys_ for x in xs] if order == 'rows' else [[x, y, 0] for x in reversed(xs) for y in reversed(ys_)]
        P = np.array(pts, dtype=object)
        base = MSys(atoms=MAtoms({'pos': P, 'atype': [1 + (i % 2) for i in range(len(P))], 'tag': [sp.Symbol('t%d' % i) for i in range(len(P))]}), box=MBox([[4, 0, 0], [0, 4, 0], [0, 0, 1]], [-2, -2, 0]),
                    pbc=[True, True, True], symbols=('Al', 'Cu'))

        class Sol(PyStub):
            m, n = arr([1, 0, 0]), arr([0, 1, 0])

            def displacement(self, x):
                return np.array([[sp.Function('u%d' % j)(*row) for j in range(3)] for row in np.asarray(x, dtype=object)], dtype=object)
        Sol.burgers = arr(burgers)
        obj = SymObj(None, {'dislsol': Sol(), 'lineindex': 2, 'cutindex': 1, 'motionindex': 0}, 'self')
        ev = SymEval(module_aliases(ctx.mod(PA)))
        ev.module = ctx.mod(PA)
        ev.funcs['linear_displacement'] = ctx.fn(PA, 'linear_displacement')
        made = []

        def mk(**k):
            made.append(MSys(**k))
            return made[-1]

        def close(a, b, rtol=R(1, 10 ** 5), atol=R(1, 10 ** 8), **k):
            f = lambda v: bool(sp.Abs(sp.sympify(v) - b) <= atol + rtol * abs(b))
            return np.array([f(v) for v in np.ravel(a)]).reshape(np.shape(a)) if np.ndim(a) else f(a)
        ev.globals = {'System': mk, 'Box': lambda **k: MBox(**k), 'deepcopy': lambda x: x.copy() if isinstance(x, np.ndarray) else copy.deepcopy(x), 'round': lambda x: sp.floor(x + R(1, 2)), 'int': lambda x: x}
        ev.np_override = {'numpy.isclose': close}
        args = dict(linear=linear, bwidth=sp.Integer(1), cutoff=cutoff)
        args.update(kw)
        try:
            paths = ev.run_fn(fn, [obj, base, C], args)
        except WouldRaise as e:
            return 'raise', None, base, P, str(e)
        except Opaque as e:
            raise AnalysisError('build_disl_array on the model crystal: %s' % e)
        live = [q for q in paths if q.done == 'return']
        if len(live) != 1:
            return 'raise', None, base, P, ''
        return 'ok', live[0].ret, base, P, ''
    n = 0
    for tag, burgers, linear, order in (('edge b=+m, elastic field blended with the linear one', [1, 0, 0], False, 'rows'), ('edge b=+m, linear field only', [1, 0, 0], True, 'rows'),
                                        ('edge b=-m, blended, atoms listed column by column', [-1, 0, 0], False, 'cols'), ('mixed b=m+xi/2, blended', [1, 0, R(1, 2)], False, 'cols'),
                                        ('screw b=xi, blended', [0, 0, 1], False, 'rows')):
        n += 1
        st, d, base, P, why = run(burgers, linear, order)
        if st != 'ok' or not isinstance(d, MSys):
            ctx.ob('ARRAY', loc, '%s: the array is built' % tag, False, why, node=fn, key='model built ' + tag)
            continue
        b = arr(burgers)
        edge = b[0]
        want_removed = 2 if edge != 0 else 0
        ids = [int(v) for v in d.atoms.view.get('old_id', [])]
        ctx.ob('ARRAY', loc, '%s: exactly %d of the 16 atoms are removed (the count implied by the edge component)' % (tag, want_removed), d.natoms == 16 - want_removed, '%d atoms left' % d.natoms, node=fn, key='model count ' + tag)
        ok = len(ids) == d.natoms and len(set(ids)) == len(ids) and all(0 <= i < 16 for i in ids) and all(d.atoms.tag[k] == base.atoms.tag[i] and d.atoms.atype[k] == base.atoms.atype[i] for k, i in enumerate(ids))
        ctx.ob('ARRAY', loc, '%s: old_id maps every remaining atom to the reference atom it was taken from (same type and properties)' % tag, bool(ok), str(ids), node=fn, key='model old_id ' + tag)
        if not ok:
            continue
        # new cell
        wantv = np.array([[4, 0, 0], [0, 4, 0], [0, 0, 1]], dtype=object)
        wantv[0] = wantv[0] - sp.sign(edge) * b / 2 if edge != 0 else wantv[0] + b / 2
        okb = equal(d.box._v, wantv, deep=False) and equal(d.box._o, arr([-2, -2, 0]), deep=False) and list(d.pbc) == [True, False, True]
        ctx.ob('ARRAY', loc, '%s: the cell keeps its origin, its in-plane vector along m changes by b/2 (shorter by |b.m|/2), and it is periodic except across the slip plane' % tag, bool(okb),
               'vects %s pbc %s' % (d.box._v.tolist(), d.pbc), node=fn, key='model box ' + tag)
        # displacement of every remaining atom
        L = sp.Integer(4)
        rel = [P[i] - C for i in ids]
        U = [[sp.Function('u%d' % j)(*r) for j in range(3)] for r in rel]
        mean_cut = sum(u[1] for u in U) / len(U)
        bad = []
        for k, i in enumerate(ids):
            y = P[i][1]
            if linear or y <= -2 + 1 or y >= 2 - 1:
                want = P[i] + lin(rel[k], b, L)
            else:
                want = P[i] + np.array([U[k][0], U[k][1] - mean_cut, U[k][2]], dtype=object)
            if not equal(d.atoms.pos[k], want, deep=False):
                bad.append('atom %d (reference atom %d at %s)' % (k, i, list(P[i])))
        ctx.ob('ARRAY', loc, '%s: each remaining atom is its reference atom displaced by the field evaluated at that atom\'s own reference position relative to the centre (%s)' % (
            tag, 'linear field' if linear else 'elastic solution, mean normal component removed; linear field within the boundary width of the two surfaces'), not bad, '; '.join(bad[:3]), node=fn, key='model disp ' + tag)
        ctx.ob('ARRAY', loc, '%s: the system is wrapped after the displacement' % tag, len(d.wrapped) >= 1 and equal(d.wrapped[-1], d.atoms.pos, deep=False), node=fn, key='model wrap ' + tag)
        # no two remaining atoms coincide (linear field, new periodicity)
        ref = MSys(atoms=MAtoms({'pos': np.array([P[i] + lin(P[i] - C, b, L) for i in ids], dtype=object)}), box=MBox(wantv, [-2, -2, 0]), pbc=[True, False, True])
        close_pairs = []
        for a_ in range(len(ids) - 1):
            dv = ref.dvect(a_, list(range(a_ + 1, len(ids))))
            for off, row in enumerate(dv):
                if sum(x ** 2 for x in row) < R(1, 4):
                    close_pairs.append((ids[a_], ids[a_ + 1 + off]))
        ctx.ob('ARRAY', loc, '%s: no two remaining atoms lie within the cutoff of each other across the new periodic boundaries' % tag, not close_pairs, str(close_pairs[:3]), node=fn, key='model overlap ' + tag)
    ctx.floor('ARRAY', n, 5)
    # refusals on the model crystal
    st, d, base, P, why = run([1, 0, 0], False, 'rows', ys=[R(-7, 4), R(-3, 4), 0, R(5, 4)])
    ctx.ob('ARRAY', loc, 'refused: an atom on the slip plane (model crystal with a row at relative height 1/2)', st == 'raise', node=fn, key='model slip plane')
    st, d, base, P, why = run([R(1, 3), 0, 0], False, 'rows')
    ctx.ob('ARRAY', loc, 'refused: b = m/3 on the 16-atom model crystal (2/3 of an atom to remove)', st == 'raise', node=fn, key='model integer')
    st, d, base, P, why = run([1, 0, 0], False, 'rows', cutoff=R(1, 100))
    ctx.ob('ARRAY', loc, 'refused: cutoff so small that fewer coincident atoms are found than the edge component implies', st == 'raise', node=fn, key='model found fewer')
    st, d, base, P, why = run([1, 0, 0], False, 'rows', cutoff=R(99, 100))
    ctx.ob('ARRAY', loc, 'refused: cutoff so large that more atoms are found than the edge component implies', st == 'raise', node=fn, key='model found more')


def disregistry(ctx):
    c17.disregistry(ctx)


def own_planes(ctx):
    """the boundary builders move the planes they get from Box.planes in place (plane.point -= width * normal); Plane keeps the point array it is given.  Box.planes is
    interpreted on a model box with the real Plane class: the point and normal arrays the six planes end up holding share no memory with the box's stored origin and
    vectors (the reference cell would move with the boundary) nor with one another (two faces would move together)"""
    import numpy as np
    from ..symx import symarray
    BOX, PLANE = 'atomman/core/Box.py', 'atomman/region/Plane.py'
    cls, pcls = ctx.fn(BOX, 'Box'), ctx.fn(PLANE, 'Plane')
    V, o = symarray('v', (3, 3), real=True), symarray('o', (3,), real=True)
    box = SymObj(cls, {'_Box__vects': V, '_Box__origin': o, '_Box__reciprocal_vects': None}, 'box')
    ev = SymEval(module_aliases(ctx.mod(BOX)))
    ev.classes['Plane'] = (pcls, ())
    try:
        pl = ev.getattr(box, 'planes', None, Path({}))
    except (Opaque, WouldRaise) as e:
        raise AnalysisError('Box.planes on the model box: %s' % e)
    pl = list(pl) if isinstance(pl, (tuple, list)) else []
    ctx.need(len(pl) == 6 and all(isinstance(x, SymObj) for x in pl), 'Box.planes does not return six Plane objects on the model box')
    pts = [x.attrs.get('_Plane__point') for x in pl]
    nrm = [x.attrs.get('_Plane__normal') for x in pl]
    ctx.need(all(is_arr(a_) for a_ in pts + nrm), 'the planes of the model box do not hold point and normal arrays')
    bad = []
    for i, a_ in enumerate(pts + nrm):
        what = 'point of plane %d' % i if i < 6 else 'normal of plane %d' % (i - 6)
        if a_ is o or a_ is V or np.shares_memory(a_, o) or np.shares_memory(a_, V):
            bad.append('%s is the box\'s own storage' % what)
        for j, b_ in enumerate((pts + nrm)[:i]):
            if a_ is b_ or np.shares_memory(a_, b_):
                bad.append('%s shares memory with %s' % (what, 'point of plane %d' % j if j < 6 else 'normal of plane %d' % (j - 6)))
    ctx.ob('OWN-PLANES', BOX + '::Box.planes', 'the six planes hold arrays of their own: none is the box\'s stored origin or vectors (or a view of them), no two share memory', not bad, '; '.join(bad[:4]),
           node=ctx.fn(BOX, 'Box.planes'))
    want = [(np.cross(V[2], V[1]), o), (np.cross(V[0], V[2]), o), (np.cross(V[1], V[0]), o), (np.cross(V[1], V[2]), o + V[0]), (np.cross(V[2], V[0]), o + V[1]), (np.cross(V[0], V[1]), o + V[2])]
    ok = all(equal(np.asarray(p_, dtype=object), np.asarray(w_[1], dtype=object), deep=False) and all(is_zero(sp.simplify(c_)) for c_ in np.cross(np.asarray(n_, dtype=object), w_[0]))
             for p_, n_, w_ in zip(pts, nrm, want))
    ctx.ob('OWN-PLANES', BOX + '::Box.planes', 'the planes are the three lower faces through the origin and the three upper faces through origin + a, b, c, each normal along the cross product of the two in-face vectors', bool(ok),
           node=ctx.fn(BOX, 'Box.planes'), key='planes geometry')


def deleted_count(ctx):
    """the number of atoms to delete (a ratio of volumes) is admitted by a tolerant test and made an int by rounding"""
    lints.tolerant_integer(ctx, 'DELETED-COUNT', PA, 'build_disl_array', floor=1)


def run(ctx):
    ctx.explanation = ('C13: the orientation table, slip-plane shifts, monopole and periodic-array generators and their boundary regions are evaluated on symbolic / model inputs with recording stubs: '
                       'which vector goes in which cell row (handedness), shifts midway between planes, the supersize -> shift -> wrap -> copy -> displace -> pbc -> wrap sequence and its arguments, '
                       'symmetric multipliers, boundary re-typing, cylinder radius on model cross-sections, the b/2 box tilt, refusals, old_id, the linear field. Not decided: the disregistry integral, overlaps.')
    # "the disregistry across the slip plane accumulates to one Burgers vector": for isotropic constants the jump comes from the branch of θ in the fallback solver
    from .c12 import theta_branch
    from .. import lints as _lints
    ctx.run_rules([orient, shifts, monopole, boundary, array, array_model, deleted_count, own_planes, disregistry, theta_branch,
                   lambda c: _lints.length_defaults(c, 'LENGTH-DEFAULTS', PA, 'build_disl_array', ('bwidth', 'cutoff'), floor=2)])
