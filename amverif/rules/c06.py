"""C06 Per-atom data: rectangular, row-aligned, unaliased.

Decided statically (Atoms.py, System.py):
 * RECT-GUARD: every insertion into the per-atom table goes through PropertyDict.__setitem__, whose stores are dominated
   by the three-way shape test (scalar -> broadcast to natoms, leading 1 -> broadcast, else leading != natoms refused)
   and by the atype >= 1 test; nobody else writes the underlying dict.
 * COPY: the copying accessors (Atoms.prop / System.atoms_prop in get mode, Atoms.__deepcopy__, Box getters via C01)
   return fresh storage on every return path (alias analysis).
 * PRESERVE: extend, atoms_extend, __getitem__, __deepcopy__, df, atoms_df, atoms_ix[...] do not write to their operands.
 * ROW-ALIGN: extend gives every property of the result, at rows [natoms_self:], either the appended atoms' values or
   zeros of the receiver's trailing shape and dtype; atoms_extend unscales exactly the appended rows.
 * TYPE-LISTS: symbols / masses getters pad lazily up to the same bound their setters pad to; masses use the system's
   type count; more masses than types refused; atype < 1 refused.
 * INDEXING: integer indices are turned into one-row slices (so rows stay rows), -1 handled; Atoms.__setitem__ demands
   matching property sets.
Declined: equality with a record-per-atom model over arbitrary operation histories.
"""
import ast

from ..core import norm, calls_in, kwarg, AnalysisError, walk_no_nested, cmp_canon
from .. import effects
from ..effects import FRESH, UNKNOWN
import numpy as np
import sympy as sp
from ..symx import SymEval, PyStub, symarray, module_aliases, equal, Opaque, WouldRaise, arr

AT = 'atomman/core/Atoms.py'
SYS = 'atomman/core/System.py'

SUMM = {'.position_cartesian_to_relative': ('fresh',), '.position_relative_to_cartesian': ('fresh',), '.prop': ('fresh',), '.atoms_prop': ('fresh',),
        '.keys': ('fresh',), 'Atoms': ('fresh',), 'System': ('alias', ['atoms', 'box', 0, 1]), 'indexstr': ('fresh',), 'pd.DataFrame': ('fresh',),
        '.extend': ('fresh',), 'aslist': ('fresh',)}


def rect_guard(ctx):
    fn = ctx.fn(AT, 'Atoms.PropertyDict.__setitem__')
    loc = AT + '::Atoms.PropertyDict.__setitem__'
    # model evaluation: the method applied to values of every leading-shape class, for a new key and for an existing key
    N = 5
    ev_aliases = module_aliases(ctx.mod(AT))

    class Host(PyStub):
        natoms = N

    class Sup(PyStub):
        def __init__(self, rec):
            self.rec = rec

        def __setitem__(self, k, v):
            self.rec.append(('insert', k, v))

        def __setattr__(self, k, v):
            if k == 'rec':
                object.__setattr__(self, k, v)

    class View(PyStub):
        def __init__(self, existing):
            self.store = dict(existing)
            setattr(self, '__host', Host())
            setattr(self, '_PropertyDict__host', Host())

        def keys(self):
            return list(self.store.keys())

        def __contains__(self, k):
            return k in self.store

        def __getitem__(self, k):
            return self.store[k]

    def run(key, value, existing):
        rec = []
        view = View(existing)
        ev = SymEval(ev_aliases)
        class _A(PyStub):
            PropertyDict = 'PropertyDict'
        ev.globals = {'super': lambda *a: Sup(rec), 'dir': lambda o: [], 'Atoms': _A()}
        paths = ev.run_fn(fn, [view, key, value], {})
        live = [q for q in paths if q.done == 'return']
        raised = [q for q in paths if q.done == 'raise']
        return view, rec, live, raised
    cases = [('scalar', ()), ('one row', (1,)), ('one row of vectors', (1, 3)), ('natoms rows', (N,)), ('natoms vectors', (N, 3)), ('natoms tensors', (N, 3, 3)),
             ('two rows', (2,)), ('six rows', (N + 1,)), ('two vectors', (2, 3)), ('three numbers for vector property', (3,)), ('3x3 for tensor property', (3, 3)), ('zero rows', (0, 3))]
    n_cases = 0
    for name, shp in cases:
        good = shp == () or shp[0] in (1, N)
        trailing = shp[1:] if shp != () else ()
        for mode in ('new key', 'existing key'):
            n_cases += 1
            val = symarray('w', shp) if shp != () else sp.Symbol('w')
            # an existing property whose trailing shape would let numpy broadcast a wrong-sized value silently
            ex_trailing = trailing if good else (shp if len(shp) >= 1 else ())
            existing = {'k': symarray('e', (N,) + tuple(ex_trailing))} if mode == 'existing key' else {}
            try:
                view, rec, live, raised = run('k', val, existing)
            except WouldRaise as e:
                view, rec, live, raised = None, [], [], ['numpy: %s' % e]
            except Opaque as e:
                raise AnalysisError('PropertyDict.__setitem__ (%s, %s): %s' % (name, mode, e))
            tag = '%s %s, %s' % (name, shp, mode)
            if not good:
                ctx.ob('RECT-GUARD', loc, '%s: refused (first dimension must be 1 or natoms)' % tag, bool(raised) and not live and not rec, 'accepted' if live else '', node=fn, key=tag)
                continue
            ok = len(live) == 1 and not raised
            stored = None
            if ok and mode == 'new key':
                ok = len(rec) == 1 and rec[0][0] == 'insert' and rec[0][1] == 'k'
                stored = rec[0][2] if ok else None
            elif ok:
                ok = not rec
                stored = view.store['k']
            want = np.broadcast_to(np.asarray(val, dtype=object), (N,) + tuple(trailing)) if shp == () or shp[0] == 1 else val
            ok = ok and stored is not None and np.shape(stored) == (N,) + tuple(trailing) and equal(np.asarray(stored, dtype=object), np.asarray(want, dtype=object), deep=False)
            ctx.ob('RECT-GUARD', loc, '%s: stored with exactly natoms rows (%s), trailing shape kept' % (tag, 'broadcast' if (shp == () or shp[0] == 1) and N != 1 else 'as given'), ok,
                   'stored shape %s' % (np.shape(stored),) if stored is not None else 'not stored', node=fn, key=tag)
    ctx.floor('RECT-GUARD/cases', n_cases, 24)
    for mode in ('new key', 'existing key'):
        existing = {'atype': arr([1] * N)} if mode == 'existing key' else {}
        try:
            view, rec, live, raised = run('atype', arr([1, 2, 0, 1, 1]), existing)
        except Opaque as e:
            raise AnalysisError('PropertyDict.__setitem__ (atype, %s): %s' % (mode, e))
        ctx.ob('RECT-GUARD', loc, 'atom types below 1 are refused (%s)' % mode, bool(raised) and not live and not rec, node=fn, key='atype ' + mode)
        view, rec, live, raised = run('atype', arr([1, 2, 3, 1, 1]), existing)
        ctx.ob('RECT-GUARD', loc, 'atom types >= 1 are accepted (%s)' % mode, len(live) == 1 and not raised, node=fn, key='atype ok ' + mode)
    # who may write the dict
    bad = []
    n = 0
    for rel in (AT, SYS):
        mod = ctx.mod(rel)
        for x in ast.walk(mod):
            if isinstance(x, ast.Call):
                f = norm(x.func)
                if f.endswith('.__setitem__') and 'super(' in f:
                    n += 1
                    encl = x
                    while not isinstance(encl, ast.FunctionDef):
                        encl = encl._parent
                    if not (rel == AT and encl is fn):
                        bad.append('%s:%d %s' % (rel, x.lineno, f))
                if any(f.endswith(suf) for suf in ('.view.update', '.view.pop', '.view.setdefault', '.view.popitem', '.view.clear', '.view.move_to_end', 'OrderedDict.__setitem__', 'dict.__setitem__')):
                    bad.append('%s:%d %s' % (rel, x.lineno, f))
            if isinstance(x, ast.Delete) and any('.view[' in norm(t) for t in x.targets):
                bad.append('%s:%d %s' % (rel, x.lineno, norm(x)))
    ctx.floor('RECT-GUARD/writers', n, 1)
    ctx.ob('RECT-GUARD', AT + '::Atoms', 'the per-atom table is written only through the guarded __setitem__ (no update/pop/del/raw dict stores in Atoms.py, System.py)', not bad, '; '.join(bad))
    # natoms fixed at construction
    cls = ctx.fn(AT, 'Atoms')
    w = []
    for f in [x for x in cls.body if isinstance(x, ast.FunctionDef)]:
        for s in ast.walk(f):
            if isinstance(s, ast.Assign) and any(norm(t) == 'self.__natoms' for t in s.targets):
                w.append(f.name)
            if isinstance(s, ast.Call) and norm(s.func).endswith('__setattr__') and s.args and isinstance(s.args[0], ast.Constant) and s.args[0].value in ('_Atoms__natoms', '__natoms'):
                w.append(f.name)
    ctx.ob('RECT-GUARD', AT + '::Atoms', 'the atom count is set by the constructor only', set(w) == {'__init__'}, str(w))


def _returns_fresh(ctx, rel, q, rule, desc, summaries=None, only_if=None):
    fn = ctx.fn(rel, q)
    eff = effects.Effects(fn, summaries=summaries or SUMM)
    rets = [s for s in ast.walk(fn) if isinstance(s, ast.Return) and s.value is not None]
    bad = []
    for r in rets:
        if only_if is not None and not only_if(r):
            continue
        o = eff.origins(r.value)
        if o != {FRESH}:
            bad.append('line %d returns %s (may alias %s)' % (r.lineno, norm(r.value), sorted(o - {FRESH})))
    ctx.ob(rule, '%s::%s' % (rel, q), desc, not bad and len(rets) >= 1, '; '.join(bad), node=fn, key=desc[:60])
    return len(rets)


def copy_discipline(ctx):
    n = _returns_fresh(ctx, AT, 'Atoms.prop', 'COPY', 'every get-mode return of Atoms.prop hands out a copy (list of keys, deep-copied Atoms, deep-copied array)')
    ctx.floor('COPY/Atoms.prop', n, 4)
    n = _returns_fresh(ctx, SYS, 'System.atoms_prop', 'COPY', 'every get-mode return of System.atoms_prop hands out a copy (delegation to Atoms.prop, or converted coordinates)')
    ctx.floor('COPY/System.atoms_prop', n, 3)
    _returns_fresh(ctx, AT, 'Atoms.__deepcopy__', 'COPY', 'a deep copy of Atoms is built from deep-copied arrays')
    dc = ctx.fn(AT, 'Atoms.__deepcopy__')
    t = norm(dc)
    ok = "atype = deepcopy(self.view['atype'])" in t and "pos = deepcopy(self.view['pos'])" in t and 'd[key] = deepcopy(self.view[key])' in t and 'for key in self.view' in t
    ctx.ob('COPY', AT + '::Atoms.__deepcopy__', 'every property (atype, pos and all others) is deep-copied into the new Atoms', ok, node=dc)
    # set-mode with key and no index stores a copy of the caller's value
    p = ctx.fn(AT, 'Atoms.prop')
    st = [s for s in ast.walk(p) if isinstance(s, ast.Assign) and norm(s.targets[0]) == 'self.view[key]']
    ctx.ob('COPY', AT + '::Atoms.prop', 'assigning a whole property stores a copy of the given value', len(st) == 1 and norm(st[0].value) == 'deepcopy(value)', node=p)


def preserve(ctx):
    cases = [(AT, 'Atoms.extend', {'self', 'value'}), (SYS, 'System.atoms_extend', {'self', 'value'}), (AT, 'Atoms.__getitem__', {'self'}), (AT, 'Atoms.__deepcopy__', {'self'}),
             (AT, 'Atoms.df', {'self'}), (SYS, 'System.atoms_df', {'self'}), (SYS, 'System._AtomsIndexer.__getitem__', {'self'}), (SYS, 'System.supersize', {'self'}),
             (SYS, 'System.rotate', {'self'})]
    n = 0
    for rel, q, params in cases:
        fn = ctx.fn(rel, q)
        fancy = ('index',) if q in ('Atoms.extend',) else ()
        muts, eff = effects.param_mutations(fn, params, summaries=dict(SUMM, **{'self.box.vects': ('fresh',), 'self.box.origin': ('fresh',), '.supersize': ('fresh',), 'deepcopy': ('fresh',),
                                                                               'miller.vector_crystal_to_cartesian': ('fresh',), 'miller.vector4to3': ('fresh',)}),
                                            mutating_methods=('wrap', 'box_set', 'set', 'prop_atype'), fancy_hint=fancy)
        # documented exception: safecopy=False shares storage by design; sharing is not mutation
        muts = [m for m in muts if not _benign_local(m, fn)]
        n += 1
        ctx.ob('PRESERVE', '%s::%s' % (rel, q), 'the operation does not write to its operand(s) %s' % sorted(params), not muts,
               '; '.join('%s at line %d' % (w, nd.lineno) for nd, r, w in muts), node=muts[0][0] if muts else fn, key='preserve ' + q)
    ctx.floor('PRESERVE', n, 9)


def _benign_local(m, fn):
    node, root, what = m
    # rebinding a parameter slot of a *local list built from the parameters* (sizes[i] = (0, sizes[i]) in supersize) does not touch the caller's objects
    if isinstance(node, ast.Assign) and isinstance(node.targets[0], ast.Subscript) and isinstance(node.targets[0].value, ast.Name):
        nm = node.targets[0].value.id
        for s in fn.body:
            if isinstance(s, ast.Assign) and any(isinstance(t, ast.Name) and t.id == nm for t in s.targets) and isinstance(s.value, ast.List):
                return True
    return False


def row_align(ctx):
    fn = ctx.fn(AT, 'Atoms.extend')
    loc = AT + '::Atoms.extend'
    _extend_model(ctx, fn, loc)
    return _row_align_rest(ctx)


def _extend_model(ctx, fn, loc):
    """evaluate Atoms.extend on analyser-side models of two Atoms with differing property sets (symbolic entries)"""
    import numpy as np
    import sympy as sp
    from ..symx import SymEval, PyStub, symarray, module_aliases, equal, Opaque

    class StubAtoms(PyStub):
        def __init__(self, view):
            self.view = view
            self.natoms = len(next(iter(view.values())))

        def prop(self):
            return list(self.view.keys())

        def __getitem__(self, idx):
            return StubAtoms({k: np.array(v[idx], dtype=object) for k, v in self.view.items()})

    class AtomsMarker(PyStub):
        def __call__(self, natoms=None):
            at = np.empty(natoms, dtype=object)
            at[...] = sp.Integer(1)
            pz = np.empty((natoms, 3), dtype=object)
            pz[...] = sp.Integer(0)
            return StubAtoms({'atype': at, 'pos': pz})
    marker = AtomsMarker()

    def isinst(a, b):
        if b is marker:
            return isinstance(a, StubAtoms)
        return isinstance(a, int) and not isinstance(a, bool)
    me = StubAtoms({'atype': symarray('t', (2,)), 'pos': symarray('x', (2, 3)), 'p': symarray('p', (2, 2))})
    other = StubAtoms({'atype': symarray('u', (3,)), 'pos': symarray('y', (3, 3)), 'q': symarray('q', (3,))})
    for label, value, nval in (('Atoms with a differing property set', other, 3), ('a count', 2, 2)):
        ev = SymEval(module_aliases(ctx.mod(AT)))
        before = {k: v.copy() for k, v in me.view.items()}
        try:
            paths = ev.run_fn(fn, env={'self': me, 'value': value, 'Atoms': marker, 'isinstance': isinst})
        except Opaque as e:
            raise AnalysisError('Atoms.extend left the vocabulary: %s' % e)
        live = [p for p in paths if p.done == 'return']
        ctx.need(len(live) == 1 and isinstance(live[0].ret, StubAtoms), 'Atoms.extend does not return one Atoms on the model inputs')
        res = live[0].ret
        src = value if isinstance(value, StubAtoms) else marker(natoms=nval)
        bad = []
        want_keys = set(me.view) | set(src.view)
        if set(res.view) != want_keys:
            bad.append('properties %s, expected %s' % (sorted(res.view), sorted(want_keys)))
        for k in sorted(want_keys & set(res.view)):
            arr_ = res.view[k]
            if len(arr_) != 2 + nval:
                bad.append('%s has %d rows, expected %d' % (k, len(arr_), 2 + nval))
                continue
            head = me.view[k] if k in me.view else np.zeros((2,) + src.view[k].shape[1:], dtype=object)
            tail = src.view[k] if k in src.view else np.zeros((nval,) + me.view[k].shape[1:], dtype=object)
            if not equal(arr_[:2], head, deep=False):
                bad.append('%s: receiver rows are not the receiver\'s values%s' % (k, '' if k in me.view else ' (expected zeros)'))
            if not equal(arr_[2:], tail, deep=False):
                bad.append('%s: appended rows are not %s' % (k, 'the appended atoms\' values' if k in src.view else 'the documented default 0'))
        ctx.ob('ROW-ALIGN', loc, 'extending by %s: every property has natoms_self + natoms_new rows; receiver rows first and unchanged, appended rows = appended values, missing values = 0' % label,
               not bad, '; '.join(bad), node=fn, key='model ' + label)
        unchanged = all(equal(me.view[k], before[k], deep=False) for k in before) and set(me.view) == set(before)
        ctx.ob('ROW-ALIGN', loc, 'extending by %s leaves the receiver\'s arrays untouched' % label, unchanged, node=fn, key='model preserve ' + label)


def _row_align_rest(ctx):
    return _atoms_extend_rules(ctx)


def _atoms_extend_rules(ctx):
    ae = ctx.fn(SYS, 'System.atoms_extend')
    st = [s for s in ast.walk(ae) if isinstance(s, ast.Assign) and isinstance(s.targets[0], ast.Subscript) and norm(s.targets[0].value) == 'atoms.pos']
    ok = len(st) == 1 and isinstance(st[0].targets[0].slice, ast.Slice) and norm(st[0].targets[0].slice.lower) == 'self.natoms' and st[0].targets[0].slice.upper is None \
        and norm(st[0].value) == 'self.box.position_relative_to_cartesian(value.pos)' and isinstance(st[0]._parent, ast.If) and norm(st[0]._parent.test) == 'scale'
    ctx.ob('ROW-ALIGN', SYS + '::System.atoms_extend', 'scaled input positions are unscaled into exactly the appended rows [natoms_self:]', ok, norm(st[0]) if st else '', node=st[0] if st else ae)
    c = [x for x in calls_in(ae) if norm(x.func) == 'self.atoms.extend']
    ctx.ob('ROW-ALIGN', SYS + '::System.atoms_extend', 'the atoms are extended by Atoms.extend (receiver first)', len(c) == 1 and norm(c[0].args[0]) == 'value', node=ae)
    r = [x for x in calls_in(ae) if norm(x.func) == 'System']
    ok = len(r) == 1 and norm(kwarg(r[0], 'atoms')) == 'atoms' and norm(kwarg(r[0], 'pbc')) == 'self.pbc' and norm(kwarg(r[0], 'symbols')) == 'symbols' and norm(kwarg(r[0], 'box')) == 'box'
    ctx.ob('ROW-ALIGN', SYS + '::System.atoms_extend', 'the new system carries the extended atoms with the receiver\'s box, periodicity and symbols', ok, node=ae)
    t = [s for s in ae.body if isinstance(s, ast.If) and 'scale is True' in norm(s.test) and 'isinstance(value, Atoms)' in norm(s.test)]
    ctx.ob('ROW-ALIGN', SYS + '::System.atoms_extend', 'scale=True with a count is refused', len(t) == 1 and any(isinstance(x, ast.Raise) for x in t[0].body), node=ae)


def type_lists(ctx):
    for name, bound in (('symbols', None), ('masses', 'self.natypes')):
        g = ctx.fn(SYS, 'System.' + name)
        s = ctx.fn(SYS, 'System.' + name, setter=True)
        gi = [x for x in g.body if isinstance(x, ast.If)]
        ok = len(gi) == 1
        gb = sb = None
        if ok:
            cc = cmp_canon(gi[0].test)
            ok = cc is not None and cc[1] == '>' and cc[2] == 'len(self.__%s)' % name and norm(gi[0].body[0]) == 'self.%s = self.__%s' % (name, name)
            gb = cc[0] if cc else None
        si = [x for x in s.body if isinstance(x, ast.If) and cmp_canon(x.test) and cmp_canon(x.test)[2] == 'len(value)' and cmp_canon(x.test)[1] == '>']
        if si:
            sb = cmp_canon(si[0].test)[0]
            pad = norm(si[0]).replace(' ', '')
            okp = 'newvalue=[Noneforxinrange(%s)]' % sb.replace(' ', '') in pad and 'newvalue[i]=value[i]' in pad and 'value=newvalue' in pad
        else:
            okp = False
        ctx.ob('TYPE-LISTS', SYS + '::System.' + name, 'the %s getter pads lazily whenever the stored list is shorter than the bound, by re-running the setter' % name, ok, norm(gi[0].test) if gi else '', node=g, key='getter pads ' + name)
        ctx.ob('TYPE-LISTS', SYS + '::System.%s.setter' % name, 'the %s setter pads with None up to its bound, keeping given entries in place' % name, okp, node=s, key='setter pads ' + name)
        ctx.ob('TYPE-LISTS', SYS + '::System.' + name, 'getter and setter of %s pad to the same bound%s' % (name, ' = the system\'s type count' if bound else ''),
               gb is not None and gb == sb and (bound is None or gb == bound), 'getter bound %s, setter bound %s' % (gb, sb), node=g, key='same bound ' + name)
        fin = [x for x in s.body if isinstance(x, ast.Assign) and norm(x.targets[0]) == 'self.__' + name]
        ctx.ob('TYPE-LISTS', SYS + '::System.%s.setter' % name, 'the stored list is an immutable tuple of the padded values', len(fin) == 1 and norm(fin[0].value) == 'tuple(value)', node=s, key='tuple ' + name)
    ms = ctx.fn(SYS, 'System.masses', setter=True)
    ref = [x for x in ast.walk(ms) if isinstance(x, ast.If) and cmp_canon(x.test) == ('len(value)', '>', 'self.natypes') and any(isinstance(y, ast.Raise) for y in x.body)]
    ctx.ob('TYPE-LISTS', SYS + '::System.masses.setter', 'more masses than atom types are refused', len(ref) == 1, node=ms)
    nt = ctx.fn(SYS, 'System.natypes')
    t = norm(nt).replace(' ', '')
    ok = 'ifnsymbols>self.__atoms.natypes:returnlen(self.symbols)' in t and 'else:returnself.__atoms.natypes' in t
    ctx.ob('TYPE-LISTS', SYS + '::System.natypes', 'the system\'s type count is the larger of the symbol count and the largest atom type', ok, node=nt)
    an = ctx.fn(AT, 'Atoms.natypes')
    t = norm(an).replace(' ', '')
    ctx.ob('TYPE-LISTS', AT + '::Atoms.natypes', 'the atoms\' type count is the largest atype; atype < 1 refused', 'ifnp.min(self.atype)<1:raise' in t and 'returnint(np.max(self.atype))' in t, node=an)


def indexing(ctx):
    isl = ctx.fn(AT, 'Atoms.__intslice')
    t = norm(isl).replace(' ', '')
    ok = 'ifintnum==-1:returnslice(intnum,None)' in t and 'returnslice(intnum,intnum+1)' in t
    ctx.ob('INDEXING', AT + '::Atoms.__intslice', 'an integer index i selects the one-row slice [i:i+1] (and -1 the last row), so rows stay rows', ok, node=isl)
    for q in ('Atoms.__getitem__', 'Atoms.__setitem__'):
        fn = ctx.fn(AT, q)
        t = norm(fn).replace(' ', '')
        ok = 'ifisinstance(index,(int,np.integer)):index=self.__intslice(index)' in t
        ctx.ob('INDEXING', AT + '::' + q, 'integer indices are converted to one-row slices before use', ok, node=fn, key='intslice ' + q)
    gi = ctx.fn(AT, 'Atoms.__getitem__')
    t = norm(gi).replace(' ', '')
    ctx.ob('INDEXING', AT + '::Atoms.__getitem__', 'every property is indexed with the same index', 'forkeyinself.view.keys():view[key]=self.view[key][index]' in t and 'returnAtoms(**view)' in t, node=gi)
    si = ctx.fn(AT, 'Atoms.__setitem__')
    t = norm(si).replace(' ', '')
    ok = 'assertisinstance(value,Atoms)' in t and 'assertsorted(value.view.keys())==sorted(self.view.keys())' in t and 'forkeyinself.view.keys():self.view[key][index]=value.view[key]' in t
    ctx.ob('INDEXING', AT + '::Atoms.__setitem__', 'row assignment demands matching property sets and writes every property at the same rows', ok, node=si)
    sa = ctx.fn(AT, 'Atoms.__setattr__')
    t = norm(sa).replace(' ', '')
    ctx.ob('INDEXING', AT + '::Atoms.__setattr__', 'attribute assignment of a property goes through the guarded table', 'ifnothasattr(self,name)ornameinself.view:self.view[name]=value' in t, node=sa)
    pa = ctx.fn(AT, 'Atoms.prop_atype')
    t = norm(pa).replace(' ', '')
    ok = 'self.view[key]=value[self.atype-1]' in t and 'self.view[key][self.atype==atype]=value' in t and 'iflen(value)>=self.natypes' in t and 'ifatypeinself.atypes' in t
    ctx.ob('INDEXING', AT + '::Atoms.prop_atype', 'per-type assignment maps type t to entry t-1 / masks rows of the given type; short lists and unknown types refused', ok, node=pa)
    ix = ctx.fn(SYS, 'System._AtomsIndexer.__getitem__')
    c = [x for x in calls_in(ix) if norm(x.func) == 'System']
    ok = len(c) == 1 and norm(kwarg(c[0], 'atoms')) == 'host.atoms[index]' and norm(kwarg(c[0], 'box')) == 'host.box' and norm(kwarg(c[0], 'pbc')) == 'host.pbc' and norm(kwarg(c[0], 'symbols')) == 'host.symbols'
    ctx.ob('INDEXING', SYS + '::System._AtomsIndexer.__getitem__', 'a sub-system takes the indexed atoms with the host\'s box, periodicity and symbols', ok, node=ix)


def run(ctx):
    ctx.explanation = ('C06: guard dominance and who-may-write on the per-atom table, alias/freshness analysis of the copying accessors, operand-preservation by the mutation analysis, '
                       'row alignment of extend/atoms_extend, sibling agreement of the symbols/masses accessors, integer-index handling. '
                       'Not decided: equality with a record-per-atom model over arbitrary histories.')
    ctx.run_rules([rect_guard, copy_discipline, preserve, row_align, type_lists, indexing])
