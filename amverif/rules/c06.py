"""C06 Per-atom data: rectangular, row-aligned, unaliased.

Decided statically (Atoms.py, System.py):
 * RECT-GUARD: every insertion into the per-atom table goes through PropertyDict.__setitem__, whose stores are dominated
   by the three-way shape test (scalar -> broadcast to natoms, leading 1 -> broadcast, else leading != natoms refused)
   and by the atype >= 1 test; nobody else writes the underlying dict.
 * COPY: the copying accessors (Atoms.prop / System.atoms_prop in get mode, Atoms.__deepcopy__, Box getters via C01)
   return fresh storage on every return path (alias analysis).
 * PRESERVE: extend, atoms_extend, __getitem__, __deepcopy__, df, atoms_df, atoms_ix[...] do not write to their operands.
 * ROW-ALIGN: extend gives every property of the result, at rows [natoms_self:], either the appended atoms' values or
   zeros of the receiver's trailing shape and dtype; atoms_extend unscales exactly the appended rows.
 * TYPE-LISTS: symbols / masses getters pad lazily up to the same bound their setters pad to; masses use the system's
   type count; more masses than types refused; atype < 1 refused.
 * INDEXING: integer indices are turned into one-row slices (so rows stay rows), -1 handled; Atoms.__setitem__ demands
   matching property sets.
Declined: equality with a record-per-atom model over arbitrary operation histories.
"""
import ast

from ..core import norm, calls_in, kwarg, AnalysisError, walk_no_nested, cmp_canon
from .. import effects
from ..effects import FRESH, UNKNOWN
import numpy as np
import sympy as sp
from ..symx import SymEval, SymObj, PyStub, Path, symarray, module_aliases, equal, is_zero, Opaque, WouldRaise, arr

AT = 'atomman/core/Atoms.py'
SYS = 'atomman/core/System.py'

SUMM = {'.position_cartesian_to_relative': ('fresh',), '.position_relative_to_cartesian': ('fresh',), '.prop': ('fresh',), '.atoms_prop': ('fresh',),
        '.keys': ('fresh',), 'Atoms': ('fresh',), 'System': ('alias', ['atoms', 'box', 0, 1]), 'indexstr': ('fresh',), 'pd.DataFrame': ('fresh',),
        '.extend': ('fresh',), 'aslist': ('fresh',)}


def rect_guard(ctx):
    fn = ctx.fn(AT, 'Atoms.PropertyDict.__setitem__')
    loc = AT + '::Atoms.PropertyDict.__setitem__'
    # model evaluation: the method applied to values of every leading-shape class, for a new key and for an existing key
    N = 5
    ev_aliases = module_aliases(ctx.mod(AT))

    class Host(PyStub):
        natoms = N

    class Sup(PyStub):
        def __init__(self, rec, view=None):
            self.rec = rec
            self.view = view

        def __setitem__(self, k, v):
            self.rec.append(('insert', k, v))
            if self.view is not None:
                self.view.store[k] = v          # the dict the property view is built on: what was inserted can be read back through the view

        def __setattr__(self, k, v):
            if k in ('rec', 'view'):
                object.__setattr__(self, k, v)

    class View(PyStub):
        def __init__(self, existing):
            self.store = dict(existing)
            setattr(self, '__host', Host())
            setattr(self, '_PropertyDict__host', Host())

        def keys(self):
            return list(self.store.keys())

        def __contains__(self, k):
            return k in self.store

        def __getitem__(self, k):
            return self.store[k]

    def run(key, value, existing):
        rec = []
        view = View(existing)
        ev = SymEval(ev_aliases)
        class _A(PyStub):
            PropertyDict = 'PropertyDict'
        ev.globals = {'super': lambda *a: Sup(rec, view), 'dir': lambda o: [], 'Atoms': _A()}
        paths = ev.run_fn(fn, [view, key, value], {})
        live = [q for q in paths if q.done == 'return']
        raised = [q for q in paths if q.done == 'raise']
        return view, rec, live, raised
    cases = [('scalar', ()), ('one row', (1,)), ('one row of vectors', (1, 3)), ('natoms rows', (N,)), ('natoms vectors', (N, 3)), ('natoms tensors', (N, 3, 3)),
             ('two rows', (2,)), ('six rows', (N + 1,)), ('two vectors', (2, 3)), ('three numbers for vector property', (3,)), ('3x3 for tensor property', (3, 3)), ('zero rows', (0, 3))]
    n_cases = 0
    for name, shp in cases:
        good = shp == () or shp[0] in (1, N)
        trailing = shp[1:] if shp != () else ()
        for mode in ('new key', 'existing key'):
            n_cases += 1
            val = symarray('w', shp) if shp != () else sp.Symbol('w')
            # an existing property whose trailing shape would let numpy broadcast a wrong-sized value silently
            ex_trailing = trailing if good else (shp if len(shp) >= 1 else ())
            existing = {'k': symarray('e', (N,) + tuple(ex_trailing))} if mode == 'existing key' else {}
            try:
                view, rec, live, raised = run('k', val, existing)
            except WouldRaise as e:
                view, rec, live, raised = None, [], [], ['numpy: %s' % e]
            except Opaque as e:
                raise AnalysisError('PropertyDict.__setitem__ (%s, %s): %s' % (name, mode, e))
            tag = '%s %s, %s' % (name, shp, mode)
            if not good:
                ctx.ob('RECT-GUARD', loc, '%s: refused (first dimension must be 1 or natoms)' % tag, bool(raised) and not live and not rec, 'accepted' if live else '', node=fn, key=tag)
                continue
            ok = len(live) == 1 and not raised
            stored = None
            if ok and mode == 'new key':
                ok = len(rec) == 1 and rec[0][0] == 'insert' and rec[0][1] == 'k'
                stored = rec[0][2] if ok else None
            elif ok:
                ok = not rec
                stored = view.store['k']
            want = np.broadcast_to(np.asarray(val, dtype=object), (N,) + tuple(trailing)) if shp == () or shp[0] == 1 else val
            ok = ok and stored is not None and np.shape(stored) == (N,) + tuple(trailing) and equal(np.asarray(stored, dtype=object), np.asarray(want, dtype=object), deep=False)
            ctx.ob('RECT-GUARD', loc, '%s: stored with exactly natoms rows (%s), trailing shape kept' % (tag, 'broadcast' if (shp == () or shp[0] == 1) and N != 1 else 'as given'), ok,
                   'stored shape %s' % (np.shape(stored),) if stored is not None else 'not stored', node=fn, key=tag)
    ctx.floor('RECT-GUARD/cases', n_cases, 24)
    for mode in ('new key', 'existing key'):
        existing = {'atype': arr([1] * N)} if mode == 'existing key' else {}
        try:
            view, rec, live, raised = run('atype', arr([1, 2, 0, 1, 1]), existing)
        except Opaque as e:
            raise AnalysisError('PropertyDict.__setitem__ (atype, %s): %s' % (mode, e))
        kept = mode == 'new key' or equal(np.asarray(view.store.get('atype'), dtype=object), arr([1] * N), deep=False)
        ctx.ob('RECT-GUARD', loc, 'atom types below 1 are refused before anything is stored (%s): the table is as it was' % mode, bool(raised) and not live and not rec and bool(kept),
               'stored after the refusal: %s' % (view.store.get('atype'),), node=fn, key='atype ' + mode)
        view, rec, live, raised = run('atype', arr([1, 2, 3, 1, 1]), existing)
        ctx.ob('RECT-GUARD', loc, 'atom types >= 1 are accepted (%s)' % mode, len(live) == 1 and not raised, node=fn, key='atype ok ' + mode)
    # who may write the dict
    bad = []
    n = 0
    for rel in (AT, SYS):
        mod = ctx.mod(rel)
        for x in ast.walk(mod):
            if isinstance(x, ast.Call):
                f = norm(x.func)
                if f.endswith('.__setitem__') and 'super(' in f:
                    n += 1
                    encl = x
                    while not isinstance(encl, ast.FunctionDef):
                        encl = encl._parent
                    if not (rel == AT and encl is fn):
                        bad.append('%s:%d %s' % (rel, x.lineno, f))
                if any(f.endswith(suf) for suf in ('.view.update', '.view.pop', '.view.setdefault', '.view.popitem', '.view.clear', '.view.move_to_end', 'OrderedDict.__setitem__', 'dict.__setitem__')):
                    bad.append('%s:%d %s' % (rel, x.lineno, f))
            if isinstance(x, ast.Delete) and any('.view[' in norm(t) for t in x.targets):
                bad.append('%s:%d %s' % (rel, x.lineno, norm(x)))
    ctx.floor('RECT-GUARD/writers', n, 1)
    ctx.ob('RECT-GUARD', AT + '::Atoms', 'the per-atom table is written only through the guarded __setitem__ (no update/pop/del/raw dict stores in Atoms.py, System.py)', not bad, '; '.join(bad))
    # natoms fixed at construction
    cls = ctx.fn(AT, 'Atoms')
    w = []
    for f in [x for x in cls.body if isinstance(x, ast.FunctionDef)]:
        for s in ast.walk(f):
            if isinstance(s, ast.Assign) and any(norm(t) == 'self.__natoms' for t in s.targets):
                w.append(f.name)
            if isinstance(s, ast.Call) and norm(s.func).endswith('__setattr__') and s.args and isinstance(s.args[0], ast.Constant) and s.args[0].value in ('_Atoms__natoms', '__natoms'):
                w.append(f.name)
    ctx.ob('RECT-GUARD', AT + '::Atoms', 'the atom count is set by the constructor only', set(w) == {'__init__'}, str(w))


def atoms_prop_scaled(ctx):
    """System.atoms_prop(scale=True) by evaluation: the atom addressed by index= or a_id= (atom 0 included) is the only one read or written; box-relative values go through the
    cell's two conversions"""
    fn = ctx.fn(SYS, 'System.atoms_prop')
    loc = SYS + '::System.atoms_prop'
    cls_ = ctx.fn(SYS, 'System')
    POS = symarray('p', (4, 3))
    NEW = symarray('w', (3,))

    class Bx(PyStub):
        def position_cartesian_to_relative(self, c):
            return np.asarray(c, dtype=object) * 2

        def position_relative_to_cartesian(self, r):
            return np.asarray(r, dtype=object) / 2

    def run_(kw):
        class At(PyStub):
            def __init__(self):
                self.view = {'atype': arr([1, 2, 1, 2]), 'pos': POS.copy()}
        at = At()
        obj = SymObj(cls_, {'atoms': at, 'box': Bx()}, 'self')
        ev_ = SymEval(module_aliases(ctx.mod(SYS)))
        ev_.globals = {'Atoms': 'AtomsClass'}
        try:
            live = [q for q in ev_.run_fn(fn, [obj], dict(kw)) if q.done == 'return']
        except WouldRaise:
            return 'refused', None, at
        except Opaque as e:
            raise AnalysisError('System.atoms_prop(scale=True) %s: %s' % (sorted(kw), e))
        return ('accepted' if live else 'refused'), (live[0].ret if live else None), at
    n = 0
    for tag, sel, row in (('a_id=0', {'a_id': sp.Integer(0)}, 0), ('a_id=2', {'a_id': sp.Integer(2)}, 2), ('index=0', {'index': sp.Integer(0)}, 0), ('index=3', {'index': sp.Integer(3)}, 3)):
        st_, ret, at = run_(dict(sel, key='pos', scale=True))
        n += 1
        ctx.ob('INDEXING', loc, 'scale=True, %s, get: the box-relative position of that one atom (shape (3,))' % tag, st_ == 'accepted' and np.shape(ret) == (3,) and equal(np.asarray(ret, dtype=object), POS[row] * 2, deep=False),
               'returned shape %s' % (np.shape(ret) if ret is not None else None,), node=fn, key='scaled get ' + tag)
        st_, ret, at = run_(dict(sel, key='pos', scale=True, value=NEW))
        want = POS.copy()
        want[row] = NEW / 2
        n += 1
        ctx.ob('INDEXING', loc, 'scale=True, %s, set: only that atom\'s position is written (the value unscaled through the cell)' % tag, st_ == 'accepted' and np.shape(at.view['pos']) == (4, 3) and equal(np.asarray(at.view['pos'], dtype=object), want, deep=False),
               node=fn, key='scaled set ' + tag)
    st_, ret, at = run_(dict(a_id=sp.Integer(0), index=sp.Integer(1), key='pos', scale=True))
    ctx.ob('INDEXING', loc, 'scale=True: a_id and index together are refused (a_id=0 included)', st_ == 'refused', node=fn, key='scaled both')
    ctx.floor('INDEXING/scaled', n, 8)


def _class_fresh_summaries(ctx, rel, q, summaries, depth=0):
    """call summaries for the helper methods of the same class that q delegates to: '.name' -> fresh when every return of that method is fresh (computed recursively)"""
    out = dict(summaries)
    if '.' not in q or depth > 3:
        return out
    clsname = q.rsplit('.', 1)[0]
    fn = ctx.fn(rel, q)
    cls = ctx.fn(rel, clsname)
    for c in calls_in(fn):
        f = c.func
        if isinstance(f, ast.Attribute) and isinstance(f.value, ast.Name) and f.value.id == 'self' and ('.' + f.attr) not in out:
            m = [x for x in cls.body if isinstance(x, ast.FunctionDef) and x.name == f.attr and x is not fn]
            if len(m) == 1:
                sub = _class_fresh_summaries(ctx, rel, clsname + '.' + f.attr, out, depth + 1)
                eff = effects.Effects(m[0], summaries=sub)
                rets = [s_ for s_ in ast.walk(m[0]) if isinstance(s_, ast.Return) and s_.value is not None]
                if rets and all(eff.origins(r_.value) == {FRESH} for r_ in rets):
                    out['.' + f.attr] = ('fresh',)
    return out


def _returns_fresh(ctx, rel, q, rule, desc, summaries=None, only_if=None):
    fn = ctx.fn(rel, q)
    eff = effects.Effects(fn, summaries=_class_fresh_summaries(ctx, rel, q, summaries or SUMM))
    rets = [s for s in ast.walk(fn) if isinstance(s, ast.Return) and s.value is not None]
    bad = []
    for r in rets:
        if only_if is not None and not only_if(r):
            continue
        o = eff.origins(r.value)
        if o != {FRESH}:
            bad.append('line %d returns %s (may alias %s)' % (r.lineno, norm(r.value), sorted(o - {FRESH})))
    ctx.ob(rule, '%s::%s' % (rel, q), desc, not bad and len(rets) >= 1, '; '.join(bad), node=fn, key=desc[:60])
    return len(rets)


def copy_discipline(ctx):
    n = _returns_fresh(ctx, AT, 'Atoms.prop', 'COPY', 'every get-mode return of Atoms.prop hands out a copy (list of keys, deep-copied Atoms, deep-copied array)')
    ctx.floor('COPY/Atoms.prop', n, 2)
    n = _returns_fresh(ctx, SYS, 'System.atoms_prop', 'COPY', 'every get-mode return of System.atoms_prop hands out a copy (delegation to Atoms.prop, or converted coordinates)')
    ctx.floor('COPY/System.atoms_prop', n, 2)
    _returns_fresh(ctx, AT, 'Atoms.__deepcopy__', 'COPY', 'a deep copy of Atoms is built from deep-copied arrays')
    dc = ctx.fn(AT, 'Atoms.__deepcopy__')
    # by evaluation: a model Atoms with four properties, a copying stub for deepcopy and a recording constructor
    import numpy as np
    from ..symx import SymEval, SymObj, module_aliases, symarray, equal, Opaque, WouldRaise, arr
    view = {'atype': arr([1, 2, 1]), 'pos': symarray('p', (3, 3), real=True), 'charge': symarray('q', (3,), real=True), 'stress': symarray('s', (3, 2, 2), real=True)}
    made, copied = [], []

    def deepcopy_(x, memo=None):
        copied.append(x)
        return x.copy() if isinstance(x, np.ndarray) else x
    ev = SymEval(module_aliases(ctx.mod(AT)))
    ev.globals = {'deepcopy': deepcopy_, 'Atoms': lambda *a, **k: (made.append((a, k)) or 'NEW'), 'OrderedDict': lambda *a, **k: dict(*a, **k), 'dict': dict}
    try:
        live = [q for q in ev.run_fn(dc, [SymObj(ctx.fn(AT, 'Atoms'), {'view': view}, 'self'), {}], {}) if q.done == 'return']
    except (Opaque, WouldRaise) as e:
        raise AnalysisError('Atoms.__deepcopy__: %s' % e)
    ok = len(live) == 1 and live[0].ret == 'NEW' and len(made) == 1 and not made[0][0] and set(made[0][1]) == set(view)
    if ok:
        kw = made[0][1]
        ok = all(isinstance(kw[k], np.ndarray) and equal(kw[k], view[k], deep=False) and not np.shares_memory(kw[k], view[k]) for k in view) \
            and not any(np.shares_memory(kw[a], kw[b]) for a in view for b in view if a != b)
    ctx.ob('COPY', AT + '::Atoms.__deepcopy__', 'every property (atype, pos and all others) is deep-copied into the new Atoms: the constructor gets, under each name, an array of its own with the same values', bool(ok),
           'constructor calls: %s' % ([sorted(m[1]) for m in made],), node=dc)
    # set-mode with key and no index stores a copy of the caller's value
    p = ctx.fn(AT, 'Atoms.prop')
    st = [s for s in ast.walk(p) if isinstance(s, ast.Assign) and norm(s.targets[0]) == 'self.view[key]']
    ctx.ob('COPY', AT + '::Atoms.prop', 'assigning a whole property stores a copy of the given value', len(st) == 1 and norm(st[0].value) == 'deepcopy(value)', node=p)


def preserve(ctx):
    cases = [(AT, 'Atoms.extend', {'self', 'value'}), (SYS, 'System.atoms_extend', {'self', 'value'}), (AT, 'Atoms.__getitem__', {'self'}), (AT, 'Atoms.__deepcopy__', {'self'}),
             (AT, 'Atoms.df', {'self'}), (SYS, 'System.atoms_df', {'self'}), (SYS, 'System._AtomsIndexer.__getitem__', {'self'}), (SYS, 'System.supersize', {'self'}),
             (SYS, 'System.rotate', {'self'}),
             # scaled reads hand the stored coordinates (or a view of them) to the cell's converters
             ('atomman/core/Box.py', 'Box.position_cartesian_to_relative', {'cartpos'}), ('atomman/core/Box.py', 'Box.position_relative_to_cartesian', {'relpos'})]
    n = 0
    for rel, q, params in cases:
        fn = ctx.fn(rel, q)
        fancy = ('index',) if q in ('Atoms.extend',) else ()
        muts, eff = effects.param_mutations(fn, params, summaries=dict(SUMM, **{'self.box.vects': ('fresh',), 'self.box.origin': ('fresh',), '.supersize': ('fresh',), 'deepcopy': ('fresh',),
                                                                               'miller.vector_crystal_to_cartesian': ('fresh',), 'miller.vector4to3': ('fresh',)}),
                                            mutating_methods=('wrap', 'box_set', 'set', 'prop_atype'), fancy_hint=fancy)
        # documented exception: safecopy=False shares storage by design; sharing is not mutation
        muts = [m for m in muts if not _benign_local(m, fn)]
        n += 1
        ctx.ob('PRESERVE', '%s::%s' % (rel, q), 'the operation does not write to its operand(s) %s' % sorted(params), not muts,
               '; '.join('%s at line %d' % (w, nd.lineno) for nd, r, w in muts), node=muts[0][0] if muts else fn, key='preserve ' + q)
    ctx.floor('PRESERVE', n, 11)


def _benign_local(m, fn):
    node, root, what = m
    # rebinding a parameter slot of a *local list built from the parameters* (sizes[i] = (0, sizes[i]) in supersize) does not touch the caller's objects
    if isinstance(node, ast.Assign) and isinstance(node.targets[0], ast.Subscript) and isinstance(node.targets[0].value, ast.Name):
        nm = node.targets[0].value.id
        for s in fn.body:
            if isinstance(s, ast.Assign) and any(isinstance(t, ast.Name) and t.id == nm for t in s.targets) and isinstance(s.value, ast.List):
                return True
    return False


def row_align(ctx):
    fn = ctx.fn(AT, 'Atoms.extend')
    loc = AT + '::Atoms.extend'
    _extend_model(ctx, fn, loc)
    return _row_align_rest(ctx)


def _extend_model(ctx, fn, loc):
    """evaluate Atoms.extend on analyser-side models of two Atoms with differing property sets (symbolic entries)"""
    import numpy as np
    import sympy as sp
    from ..symx import SymEval, PyStub, symarray, module_aliases, equal, Opaque

    class StubAtoms(PyStub):
        def __init__(self, view):
            self.view = view
            self.natoms = len(next(iter(view.values())))

        def prop(self):
            return list(self.view.keys())

        def __getitem__(self, idx):
            return StubAtoms({k: np.array(v[idx], dtype=object) for k, v in self.view.items()})

    class AtomsMarker(PyStub):
        def __call__(self, natoms=None):
            at = np.empty(natoms, dtype=object)
            at[...] = sp.Integer(1)
            pz = np.empty((natoms, 3), dtype=object)
            pz[...] = sp.Integer(0)
            return StubAtoms({'atype': at, 'pos': pz})
    marker = AtomsMarker()

    def isinst(a, b):
        if b is marker:
            return isinstance(a, StubAtoms)
        return isinstance(a, int) and not isinstance(a, bool)
    me = StubAtoms({'atype': symarray('t', (2,)), 'pos': symarray('x', (2, 3)), 'p': symarray('p', (2, 2))})
    other = StubAtoms({'atype': symarray('u', (3,)), 'pos': symarray('y', (3, 3)), 'q': symarray('q', (3,))})
    for label, value, nval in (('Atoms with a differing property set', other, 3), ('a count', 2, 2), ('a count of zero', 0, 0)):
        ev = SymEval(module_aliases(ctx.mod(AT)))
        before = {k: v.copy() for k, v in me.view.items()}
        try:
            paths = ev.run_fn(fn, env={'self': me, 'value': value, 'Atoms': marker, 'isinstance': isinst})
        except Opaque as e:
            raise AnalysisError('Atoms.extend left the vocabulary: %s' % e)
        live = [p for p in paths if p.done == 'return']
        ctx.need(len(live) == 1 and isinstance(live[0].ret, StubAtoms), 'Atoms.extend does not return one Atoms on the model inputs')
        res = live[0].ret
        src = value if isinstance(value, StubAtoms) else marker(natoms=nval)
        bad = []
        want_keys = set(me.view) | set(src.view)
        if set(res.view) != want_keys:
            bad.append('properties %s, expected %s' % (sorted(res.view), sorted(want_keys)))
        for k in sorted(want_keys & set(res.view)):
            arr_ = res.view[k]
            if len(arr_) != 2 + nval:
                bad.append('%s has %d rows, expected %d' % (k, len(arr_), 2 + nval))
                continue
            head = me.view[k] if k in me.view else np.zeros((2,) + src.view[k].shape[1:], dtype=object)
            tail = src.view[k] if k in src.view else np.zeros((nval,) + me.view[k].shape[1:], dtype=object)
            if not equal(arr_[:2], head, deep=False):
                bad.append('%s: receiver rows are not the receiver\'s values%s' % (k, '' if k in me.view else ' (expected zeros)'))
            if not equal(arr_[2:], tail, deep=False):
                bad.append('%s: appended rows are not %s' % (k, 'the appended atoms\' values' if k in src.view else 'the documented default 0'))
        ctx.ob('ROW-ALIGN', loc, 'extending by %s: every property has natoms_self + natoms_new rows; receiver rows first and unchanged, appended rows = appended values, missing values = 0' % label,
               not bad, '; '.join(bad), node=fn, key='model ' + label)
        unchanged = all(equal(me.view[k], before[k], deep=False) for k in before) and set(me.view) == set(before)
        ctx.ob('ROW-ALIGN', loc, 'extending by %s leaves the receiver\'s arrays untouched' % label, unchanged, node=fn, key='model preserve ' + label)


def _row_align_rest(ctx):
    return _atoms_extend_rules(ctx)


def _atoms_extend_rules(ctx):
    """System.atoms_extend interpreted on a model system (model atom table with its own extend, model cell with the affine conversion, recording System constructor)"""
    import numpy as np
    from ..symx import symarray
    ae = ctx.fn(SYS, 'System.atoms_extend')
    cls = ctx.fn(SYS, 'System')
    loc = SYS + '::System.atoms_extend'
    V, o = symarray('v', (3, 3), real=True), symarray('o', (3,), real=True)
    P0, P1 = symarray('x', (2, 3), real=True), symarray('y', (3, 3), real=True)

    class AtomsM(PyStub):
        _isa = ('Atoms',)

        def __init__(self, pos, tag):
            self.pos, self.tag = pos, tag
            self.natoms = len(pos)
            self.natypes = 2
            self.extended_by = None

        def extend(self, value):
            new = AtomsM(np.concatenate([self.pos, value.pos if isinstance(value, AtomsM) else np.zeros((int(value), 3), dtype=object)]), self.tag + '+')
            new.extended_by = value
            return new

        def __deepcopy__(self, memo=None):
            c = AtomsM(self.pos.copy(), self.tag + ' copy')
            return c

    class BoxM(PyStub):
        _isa = ('Box',)

        def position_relative_to_cartesian(self, r):
            return np.asarray(r, dtype=object).dot(V) + o

        def __deepcopy__(self, memo=None):
            return BoxM()

    class Made(PyStub):
        def __init__(self, **kw):
            self.kw = kw
    for tag, scale, safe, val in (('Cartesian positions', False, False, 'atoms'), ('box-relative positions', True, False, 'atoms'), ('box-relative positions, safecopy', True, True, 'atoms'), ('a count', False, False, 2)):
        me_atoms, box = AtomsM(P0.copy(), 'self'), BoxM()
        value = AtomsM(P1.copy(), 'value') if val == 'atoms' else val
        me = SymObj(cls, {'_System__atoms': me_atoms, '_System__box': box, '_System__pbc': 'PBC', '_System__symbols': ('Al', 'Cu')}, 'self')
        ev = SymEval(module_aliases(ctx.mod(SYS)))
        ev.globals = {'System': lambda **kw: Made(**kw), 'Atoms': AtomsM, 'deepcopy': lambda x: (x.__deepcopy__() if hasattr(x, '__deepcopy__') else x)}
        ev.np_override = {}
        try:
            live = [q for q in ev.run_fn(ae, [me, value], dict(scale=scale, safecopy=safe)) if q.done == 'return']
        except WouldRaise as e:
            ctx.ob('ROW-ALIGN', loc, 'extending by %s: accepted' % tag, False, str(e), node=ae, key='extend runs ' + tag)
            continue
        except Opaque as e:
            raise AnalysisError('System.atoms_extend (%s): %s' % (tag, e))
        ctx.need(len(live) == 1 and isinstance(live[0].ret, Made), 'System.atoms_extend does not return one new System (%s)' % tag)
        kw = live[0].ret.kw
        at = kw.get('atoms')
        n1 = 3 if val == 'atoms' else 2
        tail = (P1.dot(V) + o if scale else P1) if val == 'atoms' else np.zeros((2, 3), dtype=object)
        ok = isinstance(at, AtomsM) and at is not me_atoms and len(at.pos) == 2 + n1 and equal(np.asarray(at.pos[:2], dtype=object), P0, deep=False) and equal(np.asarray(at.pos[2:], dtype=object), np.asarray(tail, dtype=object), deep=False)
        ctx.ob('ROW-ALIGN', loc, 'extending by %s: the receiver\'s rows come first and unchanged, the appended rows [natoms_self:] hold the new positions%s' % (tag, ' converted to Cartesian with the receiver\'s cell' if scale else ''),
               bool(ok), node=ae, key='extend rows ' + tag)
        okc = kw.get('pbc') == 'PBC' and tuple(kw.get('symbols') or ()) == ('Al', 'Cu') and isinstance(kw.get('box'), BoxM) and ((kw.get('box') is box) != safe)
        ctx.ob('ROW-ALIGN', loc, 'extending by %s: the new system carries the extended atoms with the receiver\'s box (a copy with safecopy), periodicity and symbols' % tag, bool(okc), str({k_: type(v_).__name__ for k_, v_ in kw.items()}), node=ae,
               key='extend system ' + tag)
        okp = equal(me_atoms.pos, P0, deep=False) and (val != 'atoms' or equal(value.pos, P1, deep=False))
        ctx.ob('ROW-ALIGN', loc, 'extending by %s: the receiver and the appended operand keep their positions' % tag, bool(okp), node=ae, key='extend operands ' + tag)
    me = SymObj(cls, {'_System__atoms': AtomsM(P0.copy(), 'self'), '_System__box': BoxM(), '_System__pbc': 'PBC', '_System__symbols': ('Al', 'Cu')}, 'self')
    ev = SymEval(module_aliases(ctx.mod(SYS)))
    ev.globals = {'System': lambda **kw: Made(**kw), 'Atoms': AtomsM, 'deepcopy': lambda x: x}
    try:
        acc = bool([q for q in ev.run_fn(ae, [me, 2], dict(scale=True)) if q.done == 'return'])
    except WouldRaise:
        acc = False
    ctx.ob('ROW-ALIGN', loc, 'scale=True with a count is refused', not acc, node=ae, key='extend refuse count')


def type_lists(ctx):
    """symbols / masses / natypes of System interpreted on a model system (the real accessors over an atom table with a given largest type)"""
    cls = ctx.fn(SYS, 'System')
    I = sp.Integer

    class At(PyStub):
        def __init__(self, n):
            self.natypes = n

    def system(nat, symbols=(), masses=()):
        return SymObj(cls, {'_System__atoms': At(nat), '_System__symbols': tuple(symbols), '_System__masses': tuple(masses)}, 'self')

    def ev_():
        ev = SymEval(module_aliases(ctx.mod(SYS)))
        ev.globals = {'aslist': lambda v: (list(v) if isinstance(v, (list, tuple)) else ([v] if not hasattr(v, 'tolist') else list(v)))}
        return ev

    def setter(name, obj, value):
        fn = ctx.fn(SYS, 'System.' + name, setter=True)
        try:
            live = [q for q in ev_().run_fn(fn, [obj, value], {}) if q.done == 'return']
        except WouldRaise:
            return False
        except Opaque as e:
            raise AnalysisError('System.%s setter: %s' % (name, e))
        return len(live) == 1

    def getter(name, obj):
        fn = ctx.fn(SYS, 'System.' + name)
        try:
            live = [q for q in ev_().run_fn(fn, [obj], {}) if q.done == 'return']
        except Opaque as e:
            raise AnalysisError('System.%s: %s' % (name, e))
        if len(live) != 1:
            raise AnalysisError('System.%s does not reduce to one path' % name)
        return live[0].ret
    num = lambda v: None if v is None else sp.nsimplify(v)
    for name, stored in (('symbols', '_System__symbols'), ('masses', '_System__masses')):
        vals = ['Al', 'Cu', 'Ni', 'Fe'] if name == 'symbols' else [I(27), sp.Rational(127, 2), '58.69', I(56)]
        conv = (lambda v: v) if name == 'symbols' else (lambda v: None if v is None else sp.nsimplify(sp.Float(v) if isinstance(v, str) else v))
        eq = lambda got, want: isinstance(got, tuple) and len(got) == len(want) and all((a_ is None and b_ is None) or (a_ is not None and b_ is not None and (a_ == b_ if name == 'symbols' else sp.nsimplify(a_) == b_)) for a_, b_ in zip(got, want))
        loc = SYS + '::System.%s.setter' % name
        o = system(3)
        ok = setter(name, o, vals[:1]) and eq(o.attrs[stored], (conv(vals[0]), None, None))
        ctx.ob('TYPE-LISTS', loc, 'fewer %s than atom types: stored as a tuple padded with None up to the type count, given entries in place' % name, bool(ok), str(o.attrs.get(stored)), node=ctx.fn(SYS, 'System.' + name, setter=True), key='setter pads ' + name)
        o = system(3)
        ok = setter(name, o, [vals[0], None, vals[2]]) and eq(o.attrs[stored], (conv(vals[0]), None, conv(vals[2])))
        ctx.ob('TYPE-LISTS', loc, 'a full list with a gap is stored as given (None kept in place%s)' % ('' if name == 'symbols' else ', numeric text converted to a number'), bool(ok), str(o.attrs.get(stored)),
               node=ctx.fn(SYS, 'System.' + name, setter=True), key='setter full ' + name)
        given = [vals[0], vals[1]]
        o = system(3)
        setter(name, o, given)
        ctx.ob('TYPE-LISTS', loc, 'the caller\'s list is not modified', given == [vals[0], vals[1]], node=ctx.fn(SYS, 'System.' + name, setter=True), key='setter arg ' + name)
        o = system(2, symbols=('Al', 'Cu'))
        ok = setter(name, o, vals[0]) and eq(o.attrs[stored], (conv(vals[0]), None))
        ctx.ob('TYPE-LISTS', loc, 'a single value is taken as a one-entry list', bool(ok), str(o.attrs.get(stored)), node=ctx.fn(SYS, 'System.' + name, setter=True), key='setter single ' + name)
        # lazy padding by the getter after the type count grew
        o = system(3, **{name: (conv(vals[0]),)})
        got = getter(name, o)
        ok = eq(got, (conv(vals[0]), None, None)) and eq(o.attrs[stored], (conv(vals[0]), None, None))
        ctx.ob('TYPE-LISTS', SYS + '::System.' + name, 'the %s getter pads lazily (and stores the padded tuple) when the type count has grown past the stored list' % name, bool(ok), str(got), node=ctx.fn(SYS, 'System.' + name), key='getter pads ' + name)
        o = system(2, **{name: (conv(vals[0]), conv(vals[1]))})
        got = getter(name, o)
        ctx.ob('TYPE-LISTS', SYS + '::System.' + name, 'a stored list of full length is returned as it is', eq(got, (conv(vals[0]), conv(vals[1]))), str(got), node=ctx.fn(SYS, 'System.' + name), key='getter full ' + name)
    o = system(2, symbols=('Al', 'Cu', 'Ni', 'Fe'), masses=(I(27), I(63)))
    got = getter('masses', o)
    ctx.ob('TYPE-LISTS', SYS + '::System.masses', 'masses are padded to the system\'s type count also when that count comes from the symbols (more symbols than the largest atom type)', isinstance(got, tuple) and len(got) == 4 and got[2:] == (None, None),
           str(got), node=ctx.fn(SYS, 'System.masses'), key='same bound masses')
    o = system(2)
    ok = setter('symbols', o, ['Al', 'Cu', 'Ni', 'Fe']) and o.attrs['_System__symbols'] == ('Al', 'Cu', 'Ni', 'Fe')
    ctx.ob('TYPE-LISTS', SYS + '::System.symbols.setter', 'more symbols than atom types are kept (they define further types)', bool(ok), node=ctx.fn(SYS, 'System.symbols', setter=True), key='more symbols')
    # a list of names may be replaced by a shorter one (four names over two types in use, then two names): the old length is not carried over
    o = system(2, symbols=('Al', 'Cu', 'Ni', 'Fe'))
    ok = setter('symbols', o, ['Ag', 'Au']) and o.attrs['_System__symbols'] == ('Ag', 'Au') and getter('symbols', o) == ('Ag', 'Au') and getter('natypes', o) == 2
    ctx.ob('TYPE-LISTS', SYS + '::System.symbols.setter', 'a longer list of symbols can be replaced by a shorter one that still names every type in use (the count of types follows)', bool(ok), str(o.attrs.get('_System__symbols')),
           node=ctx.fn(SYS, 'System.symbols', setter=True), key='symbols shortened')
    o = system(2, symbols=('Al', 'Cu'))
    before = o.attrs['_System__masses']
    ok = (not setter('masses', o, [I(1), I(2), I(3)])) and o.attrs['_System__masses'] == before
    ctx.ob('TYPE-LISTS', SYS + '::System.masses.setter', 'more masses than atom types are refused (stored masses unchanged)', bool(ok), node=ctx.fn(SYS, 'System.masses', setter=True))
    o = system(2, symbols=('Al', 'Cu', 'Ni'))
    ok = setter('masses', o, [I(1), I(2), I(3)]) and len(o.attrs['_System__masses']) == 3
    ctx.ob('TYPE-LISTS', SYS + '::System.masses.setter', 'the bound for masses is the system\'s type count (symbols beyond the largest atom type count)', bool(ok), node=ctx.fn(SYS, 'System.masses', setter=True), key='mass bound')
    nt = ctx.fn(SYS, 'System.natypes')
    got = [(getter('natypes', system(a_, symbols=sy)), max(a_, len(sy))) for a_, sy in ((3, ()), (2, ('Al', 'Cu', 'Ni')), (3, ('Al',)), (2, ('Al', 'Cu')))]
    ctx.ob('TYPE-LISTS', SYS + '::System.natypes', 'the system\'s type count is the larger of the symbol count and the largest atom type', all(int(g) == w for g, w in got), str(got), node=nt)
    an = ctx.fn(AT, 'Atoms.natypes')
    t = norm(an).replace(' ', '')
    ctx.ob('TYPE-LISTS', AT + '::Atoms.natypes', 'the atoms\' type count is the largest atype; atype < 1 refused', 'ifnp.min(self.atype)<1:raise' in t and 'returnint(np.max(self.atype))' in t, node=an)


def construct_lists(ctx, rule='TYPE-LISTS'):
    """System.__init__ interpreted on model atoms and box: a system may name more types than its atoms use (symbols and masses for elements to be added later); both
    lists are kept in full -- the mass bound seen by the constructor is the system's type count including the symbols given in the same call"""
    cls = ctx.fn(SYS, 'System')
    init = ctx.fn(SYS, 'System.__init__')
    I = sp.Integer

    class At(PyStub):
        _isa = ('Atoms',)
        natypes = 2
        natoms = 3
        view = {}

    class Bx(PyStub):
        _isa = ('Box',)
    for tag, sym, mas, want_s, want_m in (('three symbols and three masses for atoms of two types', ['Al', 'Cu', 'Ni'], [I(27), I(64), I(59)], ('Al', 'Cu', 'Ni'), (27, 64, 59)),
                                          ('a gap in the symbols, masses for all three', ['Al', None, 'Ni'], [I(27), I(64), I(59)], ('Al', None, 'Ni'), (27, 64, 59)),
                                          ('as many symbols and masses as atom types', ['Al', 'Cu'], [I(27), I(64)], ('Al', 'Cu'), (27, 64))):
        me = SymObj(cls, {}, 'self')
        ev = SymEval(module_aliases(ctx.mod(SYS)))
        class _Sys(PyStub):
            def _AtomsIndexer(self, host):
                return ('indexer', host)
        ev.globals = {'aslist': lambda v: (list(v) if isinstance(v, (list, tuple)) else [v]), 'Atoms': At, 'Box': Bx, 'System': _Sys()}
        try:
            live = [q for q in ev.run_fn(init, [me], dict(atoms=At(), box=Bx(), pbc=(True, True, True), symbols=list(sym), masses=list(mas), safecopy=False)) if q.done == 'return']
            acc = len(live) == 1
            why = ''
        except WouldRaise as e:
            acc, why = False, str(e)
        except Opaque as e:
            raise AnalysisError('System.__init__ (%s): %s' % (tag, e))
        got_s, got_m = me.attrs.get('_System__symbols'), me.attrs.get('_System__masses')
        ok = acc and tuple(got_s or ()) == want_s and got_m is not None and len(got_m) == len(want_m) and all(sp.nsimplify(a_) == b_ for a_, b_ in zip(got_m, want_m))
        ctx.ob(rule, SYS + '::System.__init__', 'a system built with %s keeps both lists in full' % tag, bool(ok), why or 'symbols %s masses %s' % (got_s, got_m), node=init, key='construct ' + tag)


def indexing(ctx):
    """Atoms.__getitem__ / __setitem__ interpreted on a model table: which rows of which property are read / written for each kind of index"""
    import numpy as np
    cls = ctx.fn(AT, 'Atoms')
    I = sp.Integer
    POS = symarray('x', (4, 3), real=True)
    TAG = symarray('t', (4,), real=True)
    TYP = np.array([I(1), I(2), I(1), I(3)], dtype=object)

    def table():
        return {'atype': TYP.copy(), 'pos': POS.copy(), 'tag': TAG.copy()}
    forms = [('integer index', I(2), [2]), ('last atom by -1', I(-1), [3]), ('negative integer', I(-3), [1]), ('first atom', I(0), [0]), ('slice', slice(1, 3), [1, 2]), ('list of indices', [3, 0], [3, 0]),
             ('boolean mask', np.array([True, False, False, True]), [0, 3]), ('boolean mask given as a plain list', [True, False, False, True], [0, 3]), ('tuple of an index array (np.where result)', (np.array([1, 3]),), [1, 3])]
    gi = ctx.fn(AT, 'Atoms.__getitem__')
    si = ctx.fn(AT, 'Atoms.__setitem__')
    for tag, index, rows in forms:
        made = []
        obj = SymObj(cls, {'view': table()}, 'self')
        ev = SymEval(module_aliases(ctx.mod(AT)))
        ev.globals = {'Atoms': lambda **kw: (made.append(kw), ('ATOMS', kw))[1], 'OrderedDict': dict}
        try:
            r = [q for q in ev.run_fn(gi, [obj, index], {}) if q.done == 'return']
        except (Opaque, WouldRaise) as e:
            raise AnalysisError('Atoms.__getitem__ (%s): %s' % (tag, e))
        ok = len(r) == 1 and len(made) == 1 and list(made[0]) == ['atype', 'pos', 'tag'] and r[0].ret == ('ATOMS', made[0])
        if ok:
            kw = made[0]
            ok = np.shape(kw['pos']) == (len(rows), 3) and np.shape(kw['atype']) == (len(rows),) and equal(np.asarray(kw['pos'], dtype=object), POS[rows], deep=False) \
                and equal(np.asarray(kw['tag'], dtype=object), TAG[rows], deep=False) and [int(v) for v in kw['atype']] == [int(TYP[i]) for i in rows]
        ctx.ob('INDEXING', AT + '::Atoms.__getitem__', '%s: every property is read at the same rows %s and the result keeps one leading row per selected atom (an integer selects a one-row table)' % (tag, rows), bool(ok),
               node=gi, key='getitem ' + tag)
        # assignment of matching rows
        NEWP = symarray('y', (len(rows), 3), real=True)
        NEWT = symarray('s', (len(rows),), real=True)
        NEWA = np.array([I(7)] * len(rows), dtype=object)

        class Val(PyStub):
            _isa = ('Atoms',)
            view = {'tag': NEWT, 'pos': NEWP, 'atype': NEWA}       # same property set, assigned in another order than the receiver's: rows are matched by name
        obj = SymObj(cls, {'view': table()}, 'self')
        ev = SymEval(module_aliases(ctx.mod(AT)))
        why = ''
        try:
            r = [q for q in ev.run_fn(si, [obj, index, Val()], {}) if q.done == 'return']
        except WouldRaise as e:
            r, why = [], str(e)
        except Opaque as e:
            raise AnalysisError('Atoms.__setitem__ (%s): %s' % (tag, e))
        v = obj.attrs['view']
        wantp, wantt, wanta = POS.copy(), TAG.copy(), TYP.copy()
        for k, i in enumerate(rows):
            wantp[i], wantt[i], wanta[i] = NEWP[k], NEWT[k], NEWA[k]
        ok = len(r) == 1 and equal(np.asarray(v['pos'], dtype=object), wantp, deep=False) and equal(np.asarray(v['tag'], dtype=object), wantt, deep=False) and [int(x) for x in v['atype']] == [int(x) for x in wanta]
        ctx.ob('INDEXING', AT + '::Atoms.__setitem__', '%s: every property of the given atoms (matched by name, whatever the order they were defined in) is written at the same rows %s, all other rows untouched' % (tag, rows), bool(ok), why,
               node=si, key='setitem ' + tag)
    ctx.floor('INDEXING/forms', len(forms), 9)
    # refusals of row assignment
    for tag, val in (('a value that is not an Atoms table', 'notatoms'), ('a table with another property set', 'otherkeys')):
        class Bad(PyStub):
            _isa = () if val == 'notatoms' else ('Atoms',)
            view = {'pos': POS[:1], 'atype': TYP[:1]} if val == 'otherkeys' else {'pos': POS[:1], 'atype': TYP[:1], 'tag': TAG[:1]}
        obj = SymObj(cls, {'view': table()}, 'self')
        try:
            r = [q for q in SymEval(module_aliases(ctx.mod(AT))).run_fn(si, [obj, I(0), Bad()], {}) if q.done == 'return']
            acc = bool(r)
        except WouldRaise:
            acc = False
        unchanged = equal(np.asarray(obj.attrs['view']['pos'], dtype=object), POS, deep=False)
        ctx.ob('INDEXING', AT + '::Atoms.__setitem__', 'row assignment of %s is refused and nothing is written' % tag, (not acc) and unchanged, node=si, key='setitem refuse ' + val)
    sa = ctx.fn(AT, 'Atoms.__setattr__')
    t = norm(sa).replace(' ', '')
    ctx.ob('INDEXING', AT + '::Atoms.__setattr__', 'attribute assignment of a property goes through the guarded table', 'ifnothasattr(self,name)ornameinself.view:self.view[name]=value' in t, node=sa)
    # prop_atype by evaluation on a five-atom table of three types (one type without atoms)
    pa = ctx.fn(AT, 'Atoms.prop_atype')
    ATY = arr([2, 1, 4, 1, 2])

    class _View(dict):
        pass

    def run_pa(key, value, atype=None, existing=None):
        view = _View({'atype': ATY.copy()})
        if existing is not None:
            view[key] = existing.copy()
        obj = SymObj(cls, {'view': view, 'atype': ATY.copy(), 'natypes': I(4), 'atypes': (1, 2, 4), 'natoms': I(5), 'prop': lambda *a, **k: list(view.keys())}, 'self')
        ev_ = SymEval(module_aliases(ctx.mod(AT)))
        try:
            live = [q for q in ev_.run_fn(pa, [obj, key, value], {} if atype is None else {'atype': atype}) if q.done == 'return']
        except WouldRaise:
            return 'refused', view
        except Opaque as e:
            raise AnalysisError('Atoms.prop_atype: %s' % e)
        return ('accepted' if live else 'refused'), view
    PT = symarray('t', (4,))
    st_, view = run_pa('charge', PT)
    ok1 = st_ == 'accepted' and 'charge' in view and np.shape(view['charge']) == (5,) and all(is_zero(sp.sympify(view['charge'][i]) - PT[int(ATY[i]) - 1], deep=False) for i in range(5))
    PV = symarray('w', (4, 3))
    st_, view = run_pa('moment', PV)
    ok1 = ok1 and st_ == 'accepted' and np.shape(view.get('moment')) == (5, 3) and all(equal(np.asarray(view['moment'][i], dtype=object), PV[int(ATY[i]) - 1], deep=False) for i in range(5))
    st_, view = run_pa('charge', PT[:3])
    ok2 = st_ == 'refused' and 'charge' not in view
    OLD = symarray('c', (5,))
    st_, view = run_pa('charge', sp.Symbol('q2'), atype=2, existing=OLD)
    ok3 = st_ == 'accepted' and all(is_zero(sp.sympify(view['charge'][i]) - (sp.Symbol('q2') if int(ATY[i]) == 2 else OLD[i]), deep=False) for i in range(5))
    st_, view = run_pa('charge', sp.Symbol('q3'), atype=3, existing=OLD)
    ok4 = st_ == 'refused' and equal(np.asarray(view['charge'], dtype=object), OLD, deep=False)
    ctx.ob('INDEXING', AT + '::Atoms.prop_atype', 'per-type assignment gives every atom the entry of its own type (entry t-1 for type t, whole rows for vector values); one type given: only the atoms of that type change; '
           'a list shorter than the number of types and a type no atom has are refused and nothing is written', bool(ok1 and ok2 and ok3 and ok4),
           'all types %s, short list %s, one type %s, unknown type %s' % (ok1, ok2, ok3, ok4), node=pa)
    ix = ctx.fn(SYS, 'System._AtomsIndexer.__getitem__')
    c = [x for x in calls_in(ix) if norm(x.func) == 'System']
    ok = len(c) == 1 and norm(kwarg(c[0], 'atoms')) == 'host.atoms[index]' and norm(kwarg(c[0], 'box')) == 'host.box' and norm(kwarg(c[0], 'pbc')) == 'host.pbc' and norm(kwarg(c[0], 'symbols')) == 'host.symbols'
    ctx.ob('INDEXING', SYS + '::System._AtomsIndexer.__getitem__', 'a sub-system takes the indexed atoms with the host\'s box, periodicity and symbols', ok, node=ix)


def run(ctx):
    ctx.explanation = ('C06: guard dominance and who-may-write on the per-atom table, alias/freshness analysis of the copying accessors, operand-preservation by the mutation analysis, '
                       'row alignment of extend/atoms_extend, sibling agreement of the symbols/masses accessors, integer-index handling. '
                       'Not decided: equality with a record-per-atom model over arbitrary histories.')
    ctx.run_rules([rect_guard, copy_discipline, preserve, row_align, type_lists, construct_lists, indexing, atoms_prop_scaled])
