"""C19 LAMMPS log reader.

Decided statically:
 * API-COMPAT: every pandas/numpy call in Log.py exists with those keywords in the installed library, including the
   DataFrame method chain of the old-format timing block.
 * READ / APPEND / TRIGGERS: Log.read interpreted on synthesised logs given as token lines (both memory banners, blank lines
   anywhere, timing breakdowns, a final block cut short, no banner, two banners) with a file model that has a read position
   and a read_csv model that counts non-blank lines as pandas does: one record per run in order, printed column names and
   rows, rewinds, timing tables, version/date for all twelve months, append / overwrite sequences.
 * FLATTEN: Log.flatten interpreted on model tables with exact Step values and tagged data (first / last / all, index
   ranges, default, refusals).
 * RESTART: lammps.run on a model file system.
Declined: that parsed values equal printed values (pandas' tokenizer and number parsing).
"""
import ast

import sympy as sp

from ..core import norm, calls_in, kwarg, cmp_canon, string_dispatch, assigns_to, precedes, walk_no_nested
from ..symx import SymEval, Path, PyStub
from .. import apicompat

LOG = 'atomman/lammps/Log.py'


def api(ctx):
    mod = ctx.mod(LOG)
    issues, stats = apicompat.scan(mod)
    ctx.extra['api_stats'] = stats
    ctx.floor('API-COMPAT', stats['calls_resolved'], 3)
    ctx.floor('API-COMPAT/df-methods', stats['df_method_calls'], 5)
    loc = LOG + '::Log'
    if not issues:
        ctx.ob('API-COMPAT', loc, 'all %d resolved library calls (%d keywords) and %d DataFrame method calls exist in the installed pandas/numpy' % (
            stats['calls_resolved'], stats['kw_checked'], stats['df_method_calls']), True)
    for i in issues:
        ctx.ob('API-COMPAT', loc, i.what, False, norm(i.node)[:200], node=i.node, key=i.kind + ':' + i.what)


# ------------------------------------------------------------------ model evaluation of the reader

class _Bytes(PyStub):
    def __init__(self, t):
        self.t = t

    def decode(self, enc='utf-8'):
        return self.t


class _LogFile(PyStub):
    """binary file model: a list of text lines, a read position, iteration from the position, seek(0)"""
    def __init__(self, lines):
        self.lines = lines
        self.pos = 0
        self.seeks = 0

    def __enter__(self):
        return self

    def __iter__(self):
        rest = self.lines[self.pos:]
        self.pos = len(self.lines)
        return iter([_Bytes(x) for x in rest])

    def seek(self, k):
        if k != 0:
            raise RuntimeError('seek(%r) is outside the model' % (k,))
        self.pos = 0
        self.seeks += 1


class _Table(PyStub):
    """what pandas.read_csv(sep=whitespace) yields: column names and rows of printed tokens"""
    _isa = ('DataFrame',)

    def __init__(self, columns, rows):
        self.columns, self.rows = list(columns), [list(r) for r in rows]

    def __len__(self):
        return len(self.rows)

    def __contains__(self, k):
        return k in self.columns

    def keys(self):
        return list(self.columns)

    @staticmethod
    def _missing(row, j):
        return j >= len(row) or str(row[j]).strip() in ('', 'nan', '-nan', 'NaN', '-NaN', 'NA', 'N/A', 'NULL', 'null', 'None', 'n/a', '<NA>', '#N/A', '#NA', '-1.#IND', '1.#IND', '-1.#QNAN', '1.#QNAN', '#N/A N/A')

    def dropna(self, axis=0, how='any', **kw):
        """pandas.DataFrame.dropna on the printed tokens: a cell is missing when its row was cut before it or it prints as nan"""
        from ..symx import Opaque as _Opaque
        if kw or how not in ('any', 'all') or axis not in (0, 1, 'index', 'columns'):
            raise _Opaque('DataFrame.dropna(%r, %r, %s) outside the table model' % (axis, how, sorted(kw)))
        test = any if how == 'any' else all
        if axis in (1, 'columns'):
            keep = [j for j in range(len(self.columns)) if not test(self._missing(r, j) for r in self.rows)]
            return _Table([self.columns[j] for j in keep], [[r[j] for j in keep if j < len(r)] for r in self.rows])
        return _Table(self.columns, [r for r in self.rows if not test(self._missing(r, j) for j in range(len(self.columns)))])


def _mk_read_csv(calls, default_sep=','):
    def read_csv(f, header='infer', nrows=None, sep=None, skip_blank_lines=True, delim_whitespace=False, delimiter=None, **kw):
        from ..symx import ModelError
        if sep is not None and delimiter is not None:
            raise ModelError('ValueError', 'Specified a sep and a delimiter; you can only specify one.')
        sep = delimiter if delimiter is not None else (sep if sep is not None else default_sep)      # pandas: `delimiter` is an alias of `sep`; read_table differs only in the default
        # keywords that change what value a printed cell becomes (or which cells are read), with the defaults the model assumes; anything else is outside the model
        defaults = {'na_filter': True, 'keep_default_na': True, 'na_values': None, 'dtype': None, 'converters': None, 'true_values': None, 'false_values': None, 'thousands': None, 'decimal': '.',
                    'comment': None, 'usecols': None, 'names': None, 'index_col': None, 'skiprows': None, 'skipfooter': 0, 'skipinitialspace': False, 'quotechar': '"', 'escapechar': None,
                    'on_bad_lines': 'error', 'float_precision': None}
        neutral = {'engine', 'encoding', 'memory_map', 'low_memory', 'encoding_errors', 'storage_options', 'compression', 'verbose'}
        unknown = sorted(k_ for k_ in kw if k_ not in defaults and k_ not in neutral)
        if unknown:
            from ..symx import Opaque as _Opaque
            raise _Opaque('read_csv keyword(s) %s are outside the model' % unknown)
        changed = sorted('%s=%r' % (k_, v_) for k_, v_ in kw.items() if k_ in defaults and v_ != defaults[k_])
        calls.append(dict(header=header, nrows=nrows, sep=sep, skip_blank_lines=skip_blank_lines, pos=f.pos, extra=sorted(kw), changed=changed))
        lines = [x for x in f.lines[f.pos:]]
        f.pos = len(f.lines)
        if skip_blank_lines:
            lines = [x for x in lines if x.strip()]       # pandas: header / nrows count the non-blank lines only
        h = int(header)
        if h >= len(lines):
            raise ModelError('EmptyDataError', 'No columns to parse from file')
        split = (lambda x: x.split()) if sep in (r'\s+', ' ', None) else (lambda x: [t for t in x.rstrip('\n').split(sep)])
        cols = split(lines[h])
        body = lines[h + 1:] if nrows is None else lines[h + 1:h + 1 + int(nrows)]
        return _Table(cols, [split(x) for x in body])
    return read_csv


def _synth(blocks, banner='LAMMPS (29 Oct 2020 - Update 2)', cut_last=None, extra_banner=False):
    """a well-formed log from the documented layout; returns (lines, expected [(columns, rows)], expected performance line ranges)"""
    lines, want, perf = [], [], []
    if banner:
        lines += [banner + '\n', 'OMP_NUM_THREADS environment is not set.\n', '\n', 'units metal\n', '   \n']
    for k, (mem, cols, rows, timing) in enumerate(blocks):
        lines += ['run 100\n', mem + ' 3.2 | 3.3 | 3.4 Mbytes\n']
        if k == 1:
            lines += ['\n']
        lines += ['   ' + '   '.join(cols) + ' \n']
        last = (k == len(blocks) - 1)
        use = rows if not (last and cut_last is not None) else rows[:cut_last]
        for r in use:
            lines += ['  ' + '  '.join(r) + '\n']
            if k == 0 and r is rows[0]:
                lines += ['\n']           # blank line inside a table: not counted, not read
        want.append((list(cols), [list(r) for r in use]))
        if last and cut_last is not None:
            break
        lines += ['Loop time of 0.01 on 1 procs for 100 steps with 4 atoms\n', '\n']
        if extra_banner and k == 0:
            lines += ['LAMMPS (1 Jan 1999)\n']
        lines += ['Performance: 86.4 ns/day, 0.278 hours/ns, 1000 timesteps/s\n', '\n']
        if timing:
            nb = len([x for x in lines if x.strip()])
            lines += ['MPI task timing breakdown:\n', 'Section |  min time  |  avg time  |  max time  |%varavg| %total\n', '---------------------------------------------------------------\n',
                      'Pair    | 0.001 | 0.001 | 0.001 |   0.0 | 50.00\n', 'Neigh   | 0 | 0 | 0 |   0.0 |  0.00\n', '\n']
            perf.append((k, nb + 1, nb + 4))
        # the neighbour statistics follow every completed run, whether or not a timing breakdown was printed (`timer off` suppresses the breakdown only)
        lines += ['Nlocal:    4.00000 ave 4 max 4 min\n', 'Histogram: 1 0 0 0 0 0 0 0 0 0\n', '\n']
        lines += ['Total wall time: 0:00:00\n' if last else 'reset_timestep 0\n']
    return lines, want, perf


def read_model(ctx):
    """Log.read interpreted on synthesised logs (token lines, a file position, pandas' header/nrows semantics over non-blank lines)"""
    from ..symx import SymObj, PyStub, Opaque, WouldRaise, module_aliases
    from ..core import AnalysisError
    cls = ctx.fn(LOG, 'Log')
    read = ctx.fn(LOG, 'Log.read')
    loc = LOG + '::Log.read'
    MEM1, MEM2 = 'Per MPI rank memory allocation (min/avg/max) =', 'Memory usage per processor ='
    A = (MEM1, ['Step', 'Temp', 'PotEng'], [['0', '300', '-13.44'], ['50', '310.5', '-13.40'], ['100', '1e+02', '-13.39']], True)
    B = (MEM2, ['Step', 'Press'], [['100', '0.5'], ['200', '-1.25e-3']], False)
    C = (MEM1, ['Step', 'KinEng', 'Temp', 'Volume'], [['0', '0', '0', '64'], ['10', '1', '2', '64'], ['20', '3', '4', '65'], ['30', '5', '6', '66']], True)

    def new_log():
        return SymObj(cls, {'_Log__simulations': [], '_Log__lammps_version': None, '_Log__lammps_date': None}, 'self')

    def do_read(obj, lines, append=None):
        calls, perfcalls, files = [], [], []

        class Sim(PyStub):
            def __init__(self, thermo=None, performance=None):
                self.thermo, self.performance = thermo, performance

        class PD(PyStub):
            DataFrame = 'DataFrame'
        pd_ = PD()
        pd_.read_csv = _mk_read_csv(calls)
        pd_.read_table = _mk_read_csv(calls, default_sep='\t')

        def opener(x):
            f = _LogFile(x)
            files.append(f)
            return f

        class DT(PyStub):
            def date(self, year, month, day):
                return ('DATE', int(year), int(month), int(day))
        obj.attrs['_Log__read_performance'] = lambda f, h, ft, old: (perfcalls.append((int(h), int(ft), bool(old), f.pos)), ('PERF', int(h), int(ft)))[1]
        ev = SymEval(module_aliases(ctx.mod(LOG)))
        ev.globals = {'uber_open_rmode': opener, 'pd': pd_, 'Simulation': Sim, 'datetime': DT()}
        kw = {} if append is None else {'append': append}
        try:
            paths = ev.run_fn(read, [obj, lines], kw)
        except WouldRaise as e:
            return 'raise: %s' % e, calls, perfcalls, files
        except Opaque as e:
            raise AnalysisError('Log.read on a synthesised log: %s' % e)
        return ('ok' if len([q for q in paths if q.done == 'return']) == 1 else 'raise'), calls, perfcalls, files

    def tables(obj):
        return [(s_.thermo.columns, s_.thermo.rows) if isinstance(getattr(s_, 'thermo', None), _Table) else None for s_ in obj.attrs['_Log__simulations']]
    n = 0
    for tag, blocks, kw in (('two runs, both memory banners, blank lines before, between and inside the tables, timing breakdown after the first', [A, B], {}),
                            ('three runs, the last one cut short by a crash after two rows', [A, B, C], {'cut_last': 2}),
                            ('one run cut short right after its header line', [C], {'cut_last': 0}),
                            ('no version banner', [B, A], {'banner': None}),
                            ('two runs, neither prints a timing breakdown (timer off)', [B, (MEM1, C[1], C[2], False)], {}),
                            ('three runs, only the last prints a timing breakdown', [B, (MEM1, A[1], A[2], False), C], {})):
        n += 1
        lines, want, perf = _synth(blocks, **kw)
        obj = new_log()
        st, calls, perfcalls, files = do_read(obj, lines)
        got = tables(obj) if st == 'ok' else None
        ctx.ob('READ', loc, '%s: one record per run in order of appearance, each thermo table with the printed column names and the printed rows, row for row' % tag, st == 'ok' and got == [(c, r) for c, r in want],
               st if st != 'ok' else 'tables %s' % str(got)[:260], node=read, key='tables ' + tag)
        ctx.ob('READ', loc, '%s: every table read starts from the beginning of the stream (rewound after the scan and after each read) and counts non-blank lines as the scan did' % tag,
               st == 'ok' and all(c['pos'] == 0 and c['skip_blank_lines'] is True for c in calls) and len(calls) == len(want), str(calls)[:200], node=read, key='rewind ' + tag)
        chg = sorted({x for c in calls for x in c.get('changed', ())})
        ctx.ob('READ', loc, '%s: cells become values by pandas\' default rules (numbers as numbers, nan / -nan and the missing cells of a cut row as NaN in a numeric column): no keyword of the table read changes them' % tag,
               not chg, 'read_csv called with %s' % chg, node=read, key='cell rules ' + tag)
        wantperf = [(h, f) for k, h, f in perf]
        ok = st == 'ok' and [(h, f) for h, f, old, pos in perfcalls] == wantperf and all(pos == 0 and old is False for h, f, old, pos in perfcalls) \
            and all(getattr(obj.attrs['_Log__simulations'][k], 'performance', None) == ('PERF', h, f) for k, h, f in perf) \
            and all(getattr(sim_, 'performance', None) is None for k_, sim_ in enumerate(obj.attrs['_Log__simulations']) if k_ not in [k for k, h, f in perf])
        ctx.ob('READ', loc, '%s: each timing breakdown is read over its own lines (the line after its banner … the line before "Nlocal"), from a rewound stream, and attached to the run that printed it; a run without a breakdown has none' % tag,
               bool(ok), st if st != 'ok' else str(perfcalls), node=read, key='perf ' + tag)
        if kw.get('banner', True) is not None:
            ok = obj.attrs['_Log__lammps_version'] == '29 Oct 2020 - Update 2' and obj.attrs['_Log__lammps_date'] == ('DATE', 2020, 10, 29)
            ctx.ob('READ', loc, '%s: version string = text inside the banner\'s parentheses, date = its day, month and year' % tag, bool(ok), str((obj.attrs['_Log__lammps_version'], obj.attrs['_Log__lammps_date'])), node=read, key='version ' + tag)
        else:
            ctx.ob('READ', loc, '%s: version and date stay unset' % tag, obj.attrs['_Log__lammps_version'] is None and obj.attrs['_Log__lammps_date'] is None, node=read, key='version ' + tag)
    ctx.floor('READ', n, 6)
    # sequences of read() calls
    l1, w1, p1 = _synth([A, B], extra_banner=True)
    l2, w2, p2 = _synth([C], banner='LAMMPS (3 Mar 2020)')
    obj = new_log()
    s1 = do_read(obj, l1)
    first_version = obj.attrs['_Log__lammps_version']
    s2 = do_read(obj, l2, True)
    ok = s1[0] == 'ok' and s2[0] == 'ok' and tables(obj) == [(c, r) for c, r in w1 + w2] and getattr(obj.attrs['_Log__simulations'][2], 'performance', None) is not None \
        and getattr(obj.attrs['_Log__simulations'][0], 'performance', None) == ('PERF', p1[0][1], p1[0][2])
    ctx.ob('APPEND', loc, 'reading a further log (append=True) adds its runs after the existing ones; its timing tables go to its own runs', bool(ok), str(tables(obj))[:200], node=read, key='append')
    ctx.ob('APPEND', loc, 'the version is taken from the first banner met and kept when further banners or logs follow', first_version == '29 Oct 2020 - Update 2' and obj.attrs['_Log__lammps_version'] == '29 Oct 2020 - Update 2',
           str((first_version, obj.attrs['_Log__lammps_version'])), node=read, key='first banner')
    obj2 = new_log()
    do_read(obj2, l1)
    do_read(obj2, l2)          # append defaults to True
    ctx.ob('APPEND', loc, 'append is the default', tables(obj2) == [(c, r) for c, r in w1 + w2], node=read, key='append default')
    s3 = do_read(obj, l2, False)
    ok = s3[0] == 'ok' and tables(obj) == [(c, r) for c, r in w2] and obj.attrs['_Log__lammps_version'] == '3 Mar 2020' and obj.attrs['_Log__lammps_date'] == ('DATE', 2020, 3, 3)
    ctx.ob('APPEND', loc, 'append=False forgets the earlier runs, version and date before reading', bool(ok), str((tables(obj), obj.attrs['_Log__lammps_version']))[:200], node=read, key='overwrite')
    # months
    rv = ctx.fn_opt(LOG, 'Log.__read_lammps_version') or read
    bad = []
    for k, mname in enumerate(['Jan', 'Feb', 'Mar', 'Apr', 'May', 'Jun', 'Jul', 'Aug', 'Sep', 'Oct', 'Nov', 'Dec']):
        o = new_log()
        st = do_read(o, ['LAMMPS (7 %s 2019)\n' % mname, 'units real\n'])
        if st[0] != 'ok' or o.attrs['_Log__lammps_date'] != ('DATE', 2019, k + 1, 7) or o.attrs['_Log__lammps_version'] != '7 %s 2019' % mname:
            bad.append((mname, o.attrs['_Log__lammps_date']))
    ctx.ob('TRIGGERS', loc, 'the twelve month abbreviations give months 1..12', not bad, str(bad), node=rv, key='months')
    # suffixes LAMMPS has printed after the date: ' - Update N', and a build tag attached to the year ('30 Jul 2016-ICMS')
    bad = []
    for banner, ver, date in (('LAMMPS (30 Jul 2016-ICMS)', '30 Jul 2016-ICMS', ('DATE', 2016, 7, 30)), ('LAMMPS (29 Aug 2024 - Update 1)', '29 Aug 2024 - Update 1', ('DATE', 2024, 8, 29)),
                              ('LAMMPS (2 Aug 2023)', '2 Aug 2023', ('DATE', 2023, 8, 2))):
        o = new_log()
        st = do_read(o, [banner + '\n', 'units real\n'])
        if st[0] != 'ok' or o.attrs['_Log__lammps_date'] != date or o.attrs['_Log__lammps_version'] != ver:
            bad.append((banner, st[0], o.attrs['_Log__lammps_version'], o.attrs['_Log__lammps_date']))
    ctx.ob('TRIGGERS', loc, 'the date is read from the banner also when a suffix follows it: " - Update N", or a build tag attached to the year', not bad, str(bad), node=rv, key='date suffixes')
    o = new_log()
    do_read(o, ['  LAMMPS (7 Aug 2019)\n', 'Reading LAMMPS (data) file\n'])
    ctx.ob('TRIGGERS', loc, 'only a line that starts with "LAMMPS (" is a version banner', o.attrs['_Log__lammps_version'] is None, str(o.attrs['_Log__lammps_version']), node=read, key='banner start')


_TRUNC = sp.Function('truncated_to_int')


class _Col(PyStub):
    """one column of a numeric table: exact values with numpy's dtype rule (all integers -> int64, anything else -> float64)"""
    def __init__(self, values):
        import numpy as np
        self.v = np.array(list(values), dtype=object)

    @property
    def dtype(self):
        return 'int64' if len(self.v) and all(isinstance(x, sp.Integer) for x in self.v) else 'float64'

    def __len__(self):
        return len(self.v)

    def max(self):
        return sp.Max(*self.v) if len(self.v) else sp.nan          # pandas: the extreme of an empty column is NaN

    def min(self):
        return sp.Min(*self.v) if len(self.v) else sp.nan

    @property
    def iloc(self):
        return _Positional(self.v)

    @property
    def values(self):
        return self.v.copy()

    def to_numpy(self, *a, **k):
        return self.v.copy()

    def tolist(self):
        return list(self.v)

    def _cmp(self, o, f):
        import numpy as np
        if o is sp.nan:
            return np.zeros(len(self.v), dtype=bool)                # every comparison with NaN is False
        return np.array([bool(f(x, o)) for x in self.v], dtype=bool)

    def __gt__(self, o):
        return self._cmp(o, lambda x, y: x > y)

    def __lt__(self, o):
        return self._cmp(o, lambda x, y: x < y)

    def __ge__(self, o):
        return self._cmp(o, lambda x, y: x >= y)

    def __le__(self, o):
        return self._cmp(o, lambda x, y: x <= y)


class _Positional(PyStub):
    """column.iloc: access by position"""
    def __init__(self, v):
        self.v = v

    def __getitem__(self, i):
        if isinstance(i, slice):
            return _Col(self.v[i])
        i = int(i)
        if not -len(self.v) <= i < len(self.v):
            raise IndexError('single positional indexer is out-of-bounds')
        return self.v[i]


def _cast(x, dtype=None, **k):
    """numpy.asarray(column, dtype=...): a float -> integer cast truncates silently, NaN becomes an arbitrary integer (no exception)"""
    import numpy as np
    vals = x.v if isinstance(x, _Col) else np.asarray(x, dtype=object)
    if dtype is None or str(dtype) not in ('int64', 'int', 'int32'):
        return np.array(list(vals), dtype=object)
    out = []
    for v_ in vals:
        if v_ is None:
            out.append(sp.Symbol('garbage_int_from_NaN'))
        elif isinstance(v_, sp.Integer):
            out.append(v_)
        elif isinstance(v_, sp.Rational) or isinstance(v_, sp.Float):
            out.append(sp.Integer(int(v_)))
        else:
            out.append(_TRUNC(v_))
    return np.array(out, dtype=object)


_cast._wants_dtype = True


class _Frame(PyStub):
    """numeric table model for flatten(): named columns of exact values, row selection by mask, concatenation"""
    _isa = ('DataFrame',)

    def __init__(self, cols, order=None):
        import numpy as np
        object.__setattr__(self, 'cols', {k: np.array(list(v.v if isinstance(v, _Col) else v), dtype=object) for k, v in cols.items()})

    def __len__(self):
        return len(next(iter(self.cols.values()))) if self.cols else 0

    @property
    def shape(self):
        return (len(self), len(self.cols))

    @property
    def empty(self):
        return len(self) == 0 or not self.cols

    def __contains__(self, k):
        return k in self.cols

    def keys(self):
        return list(self.cols)

    def __getattr__(self, k):
        c = object.__getattribute__(self, 'cols')
        if k in c:
            return _Col(c[k])
        raise AttributeError(k)

    def __getitem__(self, k):
        import numpy as np
        if isinstance(k, str):
            if k not in self.cols:
                from ..symx import ModelError
                raise ModelError('KeyError', k)
            return _Col(self.cols[k])
        m = np.array([bool(v) for v in np.ravel(k)], dtype=bool)
        return _Frame({c: v[m] for c, v in self.cols.items()})

    def __setitem__(self, k, v):
        import numpy as np
        self.cols[k] = np.array(list(v.v if isinstance(v, _Col) else v), dtype=object)

    @property
    def index(self):
        import numpy as np
        return np.arange(len(self))

    def drop(self, labels=None, index=None, inplace=False, **kw):
        """rows dropped by their (positional) labels; inplace=True changes this very table, as pandas does"""
        import numpy as np
        from ..symx import Opaque as _Opaque
        if kw:
            raise _Opaque('DataFrame.drop keyword(s) %s are outside the model' % sorted(kw))
        gone = {int(v) for v in np.ravel(labels if labels is not None else index)}
        keep = np.array([i not in gone for i in range(len(self))], dtype=bool)
        new = {c: v[keep] for c, v in self.cols.items()}
        if inplace:
            object.__setattr__(self, 'cols', new)
            return None
        return _Frame(new)

    def copy(self, deep=True):
        return _Frame({c: v.copy() for c, v in self.cols.items()})

    @property
    def loc(self):
        return _RowsBy(self, positional=False)

    @property
    def iloc(self):
        return _RowsBy(self, positional=True)

    @property
    def dtypes(self):
        return _DTypes({c: _Col(v).dtype for c, v in self.cols.items()})

    @property
    def columns(self):
        return list(self.cols)


class _RowsBy(PyStub):
    """frame.loc[mask] / frame.iloc[mask or positions]: rows only (the merged tables are renumbered, so labels and positions coincide)"""
    def __init__(self, frame, positional):
        self.frame, self.positional = frame, positional

    def __getitem__(self, k):
        import numpy as np
        from ..symx import Opaque as _Opaque
        if isinstance(k, (tuple, str, slice)):
            raise _Opaque('row/column selection %r outside the table model' % (k,))
        k = np.asarray(k.v if isinstance(k, _Col) else k)
        if k.dtype == bool:
            if len(k) != len(self.frame):
                raise IndexError('Boolean index has wrong length')
            return self.frame[k]
        rows = [int(v) for v in np.ravel(k)]
        return _Frame({c: v[rows] for c, v in self.frame.cols.items()})


class _DTypes(PyStub):
    def __init__(self, d):
        self.d = d

    def to_dict(self):
        return dict(self.d)

    def items(self):
        return list(self.d.items())

    def __getitem__(self, k):
        return self.d[k]


def flatten_model(ctx):
    """Log.flatten interpreted on model tables (exact Step values, tagged data values)"""
    import numpy as np
    from ..symx import SymObj, PyStub, Opaque, WouldRaise, module_aliases
    from ..core import AnalysisError
    cls = ctx.fn(LOG, 'Log')
    fn = ctx.fn(LOG, 'Log.flatten')
    loc = LOG + '::Log.flatten'
    I = sp.Integer

    def run_of(tag, steps, extra=None):
        cols = {'Step': [I(s_) for s_ in steps], 'Temp': [sp.Symbol('%s_T%d' % (tag, s_)) for s_ in steps]}
        if extra:
            cols[extra] = [sp.Symbol('%s_%s%d' % (tag, extra, s_)) for s_ in steps]
        return cols
    RUNS = [run_of('A', [0, 10, 20, 30]), run_of('B', [20, 30, 40], 'Press'), None, run_of('C', [40, 50]), run_of('D', [100, 110], 'Press')]
    RUNS[4]['Temp'] = [I(300), I(310)]        # the latest run prints whole numbers in a column that held fractions before

    class Sim(PyStub):
        def __init__(self, thermo=None, performance=None):
            self.thermo = thermo
    concat_calls = []

    def concat(frames, ignore_index=False, **kw):
        concat_calls.append(bool(ignore_index))
        names = []
        for f in frames:
            for c in f.keys():
                if c not in names:
                    names.append(c)
        out = {c: [] for c in names}
        for f in frames:
            for c in names:
                out[c].extend(list(f.cols[c]) if c in f.cols else [None] * len(f))
        return _Frame(out)

    class PD(PyStub):
        pass
    pd_ = PD()
    pd_.concat = concat
    pd_.DataFrame = 'DataFrame'

    stored_before, stored_sims = [], []

    def stored_unchanged():
        now = [(None if s_.thermo is None else {c: list(v) for c, v in s_.thermo.cols.items()}) for s_ in stored_sims]
        return now == stored_before

    def flat(style, runs, first=None, last=None, give_style=True):
        sims = [Sim(thermo=(None if r is None else _Frame(r))) for r in runs]
        stored_before[:] = [(None if s_.thermo is None else {c: list(v) for c, v in s_.thermo.cols.items()}) for s_ in sims]
        stored_sims[:] = sims
        obj = SymObj(cls, {'_Log__simulations': sims}, 'self')
        ev = SymEval(module_aliases(ctx.mod(LOG)))
        ev.globals = {'pd': pd_, 'Simulation': Sim}
        def arr_equal(a_, b_):
            va = a_.v if isinstance(a_, _Col) else np.asarray(a_, dtype=object)
            vb = b_.v if isinstance(b_, _Col) else np.asarray(b_, dtype=object)
            return len(va) == len(vb) and all(x is not None and y is not None and sp.simplify(sp.sympify(x) - sp.sympify(y)) == 0 for x, y in zip(va, vb))
        def arr_close(a_, b_, rtol=sp.Rational(1, 100000), atol=sp.Rational(1, 10 ** 8), **k_):
            # a tolerant comparison of a column with its converted self: values that differ by less than one (a dropped fraction) pass it once they are large enough
            # (|x - trunc x| < 1 <= atol + rtol |x| from 1e5 on), so for the tagged values of the model the test is taken at its most permissive; NaN is never close
            if sp.sympify(rtol) == 0 and sp.sympify(atol) == 0:
                return arr_equal(a_, b_)
            va = a_.v if isinstance(a_, _Col) else np.asarray(a_, dtype=object)
            vb = b_.v if isinstance(b_, _Col) else np.asarray(b_, dtype=object)
            if len(va) != len(vb):
                return False
            for x, y in zip(va, vb):
                if x is None or y is None:
                    return False
                dx = sp.simplify(sp.sympify(x) - sp.sympify(y))
                if dx == 0:
                    continue
                if dx.is_number and sp.sympify(y).is_number:
                    if not bool(sp.Abs(dx) <= sp.sympify(atol) + sp.sympify(rtol) * sp.Abs(sp.sympify(y))):
                        return False
            return True
        ev.np_override = {'numpy.asarray': _cast, 'numpy.array': _cast, 'numpy.array_equal': arr_equal, 'numpy.allclose': arr_close}
        kw = {}
        if give_style:
            kw['style'] = style
        if first is not None:
            kw['firstindex'] = first
        if last is not None:
            kw['lastindex'] = last
        try:
            live = [q for q in ev.run_fn(fn, [obj], kw) if q.done == 'return']
        except WouldRaise:
            return None
        except Opaque as e:
            raise AnalysisError('Log.flatten(%s): %s' % (style, e))
        if len(live) != 1 or not isinstance(live[0].ret, Sim) or not isinstance(live[0].ret.thermo, _Frame):
            return None
        t = live[0].ret.thermo
        return [tuple((c, t.cols[c][i]) for c in sorted(t.cols) if t.cols[c][i] is not None) for i in range(len(t))]

    def brute(style, runs):
        rows = []
        for r in runs:
            if r is None:
                continue
            new = [tuple((c, r[c][i]) for c in sorted(r) if r[c][i] is not None) for i in range(len(r['Step']))]
            step = lambda row: dict(row)['Step']
            if not new:
                continue          # a run cut short right after its header line has no timestep to contribute
            if not rows or style == 'all':
                rows = rows + new
            elif style == 'first':
                mx = max(step(x) for x in rows)
                rows = rows + [x for x in new if step(x) > mx]
            else:
                mn = min(step(x) for x in new)
                rows = [x for x in rows if step(x) < mn] + new
        return rows
    for style, desc in (('first', "'first': rows of earlier runs are kept; a later run contributes only the rows whose Step exceeds every Step already present"),
                        ('last', "'last': a later run replaces the earlier rows from its first Step on"), ('all', "'all': every row of every run, in order")):
        got = flat(style, RUNS)
        ctx.ob('FLATTEN', loc, '%s: the per-run records of the log are left as they were read (flattening builds a new table)' % style, stored_unchanged(), node=fn, key='flatten keeps runs ' + style)
        want = brute(style, RUNS)
        ok = got == want and (style == 'all' or len({dict(r)['Step'] for r in got}) == len(got))
        ctx.ob('FLATTEN', loc, '%s (five records: overlapping, touching and disjoint step ranges, one record without a table, differing column sets); each row keeps the values of the run it came from' % desc, bool(ok),
               'got %s' % str(got)[:240], node=fn, key='merge ' + style)
        got2 = flat(style, RUNS, 1, 4)
        ctx.ob('FLATTEN', loc, "'%s' over simulations[1:4] only" % style, got2 == brute(style, RUNS[1:4]), str(got2)[:200], node=fn, key='slice ' + style)
    # a final run cut short by a crash right after its header line (column names, no rows), and such a run in the middle
    EMPTY = {'Step': [], 'Temp': []}
    for style in ('first', 'last', 'all'):
        for tag, runs in (('the last run was cut short right after its header line', [RUNS[0], RUNS[1], dict(EMPTY)]), ('a run in the middle has no rows', [RUNS[0], dict(EMPTY), RUNS[3]]),
                          ('the first run has no rows (a crashed log followed by the appended log of its restart)', [dict(EMPTY), RUNS[0], RUNS[1]])):
            got3 = flat(style, runs)
            ctx.ob('FLATTEN', loc, "'%s', %s: the timesteps of the other runs are all there, each once" % (style, tag), got3 == brute(style, runs), 'got %s' % str(got3)[:200], node=fn, key='empty run %s %s' % (style, tag[:12]))
    # the last line of a crashed run was cut inside its Step field: the last listed Step of that run is not its largest
    CUT = run_of('A', [0, 10, 20, 30])
    CUT['Step'].append(I(4))
    CUT['Temp'].append(None)
    for style in ('first', 'last', 'all'):
        runs = [CUT, run_of('B', [20, 30, 40, 50])]
        got4 = flat(style, runs)
        ctx.ob('FLATTEN', loc, "'%s', the crashed first run ends with a line cut inside its Step field (4 of 40): the restarted run is still merged against every Step already present, not against the last one listed" % style,
               got4 == brute(style, runs), 'got %s' % str(got4)[:240], node=fn, key='cut step ' + style)
    ctx.ob('FLATTEN', loc, "the default style is 'last'", flat(None, RUNS, give_style=False) == brute('last', RUNS), node=fn, key='default style')
    ctx.ob('FLATTEN', loc, 'merged rows are renumbered (ignore_index=True on every concatenation)', bool(concat_calls) and all(concat_calls), node=fn, key='ignore_index')
    ctx.ob('FLATTEN', loc, 'an unknown style is refused', flat('median', RUNS) is None, node=fn, key='unknown style')
    nostep = [RUNS[0], {'Time': [I(1), I(2)], 'Temp': [sp.Symbol('x1'), sp.Symbol('x2')]}]
    ctx.ob('FLATTEN', loc, 'a thermo table without a Step column is refused', flat('last', nostep) is None, node=fn, key='no step')
    single = flat('first', [RUNS[0]])
    ctx.ob('FLATTEN', loc, 'a single run is returned as it is', single == brute('first', [RUNS[0]]), node=fn, key='single')


RUN = 'atomman/lammps/run.py'


def restart(ctx):
    """run(): which log files are read back, in which order, on a model file system"""
    from ..symx import PyStub, Opaque, WouldRaise, module_aliases
    from ..core import AnalysisError
    fn = ctx.fn(RUN, 'run')
    loc = RUN + '::run'

    def scenario(files, screen, restart=True, logfile='log.lammps', sessions=None):
        """one call of run() on a model file system holding `files` (reads are recorded by name), or, with sessions=n, n successive calls starting from an empty
        directory tree (reads are recorded by what the file holds: the number of the session that wrote it)"""
        import posixpath
        fs = {f: f for f in files}
        renames, reads = [], []
        current = ['']

        class FP(PyStub):
            def __init__(self, name=''):
                p_ = str(name)
                self.path = '' if p_ in ('', '.') else posixpath.normpath(p_)

            @property
            def name(self):
                return posixpath.basename(self.path)

            @property
            def parent(self):
                return FP(posixpath.dirname(self.path))

            def is_file(self):
                return self.path in fs

            def exists(self):
                return self.path in fs

            @property
            def stem(self):
                return self.name.rsplit('.', 1)[0] if '.' in self.name else self.name

            @property
            def suffix(self):
                return '.' + self.name.rsplit('.', 1)[1] if '.' in self.name else ''

            def rename(self, new):
                new = FP(new).path
                renames.append((self.path, new))
                fs[new] = fs.pop(self.path)
                return FP(new)

            def glob(self, pat):
                import fnmatch
                return [FP(f) for f in sorted(fs) if posixpath.dirname(f) == self.path and fnmatch.fnmatch(posixpath.basename(f), pat)]

            def __truediv__(self, o):
                return FP(posixpath.join(self.path, str(o)) if self.path else str(o))

            def with_name(self, n):
                return self.parent / n

            def as_posix(self):
                return self.path or '.'

            def __str__(self):
                return self.path or '.'

            def __eq__(self, o):
                return str(o) == str(self)

            def __ne__(self, o):
                return str(o) != str(self)

            def __hash__(self):
                return hash(self.path)

            def __lt__(self, o):          # paths order by their text: 'log-10.lammps' < 'log-2.lammps'
                return str(self) < str(o)

            def __format__(self, spec):
                return str(self)

        class Out(PyStub):
            stdout = 'STDOUT-OF-THIS-RUN'

        class Sub(PyStub):
            CalledProcessError = 'CalledProcessError'

            def run(self, command, **kw):
                # LAMMPS writes the new log file where -log says (log.lammps in the working directory otherwise)
                command = [str(c) for c in command]
                target = command[command.index('-log') + 1] if '-log' in command else 'log.lammps'
                if target != 'none':
                    target = FP(target).path
                    fs[target] = current[0] if sessions is not None else fs.get(target, target)
                return Out()

        class Shlex(PyStub):
            def split(self, c):
                return str(c).split()

        class LogStub(PyStub):
            def read(self, what, **kw):
                if sessions is None:
                    reads.append(str(what))
                elif str(what) == 'STDOUT-OF-THIS-RUN':
                    reads.append(current[0])
                else:
                    reads.append(fs.get(FP(what).path, 'MISSING ' + str(what)))
        kw = dict(script_name='in.lmp', logfile=logfile, screen=screen)
        if restart:
            kw['restart_script_name'] = 'restart.lmp'
        history = []
        for k in range(sessions or 1):
            current[0] = 'session %d' % k
            del reads[:]
            ev = SymEval(module_aliases(ctx.mod(RUN)))
            ev.globals = {'Path': FP, 'subprocess': Sub(), 'shlex': Shlex(), 'Log': LogStub, 'LammpsError': 'LammpsError', 'int': int, 'str': str}
            try:
                paths = ev.run_fn(fn, ['lmp'], dict(kw))
            except WouldRaise as e:
                return None, renames, 'raises: %s' % e
            except Opaque as e:
                raise AnalysisError('run() on the model file system: %s' % e)
            if len([q for q in paths if q.done == 'return']) != 1:
                return None, renames, 'no single returning path'
            history.append(list(reads))
        if sessions is not None:
            return history, renames, ''
        return reads, renames, ''
    cases = [('first restart (one earlier attempt)', ['log.lammps'], True, True, [('log.lammps', 'log-1.lammps')], ['log-1.lammps', 'STDOUT-OF-THIS-RUN']),
             ('third restart, log file read back', ['log.lammps', 'log-1.lammps', 'log-2.lammps'], False, True, [('log.lammps', 'log-3.lammps')], ['log-1.lammps', 'log-2.lammps', 'log-3.lammps', 'log.lammps']),
             ('eleventh restart (numbering, not name order)', ['log.lammps'] + ['log-%d.lammps' % i for i in range(1, 11)], True, True, [('log.lammps', 'log-11.lammps')],
              ['log-%d.lammps' % i for i in range(1, 12)] + ['STDOUT-OF-THIS-RUN']),
             ('restart script given but nothing ran before', [], True, True, [], ['STDOUT-OF-THIS-RUN']),
             ('no restart script', ['log.lammps'], False, False, [], ['log.lammps']),
             ('a log file name that itself contains a hyphen, fourth restart', ['stage-2.lammps', 'stage-2-1.lammps', 'stage-2-2.lammps', 'stage-2-3.lammps'], False, True, [('stage-2.lammps', 'stage-2-4.lammps')],
              ['stage-2-1.lammps', 'stage-2-2.lammps', 'stage-2-3.lammps', 'stage-2-4.lammps', 'stage-2.lammps'], 'stage-2.lammps')]
    for case in cases:
        tag, files, screen, rs, want_ren, want_reads = case[:6]
        reads, renames, why = scenario(files, screen, restart=rs, logfile=case[6] if len(case) > 6 else 'log.lammps')
        ctx.ob('RESTART', loc, '%s: the previous log is renamed to the next free number and the returned Log reads every earlier attempt in order, then the current run' % tag,
               reads == want_reads and renames == want_ren, why or 'renames %s, reads %s' % (renames, reads), node=fn, key='restart ' + tag)
    # histories: the same call repeated, every session restarting the one before; wherever the numbered copies are kept, each call returns every session so far, in order
    for tag, logfile, screen in (('log file in the working directory, screen read back', 'log.lammps', True), ('log file in a sub-directory, screen read back', 'out/md.lammps', True),
                                 ('log file in a sub-directory, log file read back', 'out/md.lammps', False), ('log file in the working directory under another name, log file read back', 'md.lammps', False)):
        hist, renames, why = scenario([], screen, restart=True, logfile=logfile, sessions=4)
        want = [['session %d' % j for j in range(k + 1)] for k in range(4)]
        ctx.ob('RESTART', loc, 'four successive sessions, %s: the Log returned by session k holds sessions 0..k in order (no earlier log is overwritten or left out)' % tag, hist == want, why or 'reads per session %s, renames %s' % (hist, renames),
               node=fn, key='history ' + tag)
    ctx.floor('RESTART', len(cases) + 4, 9)


def run(ctx):
    ctx.explanation = ('C19: library-API compatibility of every pandas call against the installed pandas; Log.read interpreted on synthesised logs (token lines, a file model with a read '
                       'position, read_csv counting non-blank lines as pandas does): records per run, printed names and rows, truncated final block, rewinds, timing tables, version/date, append '
                       'sequences; Log.flatten interpreted on model tables; lammps.run restart bookkeeping on a model file system. Not decided: that pandas parses each printed number to the same value.')
    ctx.run_rules([api, read_model, flatten_model, restart])
