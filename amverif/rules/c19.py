"""C19 LAMMPS log reader.

Decided statically:
 * API-COMPAT: every pandas/numpy call in Log.py exists with those keywords in the installed library, including the
   DataFrame method chain of the old-format timing block.
 * LINE-ACCOUNT: the line counter counts non-blank lines only (blank-skip precedes the increment; the increment is
   unconditional at the end of the loop body), header = start-trigger index + 1, footer = end-trigger index - 1,
   truncated final block closed at the last line, nrows = footer - header, every table read skips blank lines and
   starts from a rewound stream.
 * TRIGGERS: both memory banners, the loop-time trailer, banner slice lengths, the month table.
 * APPEND: append=False clears all three fields; performance rows are attached after the existing simulations.
 * FLATTEN: first / last / all merge rules on Step.
Declined: that parsed values equal printed values (pandas' tokenizer).
"""
import ast

import sympy as sp

from ..core import norm, calls_in, kwarg, cmp_canon, string_dispatch, assigns_to, precedes, walk_no_nested
from ..symx import SymEval, Path
from .. import apicompat

LOG = 'atomman/lammps/Log.py'


def api(ctx):
    mod = ctx.mod(LOG)
    issues, stats = apicompat.scan(mod)
    ctx.extra['api_stats'] = stats
    ctx.floor('API-COMPAT', stats['calls_resolved'], 3)
    ctx.floor('API-COMPAT/df-methods', stats['df_method_calls'], 5)
    loc = LOG + '::Log'
    if not issues:
        ctx.ob('API-COMPAT', loc, 'all %d resolved library calls (%d keywords) and %d DataFrame method calls exist in the installed pandas/numpy' % (
            stats['calls_resolved'], stats['kw_checked'], stats['df_method_calls']), True)
    for i in issues:
        ctx.ob('API-COMPAT', loc, i.what, False, norm(i.node)[:200], node=i.node, key=i.kind + ':' + i.what)


def _int_offset(expr, var='i'):
    """value of `expr - var` if expr is an integer-affine expression of var, else None"""
    ev = SymEval()
    i = sp.Symbol(var, integer=True)
    try:
        v = ev.ev(expr, Path({var: i}))
        d = sp.simplify(v - i)
        return int(d) if d.is_Integer else None
    except Exception:
        return None


def line_account(ctx):
    read = ctx.fn(LOG, 'Log.read')
    loc = LOG + '::Log.read'
    loops = [n for n in ast.walk(read) if isinstance(n, ast.For) and norm(n.iter) == 'log_info']
    ctx.need(len(loops) == 1, 'Log.read: the single pass `for line in log_info` was not found')
    loop = loops[0]
    # counter variable = the name incremented in the loop body at top level
    incs = [s for s in loop.body if isinstance(s, ast.AugAssign) and isinstance(s.op, ast.Add) and isinstance(s.value, ast.Constant) and s.value.value == 1]
    ctx.need(len(incs) == 1, 'Log.read: the line counter increment is no longer a single unconditional top-level statement of the loop')
    inc = incs[0]
    cnt = norm(inc.target)
    all_incs = [s for s in ast.walk(loop) if isinstance(s, (ast.AugAssign, ast.Assign)) and cnt in [norm(t) for t in (getattr(s, 'targets', None) or [s.target])]]
    ctx.ob('LINE-ACCOUNT', loc, 'the counter advances exactly once per iteration (single unconditional increment, last statement of the loop)',
           len(all_incs) == 1 and loop.body[-1] is inc, '%d stores to %s' % (len(all_incs), cnt), node=inc)
    conts = [s for s in ast.walk(loop) if isinstance(s, ast.Continue)]
    ok = len(conts) == 1
    blank_ok = False
    if ok:
        par = conts[0]._parent
        ok = isinstance(par, ast.If) and par in loop.body and precedes(par, inc)
        t = norm(par.test).replace(' ', '')
        blank_ok = t in ('len(line.split())==0', 'notline.split()', 'notline.strip()', "line.strip()==''", 'len(line.strip())==0')
    ctx.ob('LINE-ACCOUNT', loc, 'only blank lines skip the increment (one `continue`, guarded by the blank-line test, before the increment)',
           ok and blank_ok, norm(conts[0]._parent.test) if conts else 'no continue', node=conts[0] if conts else loop)
    # appends
    want = {'thermo_headers': +1, 'thermo_footers': -1, 'performance_footers': -1}
    found = {}
    for c in calls_in(loop):
        f = norm(c.func)
        if f.endswith('.append') and f[:-7] in want and c.args:
            found.setdefault(f[:-7], []).append(c)
    for lst, off in want.items():
        cs = found.get(lst, [])
        ctx.need(cs, 'Log.read: no %s.append(...) inside the loop' % lst)
        for c in cs:
            d = _int_offset(c.args[0], cnt)
            ctx.ob('LINE-ACCOUNT', loc, '%s records trigger line %+d' % (lst, off), d == off, 'records %s (offset %s)' % (norm(c.args[0]), d), node=c,
                   key='%s offset' % lst)
    # which trigger list guards which append
    def guard_of(c):
        n = c
        while n is not loop:
            n = n._parent
            if isinstance(n, ast.If) and any(c is x for x in ast.walk(ast.Module(n.body, []))):
                return norm(n.test)
        return ''
    ctx.ob('LINE-ACCOUNT', loc, 'header recorded under the start trigger, footer under the end trigger',
           'thermo_start_trigger' in guard_of(found['thermo_headers'][0]) and 'thermo_end_trigger' in guard_of(found['thermo_footers'][0]),
           node=found['thermo_headers'][0])
    # final footer for truncated logs: after the loop, offset 0
    after = [c for c in calls_in(read) if norm(c.func) == 'thermo_footers.append' and not any(c is x for x in ast.walk(loop))]
    ok = len(after) == 1 and _int_offset(after[0].args[0], cnt) == 0 and after[0].lineno > loop.end_lineno if hasattr(loop, 'end_lineno') else False
    ctx.ob('LINE-ACCOUNT', loc, 'a final footer at the last line closes a block cut short by a crash', bool(ok), node=after[0] if after else read)
    # zip(headers, footers) -> __read_thermo(log_info, header, footer)
    rt = [c for c in calls_in(read) if norm(c.func).endswith('__read_thermo')]
    ctx.need(len(rt) == 1, 'Log.read: call of __read_thermo not found')
    par = rt[0]
    while not isinstance(par, ast.For):
        par = par._parent
    ok = norm(par.iter).replace(' ', '') == 'zip(thermo_headers,thermo_footers)' and [norm(a) for a in rt[0].args] == ['log_info'] + [norm(e) for e in par.target.elts]
    ctx.ob('LINE-ACCOUNT', loc, 'blocks are read pairwise in order of appearance (zip(headers, footers))', ok, norm(par.iter), node=par)
    seeks = [c for c in calls_in(read) if norm(c.func) == 'log_info.seek']
    ctx.ob('LINE-ACCOUNT', loc, 'stream rewound after the scan and before the table reads',
           any(loop.lineno < s.lineno < par.lineno and norm(s.args[0]) == '0' for s in seeks), node=seeks[0] if seeks else read)
    # table reads
    n = 0
    for q in ('Log.__read_thermo', 'Log.__read_performance'):
        fn = ctx.fn(LOG, q)
        rc = [c for c in calls_in(fn) if norm(c.func) == 'pd.read_csv']
        ctx.need(rc, '%s: pd.read_csv not found' % q)
        for c in rc:
            n += 1
            hdr, nrows, sbl = kwarg(c, 'header'), kwarg(c, 'nrows'), kwarg(c, 'skip_blank_lines')
            ev = SymEval()
            h, f = sp.symbols('header footer', integer=True)
            try:
                okn = sp.simplify(ev.ev(nrows, Path({'header': h, 'footer': f})) - (f - h)) == 0 and sp.simplify(ev.ev(hdr, Path({'header': h, 'footer': f})) - h) == 0
            except Exception:
                okn = False
            # pandas' default for skip_blank_lines is True; an explicit False would re-count blank lines
            oks = sbl is None or (isinstance(sbl, ast.Constant) and sbl.value is True)
            ctx.ob('LINE-ACCOUNT', LOG + '::' + q, 'table read uses header=header, nrows=footer-header and skips blank lines (the counter ignores them)',
                   okn and oks, norm(c)[:200], node=c, key='read_csv#%d' % n)
        sk = [c for c in calls_in(fn) if norm(c.func) == 'log_info.seek' and norm(c.args[0]) == '0']
        ctx.ob('LINE-ACCOUNT', LOG + '::' + q, 'stream rewound after the table read', len(sk) >= 1 and all(s.lineno > c.lineno for s in sk[-1:] for c in rc), node=fn)
    ctx.floor('LINE-ACCOUNT/read_csv', n, 3)
    # thermo read is whitespace separated
    fn = ctx.fn(LOG, 'Log.__read_thermo')
    c = [c for c in calls_in(fn) if norm(c.func) == 'pd.read_csv'][0]
    sep = kwarg(c, 'sep') or kwarg(c, 'delimiter')
    ctx.ob('LINE-ACCOUNT', LOG + '::Log.__read_thermo', 'thermo table is split on runs of whitespace',
           isinstance(sep, ast.Constant) and sep.value in (r'\s+', r'\s*', r'[ \t]+', r'\s{1,}') or (kwarg(c, 'delim_whitespace') is not None), norm(sep), node=c)
    ctx.ob('LINE-ACCOUNT', LOG + '::Log.__read_thermo', 'each thermo block becomes one Simulation appended in order',
           any(norm(x.func).endswith('__simulations.append') and 'Simulation(thermo=thermo)' in norm(x) for x in calls_in(fn)), node=fn)


def triggers(ctx):
    read = ctx.fn(LOG, 'Log.read')
    loc = LOG + '::Log.read'
    vals = {}
    for s in ast.walk(read):
        if isinstance(s, ast.Assign) and isinstance(s.targets[0], ast.Name) and isinstance(s.value, ast.List) and all(isinstance(e, ast.Constant) for e in s.value.elts):
            vals[s.targets[0].id] = [e.value for e in s.value.elts]
    st = vals.get('thermo_start_trigger', [])
    ctx.ob('TRIGGERS', loc, 'both documented memory banners start a thermo block',
           any('Memory usage per processor' in x for x in st) and any('Per MPI rank memory allocation' in x for x in st), str(st), node=read)
    for x in st:
        ctx.ob('TRIGGERS', loc, 'start trigger is a prefix of a documented banner', 'Memory usage per processor ='.startswith(x) or 'Per MPI rank memory allocation (min/avg/max) ='.startswith(x),
               repr(x), node=read, key='start trigger %r' % x)
    ctx.ob('TRIGGERS', loc, 'the loop-time trailer ends a thermo block', vals.get('thermo_end_trigger') == ['Loop time of'] or
           (vals.get('thermo_end_trigger') and all('Loop time of'.startswith(x) and len(x) >= 9 for x in vals['thermo_end_trigger'])), str(vals.get('thermo_end_trigger')), node=read)
    # banner test: line[:N] == 'LAMMPS (' with N == len
    ok = False
    once = False
    for c in ast.walk(read):
        if isinstance(c, ast.Compare) and isinstance(c.left, ast.Subscript) and norm(c.left.value) == 'line' and isinstance(c.left.slice, ast.Slice) \
                and isinstance(c.comparators[0], ast.Constant) and isinstance(c.comparators[0].value, str) and c.comparators[0].value.startswith('LAMMPS'):
            up = c.left.slice.upper
            ok = c.left.slice.lower is None and isinstance(up, ast.Constant) and up.value == len(c.comparators[0].value) and c.comparators[0].value == 'LAMMPS ('
            par = c._parent
            once = isinstance(par, ast.BoolOp) and isinstance(par.op, ast.And) and any(norm(v) == 'self.lammps_version is None' for v in par.values)
        if isinstance(c, ast.Call) and norm(c.func) == 'line.startswith' and c.args and isinstance(c.args[0], ast.Constant) and c.args[0].value == 'LAMMPS (':
            ok = True
            par = c._parent
            once = isinstance(par, ast.BoolOp) and isinstance(par.op, ast.And) and any(norm(v) == 'self.lammps_version is None' for v in par.values)
    ctx.ob('TRIGGERS', loc, 'the version banner test compares exactly the length of "LAMMPS ("', ok, node=read)
    ctx.ob('TRIGGERS', loc, 'the version is read once (first banner wins)', once, node=read)
    rv = ctx.fn(LOG, 'Log.__read_lammps_version')
    locv = LOG + '::Log.__read_lammps_version'
    month = None
    for s in ast.walk(rv):
        if isinstance(s, ast.Assign) and isinstance(s.value, ast.Dict):
            try:
                month = {k.value: v.value for k, v in zip(s.value.keys, s.value.values)}
            except AttributeError:
                pass
    want = dict(zip(['Jan', 'Feb', 'Mar', 'Apr', 'May', 'Jun', 'Jul', 'Aug', 'Sep', 'Oct', 'Nov', 'Dec'], range(1, 13)))
    ctx.ob('TRIGGERS', locv, 'month table maps the twelve abbreviations to 1..12', month == want, str(month), node=rv)
    sl = [s for s in ast.walk(rv) if isinstance(s, ast.Subscript) and isinstance(s.slice, ast.Slice) and norm(s.value) == 'line.strip()']
    ok = len(sl) == 1 and isinstance(sl[0].slice.lower, ast.Constant) and sl[0].slice.lower.value == len('LAMMPS (') and norm(sl[0].slice.upper) == '-1'
    ctx.ob('TRIGGERS', locv, 'version string is the text between "LAMMPS (" and the closing parenthesis', ok, norm(sl[0]) if sl else '', node=rv)
    dt = [c for c in calls_in(rv) if norm(c.func) == 'datetime.date']
    ok = len(dt) == 1 and [norm(a).replace(' ', '') for a in dt[0].args] == ['int(d[2])', 'month[d[1]]', 'int(d[0])']
    ctx.ob('TRIGGERS', locv, 'date is (year=third token, month=second token via the table, day=first token)', ok, norm(dt[0]) if dt else '', node=rv)


def append_sem(ctx):
    read = ctx.fn(LOG, 'Log.read')
    loc = LOG + '::Log.read'
    resets = [s for s in read.body if isinstance(s, ast.If) and 'append' in norm(s.test)]
    ctx.need(resets, 'Log.read: the append=False reset block was not found')
    r = resets[0]
    t = norm(r.test).replace(' ', '')
    stored = {norm(x.targets[0]): norm(x.value) for x in r.body if isinstance(x, ast.Assign)}
    ok = t in ('appendisFalse', 'notappend', 'append==False') and stored.get('self.__simulations') == '[]' and stored.get('self.__lammps_version') == 'None' and stored.get('self.__lammps_date') == 'None'
    ctx.ob('APPEND', loc, 'append=False clears simulations, version and date; append=True keeps them', ok, str(stored), node=r)
    js = assigns_to(read, 'j')
    rt = [c for c in calls_in(read) if norm(c.func).endswith('__read_thermo')]
    ok = len(js) == 1 and norm(js[0].value) == 'len(self.simulations)' and rt and js[0].lineno < rt[0].lineno
    ctx.ob('APPEND', loc, 'the offset of existing simulations is taken before new runs are appended', bool(ok), node=js[0] if js else read)
    pa = [s for s in ast.walk(read) if isinstance(s, ast.Assign) and norm(s.targets[0]).endswith('.performance')]
    ok = len(pa) == 1 and norm(pa[0].targets[0]).replace(' ', '') in ('self.simulations[i+j].performance', 'self.simulations[j+i].performance')
    ctx.ob('APPEND', loc, 'timing tables are attached to the newly read simulations (index offset by the existing count)', ok, norm(pa[0].targets[0]) if pa else '', node=pa[0] if pa else read)
    init = ctx.fn(LOG, 'Log.__init__')
    ctx.ob('APPEND', LOG + '::Log.__init__', 'a new Log starts empty and reads the given content', any(norm(c.func) == 'self.read' for c in calls_in(init)), node=init)


def flatten(ctx):
    fn = ctx.fn(LOG, 'Log.flatten')
    loc = LOG + '::Log.flatten'
    arms = string_dispatch([s for s in ast.walk(fn) if isinstance(s, ast.If)], 'style')
    ctx.need(all(k in arms for k in ('first', 'last', 'all')), 'Log.flatten: style dispatch arms first/last/all not found')
    ctx.floor('FLATTEN', len([k for k in arms if k != '__else__']), 3)

    def concat_of(body):
        for s in body:
            if isinstance(s, ast.Assign) and isinstance(s.value, ast.Call) and norm(s.value.func) == 'pd.concat' and isinstance(s.value.args[0], ast.List):
                return s, s.value.args[0].elts, s.value
        return None, None, None
    merged = None
    # first
    s, parts, call = concat_of(arms['first'])
    ok = False
    det = ''
    if parts and len(parts) == 2:
        merged = norm(s.targets[0])
        p0, p1 = parts
        det = norm(call)
        if norm(p0) == merged and isinstance(p1, ast.Subscript):
            th = norm(p1.value)
            cc = cmp_canon(p1.slice)
            ok = cc == ('%s.Step' % th, '>', '%s.Step.max()' % merged) or cc == ("%s['Step']" % th, '>', "%s['Step'].max()" % merged)
    ctx.ob('FLATTEN', loc, "'first': earlier rows kept; a later run contributes only rows whose Step exceeds the running maximum", ok, det, node=s or fn)
    s, parts, call = concat_of(arms['last'])
    ok = False
    det = ''
    if parts and len(parts) == 2:
        m = norm(s.targets[0])
        p0, p1 = parts
        det = norm(call)
        if isinstance(p0, ast.Subscript) and norm(p0.value) == m:
            th = norm(p1)
            cc = cmp_canon(p0.slice)
            ok = cc == ('%s.Step.min()' % th, '>', '%s.Step' % m) or cc == ("%s['Step'].min()" % th, '>', "%s['Step']" % m)
    ctx.ob('FLATTEN', loc, "'last': a later run replaces earlier rows from its first Step on (earlier rows kept only below the new minimum)", ok, det, node=s or fn)
    s, parts, call = concat_of(arms['all'])
    ok = bool(parts) and len(parts) == 2 and norm(parts[0]) == norm(s.targets[0]) and isinstance(parts[1], ast.Name)
    ctx.ob('FLATTEN', loc, "'all': every row of every run is kept, in order", ok, norm(call) if call else '', node=s or fn)
    for k in ('first', 'last', 'all'):
        s, parts, call = concat_of(arms[k])
        ig = kwarg(call, 'ignore_index') if call else None
        ctx.ob('FLATTEN', loc, "'%s': merged rows are renumbered (ignore_index=True)" % k, isinstance(ig, ast.Constant) and ig.value is True, node=s or fn, key='ignore_index %s' % k)
    ctx.ob('FLATTEN', loc, 'unknown style is refused', '__else__' in arms and any(isinstance(x, ast.Raise) for x in arms['__else__']), node=fn)
    sims = assigns_to(fn, 'simulations')
    ctx.ob('FLATTEN', loc, 'runs are taken in order from simulations[firstindex:lastindex]', len(sims) == 1 and norm(sims[0].value) == 'self.simulations[firstindex:lastindex]', node=sims[0] if sims else fn)
    md = assigns_to(fn, 'merged_df')
    ctx.ob('FLATTEN', loc, 'merging starts from the first run and walks the remaining ones in order',
           md and norm(md[0].value) == 'simulations[0].thermo' and any(isinstance(x, ast.For) and norm(x.iter) == 'simulations[1:]' for x in ast.walk(fn)), node=md[0] if md else fn)
    asserts = [a for a in ast.walk(fn) if isinstance(a, ast.Assert) and "'Step' in" in norm(a.test)]
    ctx.ob('FLATTEN', loc, 'Step column presence is asserted before merging', len(asserts) == 1 and asserts[0].lineno < (md[0].lineno if md else 0), node=fn)


RUN = 'atomman/lammps/run.py'


def restart(ctx):
    """run(): which log files are read back, in which order, on a model file system"""
    from ..symx import PyStub, Opaque, WouldRaise, module_aliases
    from ..core import AnalysisError
    fn = ctx.fn(RUN, 'run')
    loc = RUN + '::run'

    def scenario(files, screen, restart=True, logfile='log.lammps'):
        fs = set(files)
        renames, reads = [], []

        class FP(PyStub):
            def __init__(self, name=''):
                self.name = str(name)

            def is_file(self):
                return self.name in fs

            @property
            def stem(self):
                return self.name.rsplit('.', 1)[0] if '.' in self.name else self.name

            @property
            def suffix(self):
                return '.' + self.name.rsplit('.', 1)[1] if '.' in self.name else ''

            def rename(self, new):
                new = str(new)
                renames.append((self.name, new))
                fs.discard(self.name)
                fs.add(new)

            def glob(self, pat):
                import fnmatch
                return [FP(f) for f in sorted(fs) if fnmatch.fnmatch(f, pat)]

            def as_posix(self):
                return self.name

            def __str__(self):
                return self.name

            def __eq__(self, o):
                return str(o) == self.name

            def __ne__(self, o):
                return str(o) != self.name

            def __hash__(self):
                return hash(self.name)

            def __format__(self, spec):
                return self.name

        class Out(PyStub):
            stdout = 'STDOUT-OF-THIS-RUN'

        class Sub(PyStub):
            CalledProcessError = 'CalledProcessError'

            def run(self, command, **kw):
                fs.add(logfile)          # LAMMPS writes the new log file
                return Out()

        class Shlex(PyStub):
            def split(self, c):
                return str(c).split()

        class LogStub(PyStub):
            def read(self, what, **kw):
                reads.append(str(what))
        ev = SymEval(module_aliases(ctx.mod(RUN)))
        ev.globals = {'Path': FP, 'subprocess': Sub(), 'shlex': Shlex(), 'Log': LogStub, 'LammpsError': 'LammpsError', 'int': int, 'str': str}
        kw = dict(script_name='in.lmp', logfile=logfile, screen=screen)
        if restart:
            kw['restart_script_name'] = 'restart.lmp'
        try:
            paths = ev.run_fn(fn, ['lmp'], kw)
        except WouldRaise as e:
            return None, renames, 'raises: %s' % e
        except Opaque as e:
            raise AnalysisError('run() on the model file system: %s' % e)
        if len([q for q in paths if q.done == 'return']) != 1:
            return None, renames, 'no single returning path'
        return reads, renames, ''
    cases = [('first restart (one earlier attempt)', ['log.lammps'], True, True, [('log.lammps', 'log-1.lammps')], ['log-1.lammps', 'STDOUT-OF-THIS-RUN']),
             ('third restart, log file read back', ['log.lammps', 'log-1.lammps', 'log-2.lammps'], False, True, [('log.lammps', 'log-3.lammps')], ['log-1.lammps', 'log-2.lammps', 'log-3.lammps', 'log.lammps']),
             ('eleventh restart (numbering, not name order)', ['log.lammps'] + ['log-%d.lammps' % i for i in range(1, 11)], True, True, [('log.lammps', 'log-11.lammps')],
              ['log-%d.lammps' % i for i in range(1, 12)] + ['STDOUT-OF-THIS-RUN']),
             ('restart script given but nothing ran before', [], True, True, [], ['STDOUT-OF-THIS-RUN']),
             ('no restart script', ['log.lammps'], False, False, [], ['log.lammps'])]
    for tag, files, screen, rs, want_ren, want_reads in cases:
        reads, renames, why = scenario(files, screen, restart=rs)
        ctx.ob('RESTART', loc, '%s: the previous log is renamed to the next free number and the returned Log reads every earlier attempt in order, then the current run' % tag,
               reads == want_reads and renames == want_ren, why or 'renames %s, reads %s' % (renames, reads), node=fn, key='restart ' + tag)
    ctx.floor('RESTART', len(cases), 5)


def run(ctx):
    ctx.explanation = ('C19: structural obligations on the log reader: library-API compatibility of every pandas call against the installed pandas; '
                       'integer-affine accounting of header/footer line numbers over non-blank lines; trigger strings and banner slices; append semantics; '
                       'the three flatten merge rules. Not decided: that pandas parses each printed number to the same value.')
    ctx.run_rules([api, line_account, triggers, append_sem, flatten, restart])
