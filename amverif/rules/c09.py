"""C09 Unit conversion.

Decided statically:
 * WORKING-UNITS: reset_units is evaluated over the exact algebra of numericalunits' base units (every named unit
   is a monomial of nu.m, nu.kg, nu.s, nu.C; build_unit() snapshots them) for every non-over-determined choice of
   named working units (the 29 subsets of up to four of {length, mass, time, energy, charge} that do not fix energy twice); after the call each chosen unit has
   the value exactly one.
 * STYLE-DIM / STYLE-SI: every mechanical entry of lammps.style.unit has the dimension of its key, and (where LAMMPS
   documents the unit) its SI magnitude; every unit name is known; key exhaustiveness across the non-lj styles.
 * INVERSE-PAIR: get_in_units o set_in_units is the identity for the same parsed factor; parse(None)=parse('scaled')=1.
 * PRECEDENCE: the reduction part of parse(), extracted and evaluated on every operator pattern up to four operators
   over symbolic operands, equals ordinary precedence (powers first, then * and / left to right); the tokenizer's
   parenthesis arm recurses on the enclosed substring; separator and operator character classes.
 * MODEL-KEYS: uc.model writes exactly the keys value_unit/error_unit read (value, unit, shape, error).
Declined: floating-point round-trip identity; values of units under random working-unit seeds.
"""
import ast
import itertools

import sympy as sp

from ..core import norm, calls_in, kwarg, string_dispatch, AnalysisError
_MOD = [None]


def _ev(*a, **k):
    ev = SymEval(*a, **k)
    ev.module = _MOD[0]
    return ev


from ..symx import SymEval, Path, SymObj, PyStub, Opaque, WouldRaise, is_zero, module_aliases
from .. import dims
from ..dims import F

UC = 'atomman/unitconvert.py'
ST = 'atomman/lammps/style.py'


# ------------------------------------------------------------------ reset_units

def working_units(ctx):
    fn = ctx.fn(UC, 'reset_units')
    loc = UC + '::reset_units'
    quantities = ['length', 'mass', 'time', 'energy', 'charge']
    n = 0
    for r in range(1, 5):
        for chosen in itertools.combinations(quantities, r):
            if {'length', 'mass', 'time', 'energy'} <= set(chosen):
                continue   # over-determined: energy is fixed by length, mass and time (outside the property's quantifier)
            n += 1
            uL, uM, uT, uE, uQ = sp.symbols('uL uM uT uE uQ', positive=True)
            mag = {'length': uL, 'mass': uM, 'time': uT, 'energy': uE, 'charge': uQ}
            state = {'m': sp.Integer(1), 'kg': sp.Integer(1), 's': sp.Integer(1), 'C': sp.Integer(1)}
            unit = {}
            nu = SymObj(None, state, 'nu')

            def monomial(q):
                a = nu.attrs
                return {'length': a['m'], 'mass': a['kg'], 'time': a['s'], 'charge': a['C'], 'energy': a['kg'] * a['m'] ** 2 / a['s'] ** 2}[q]

            def build_unit():
                a = nu.attrs
                unit.clear()
                unit.update({'m': a['m'], 'kg': a['kg'], 's': a['s'], 'C': a['C'], 'J': a['kg'] * a['m'] ** 2 / a['s'] ** 2})
                for q in quantities:
                    unit['<%s>' % q] = mag[q] * monomial(q)

            def reset(seed=None):
                for k in ('m', 'kg', 's', 'C'):
                    nu.attrs[k] = sp.Integer(1)
            nu.attrs['reset_units'] = reset
            nu.attrs['set_derived_units_and_constants'] = lambda: None
            ev = _ev({'nu': 'numericalunits'})
            env = {'seed': None, 'kwargs': {q: '<%s>' % q for q in chosen}, 'nu': nu, 'unit': unit, 'build_unit': build_unit}
            try:
                paths = ev.run_fn(fn, env=env)
            except WouldRaise as e:
                ctx.ob('WORKING-UNITS', loc, 'reset_units(%s) completes' % ', '.join('%s=…' % q for q in chosen), False, str(e), node=fn, key='subset ' + '+'.join(chosen))
                continue
            except Opaque as e:
                raise AnalysisError('reset_units left the vocabulary for %s: %s' % (chosen, e))
            live = [p for p in paths if p.done == 'return']
            ctx.need(len(live) == 1, 'reset_units(%s): %d live paths' % (', '.join(chosen), len(live)))
            bad = []
            for q in chosen:
                v = sp.simplify(unit.get('<%s>' % q, sp.nan))
                if v != 1:
                    bad.append('%s unit = %s' % (q, v))
            ctx.ob('WORKING-UNITS', loc, 'after reset_units(%s) each chosen unit has the value one' % ', '.join('%s=…' % q for q in chosen), not bad,
                   '; '.join(bad), node=fn, key='subset ' + '+'.join(chosen))
    ctx.floor('WORKING-UNITS', n, 29)
    # over-determined and seed conflicts are refused
    ev = _ev({'nu': 'numericalunits'})
    env = {'seed': None, 'kwargs': {q: q for q in quantities}, 'nu': SymObj(None, {'reset_units': lambda *a: None, 'set_derived_units_and_constants': lambda: None}, 'nu'),
           'unit': {}, 'build_unit': lambda: None}
    try:
        paths = ev.run_fn(fn, env=env)
        ok = all(p.done == 'raise' for p in paths)
    except Opaque:
        ok = True   # fell over on the unit lookups: only reachable if the refusal is gone
        ok = False
    ctx.ob('WORKING-UNITS', loc, 'five named working units (over-determined) are refused', ok, node=fn)
    env = {'seed': 3, 'kwargs': {'length': 'x'}, 'nu': env['nu'], 'unit': {}, 'build_unit': lambda: None}
    paths = _ev({'nu': 'numericalunits'}).run_fn(fn, env=env)
    ctx.ob('WORKING-UNITS', loc, 'a seed together with named working units is refused', all(p.done == 'raise' for p in paths), node=fn)


# ------------------------------------------------------------------ style tables

def style_tables(ctx):
    fn = ctx.fn(ST, 'unit')
    loc = ST + '::unit'
    # the tables as the function builds them: unit(style) interpreted for every LAMMPS style (string building is concrete)
    styles = ['lj', 'real', 'metal', 'si', 'cgs', 'electron', 'micro', 'nano']
    try:
        arms = string_dispatch(fn.body, 'units')
        styles = styles + [k for k in arms if k != '__else__' and k not in styles]
    except Exception:
        pass
    ctx.floor('STYLE-DIM/styles', len(styles), 8)
    tables = {}
    for st in styles:
        ev = SymEval(module_aliases(ctx.mod(ST)))
        ev.globals = {'OrderedDict': dict}
        try:
            live = [q for q in ev.run_fn(fn, [st], {}) if q.done == 'return']
        except WouldRaise as e:
            live = []
        except Opaque as e:
            raise AnalysisError('style.unit(%r): %s' % (st, e))
        if len(live) != 1 or not isinstance(live[0].ret, dict):
            ctx.ob('STYLE-DIM', loc, 'style %s is defined' % st, False, node=fn, key='%s defined' % st)
            tables[st] = {}
            continue
        tab = {}
        for k, v in live[0].ret.items():
            if not (v is None or isinstance(v, str)):
                raise AnalysisError('style.unit(%r): entry %r is not text: %r' % (st, k, v))
            tab[k] = (v, fn)
        tables[st] = tab
    try:
        bad_style = [q for q in SymEval(module_aliases(ctx.mod(ST))).run_fn(fn, ['furlongs'], {}) if q.done == 'return']
    except WouldRaise:
        bad_style = []
    ctx.ob('STYLE-DIM', loc, 'an unknown unit style is refused', not bad_style, node=fn, key='unknown style')
    nent = 0
    for st in styles:
        if st == 'lj':
            ctx.ob('STYLE-DIM', loc, 'lj (reduced units) entries carry no unit', all(v[0] is None or 'None' in v[0] for v in tables[st].values()) and all(tables[st][k][0] is None for k in tables[st] if k in ('mass', 'length', 'time', 'energy')), node=fn, key='lj none')
            continue
        tab = dict(tables[st])
        for k, (v, node) in tab.items():
            if k not in dims.DIM:
                ctx.ob('STYLE-DIM', loc, 'key %r of style %s names a known physical quantity' % (k, st), False, node=node, key='%s/%s known' % (st, k))
                continue
            if k not in dims.MECHANICAL:
                # electrical entries are exempt from the dimension clause (property statement), but must parse
                try:
                    dims.dim_of(v)
                    ok, det = True, ''
                except dims.UnknownUnit as e:
                    ok, det = False, 'unknown unit name %s' % e
                except Exception as e:
                    ok, det = False, 'unparsable: %s' % e
                ctx.ob('STYLE-PARSE', loc, '%s/%s = %r is a well-formed unit expression over known names' % (st, k, v), ok, det, node=node, key='%s/%s parse' % (st, k))
                continue
            nent += 1
            try:
                d, magn = dims.dim_of(v)
            except dims.UnknownUnit as e:
                ctx.ob('STYLE-DIM', loc, '%s/%s = %r uses known unit names' % (st, k, v), False, 'unknown unit name %s' % e, node=node, key='%s/%s dim' % (st, k))
                continue
            except Exception as e:
                ctx.ob('STYLE-DIM', loc, '%s/%s = %r is a well-formed unit expression' % (st, k, v), False, str(e)[:100], node=node, key='%s/%s dim' % (st, k))
                continue
            want = tuple(map(F, dims.DIM[k]))
            ctx.ob('STYLE-DIM', loc, '%s/%s = %r has the dimension of %s' % (st, k, v, k), tuple(d) == want,
                   'dimension (L,M,T,Q,Θ) = %s, expected %s' % (tuple(map(str, d)), tuple(map(str, want))), node=node, key='%s/%s dim' % (st, k))
            ref = dims.LAMMPS_SI.get(st, {}).get(k)
            if ref is not None and tuple(d) == want:
                ctx.ob('STYLE-SI', loc, '%s/%s = %r is the unit LAMMPS documents (SI magnitude %.6g)' % (st, k, v, ref), abs(magn / ref - 1) < 1e-6,
                       'evaluates to %.9g SI' % magn, node=node, key='%s/%s si' % (st, k))
    ctx.floor('STYLE-DIM', nent, 84)


# ------------------------------------------------------------------ inverse pair, parse

def inverse_pair(ctx):
    mod = ctx.mod(UC)
    setf, getf = ctx.fn(UC, 'set_in_units'), ctx.fn(UC, 'get_in_units')
    P, v = sp.Symbol('P', positive=True), sp.Symbol('v')
    ev = _ev({'np': 'numpy'}, funcs={'parse': None})
    ev.funcs.pop('parse')

    def run(fn, val):
        e = _ev({'np': 'numpy'})
        env = e.bind(fn, [val, 'U'], {})
        env['parse'] = lambda u: P
        paths = e.run_fn(fn, env=env)
        live = [p for p in paths if p.done == 'return']
        ctx.need(len(live) == 1, '%s does not reduce to one path' % fn.name)
        return live[0].ret
    s = run(setf, v)
    g = run(getf, s)
    ctx.ob('INVERSE-PAIR', UC + '::get_in_units', 'get_in_units(set_in_units(v, u), u) = v for the same parsed factor', is_zero(g - v), 'composition = %s' % g, node=getf)
    ctx.ob('INVERSE-PAIR', UC + '::set_in_units', 'set_in_units multiplies by the parsed factor', is_zero(s - v * P), 'set = %s' % s, node=setf)
    # the pair is an inverse pair only if converting leaves the caller's array as it was: get(set(x)) is compared with x itself
    from .. import effects
    for fn_ in (setf, getf, ctx.fn(UC, 'value_unit')):
        pname = fn_.args.args[0].arg
        muts, _eff = effects.param_mutations(fn_, {pname})
        ctx.ob('INVERSE-PAIR', UC + '::' + fn_.name, 'the conversion does not write to the value it is given (np.asarray of a float array is the caller\'s array)', not muts,
               '; '.join('%s (line %d)' % (w, n_.lineno) for n_, r_, w in muts), node=muts[0][0] if muts else fn_, key='no-mutate ' + fn_.name)
    parse = ctx.fn(UC, 'parse')
    for arg in (None, 'scaled'):
        e = _ev({'np': 'numpy'})
        try:
            paths = e.run_fn(parse, [arg], {})
            live = [p for p in paths if p.done == 'return']
            ok = len(live) == 1 and live[0].ret == 1
        except Opaque:
            ok = False   # the argument is no longer answered by the neutral-factor test: it reaches the tokenizer
        ctx.ob('INVERSE-PAIR', UC + '::parse', 'parse(%r) is the neutral factor 1' % (arg,), ok, node=parse, key='parse neutral %r' % (arg,))
    # a number passes through unchanged
    e = _ev({'np': 'numpy'})
    x = sp.Symbol('x')
    env = {'units': x, 'isinstance': lambda a, b: False}
    try:
        paths = e.run_fn(parse, env=env)
        live = [p for p in paths if p.done == 'return']
        ok = len(live) == 1 and live[0].ret == x
    except Opaque:
        ok = False
    ctx.ob('INVERSE-PAIR', UC + '::parse', 'a numeric argument is returned unchanged', ok, node=parse)


def _ref_parse(text, names):
    """reference reading of a unit expression: ^ binds tighter than * and / (left to right among themselves), * and / left to right, parentheses group"""
    pos = [0]

    def ws():
        while pos[0] < len(text) and text[pos[0]] in ' \n\r\t':
            pos[0] += 1

    def atom():
        ws()
        if pos[0] >= len(text):
            raise ValueError('operand expected')
        ch = text[pos[0]]
        if ch == '(':
            pos[0] += 1
            v = expr(True)
            ws()
            if pos[0] >= len(text) or text[pos[0]] != ')':
                raise ValueError('unclosed (')
            pos[0] += 1
            return v
        j = pos[0]
        while j < len(text) and text[j] not in ' */^\n\r\t()':
            j += 1
        tok = text[pos[0]:j]
        if not tok:
            raise ValueError('operand expected at %d' % pos[0])
        pos[0] = j
        if tok[0].isalpha():
            return names[tok]
        return sp.nsimplify(sp.Float(tok)) if any(c in tok for c in '.eE') else sp.Integer(int(tok))

    def power():
        v = atom()
        ws()
        while pos[0] < len(text) and text[pos[0]] == '^':
            pos[0] += 1
            v = v ** atom()
            ws()
        return v

    def expr(inner=False):
        v = power()
        ws()
        while pos[0] < len(text) and text[pos[0]] in '*/':
            o = text[pos[0]]
            pos[0] += 1
            w = power()
            v = v * w if o == '*' else v / w
            ws()
        if pos[0] < len(text) and not (inner and text[pos[0]] == ')'):
            raise ValueError('unexpected %r' % text[pos[0]])
        return v
    return expr()


def precedence(ctx):
    """parse() interpreted whole on unit-expression strings over symbolic unit values, against an independent reading of the grammar"""
    parse = ctx.fn(UC, 'parse')
    loc = UC + '::parse'
    # (unit names are the attribute names of numericalunits: any Python identifier, so underscores and the middle dot of 'Hz·2π' belong to a name)
    names = {n: sp.Symbol('U_' + n.replace('·', '_dot_'), positive=True) for n in ('m', 'kg', 's', 'eV', 'angstrom', 'GPa', 'mol', 'K', 'astro_unit', 'horsepower_metric', 'Hz·2π')}

    def run(text):
        ev = SymEval(module_aliases(ctx.mod(UC)))
        ev.globals = {'unit': dict(names)}
        try:
            live = [q for q in ev.run_fn(parse, [text], {}) if q.done == 'return']
        except WouldRaise:
            return 'raise'
        except Opaque as e:
            raise AnalysisError('parse(%r): %s' % (text, e))
        return live[0].ret if len(live) == 1 else 'raise'
    ops = ['*', '/', '^']
    pool = ['m', 'kg', 's', 'eV', 'angstrom']
    bad, npat = [], 0
    for n in range(0, 5):
        for pat in itertools.product(ops, repeat=n):
            toks = [pool[0]]
            for k, o in enumerate(pat):
                toks += [o, ('2' if o == '^' else pool[(k + 1) % len(pool)])]
            text = ''.join(toks)
            npat += 1
            got, want = run(text), _ref_parse(text, names)
            if got == 'raise' or not is_zero(sp.simplify(got - want)):
                bad.append('%s -> %s, expected %s' % (text, got, want))
    ctx.floor('PRECEDENCE/patterns', npat, 121)
    ctx.ob('PRECEDENCE', loc, 'an expression without parentheses follows ordinary precedence (^ first, then * and / left to right) on all %d operator patterns up to 4 operators' % npat, not bad, '; '.join(bad[:3]), node=parse)
    cases = ['(m)', '((m))', 'eV/(angstrom*s)', 'kg*m/s^2', '(kg*m)/(s^2)', 'kg*(m/s)^2', 'eV/(angstrom*(s/(mol*K)))^2', '(m/s)/(kg/(mol*s))*K', ' kg * m\t/ s ^ 2 ', 'm^-2', '1/s', '1e-10*m', '0.5*(eV/angstrom^3)', 'GPa/(1.5*K)',
             '((m*s)^2)^3', '(m)*(s)', 'm^(2)', '2.5', 'angstrom^3/mol*(K*(s))',
             'm^0.5', 'GPa*m^0.5', 'm^-0.5', 'eV/angstrom^1.5', 'm^(1/2)', 'kg^(3/2)*s^-1.5',
             'astro_unit', 'astro_unit/s', 'kg*astro_unit^2', 'horsepower_metric*s', 'Hz·2π', '(Hz·2π)^2*kg', '1/Hz·2π']    # fracture toughness and the like: exponents are numbers, not only whole numbers
    badc = []
    for text in cases:
        got, want = run(text), _ref_parse(text, names)
        if got == 'raise' or not is_zero(sp.simplify(sp.sympify(got) - want)):
            badc.append('%r -> %s, expected %s' % (text, got, want))
    ctx.ob('PRECEDENCE', loc, 'parenthesised groups (nested to any depth) are reduced first and enter as one operand; white space is ignored; numbers (signed, decimal, exponent) are factors (%d expressions)' % len(cases), not badc,
           '; '.join(badc[:3]), node=parse, key='groups')
    ctx.floor('PRECEDENCE/groups', len(cases), 32)
    refused = ['(m', 'm)', '(m*(s)', 'm*s)', 'm s', 'm$', '(m)(s)', 'm*/s']
    acc = [t for t in refused if run(t) != 'raise']
    ctx.ob('PRECEDENCE', loc, 'malformed expressions are refused, not mis-evaluated: unmatched parenthesis either way, adjacent operands, unknown character, doubled operator', not acc, 'accepted: %s' % acc, node=parse, key='refusals')
    ok = run(None) == 1 and run('scaled') == 1 and run(sp.Rational(7, 2)) == sp.Rational(7, 2)
    ctx.ob('PRECEDENCE', loc, 'None and "scaled" mean no scaling; a number is passed through', bool(ok), node=parse, key='passthrough')


def model_keys(ctx):
    """model() / value_unit() / error_unit() as a writer-reader pair, interpreted on symbolic values of rank 0-3 with and without a unit (shared with the data-model property):
    keys written, numbers divided by the unit in row-major order, shape recorded, and the readers undo it"""
    from .c10 import uc_model
    uc_model(ctx, rule='MODEL-KEYS')


def _always(stmts, pred):
    """every syntactic path through stmts executes a statement satisfying pred (loops count as possibly skipped)"""
    for st in stmts:
        if pred(st):
            return True
        if isinstance(st, ast.If) and _always(st.body, pred) and _always(st.orelse, pred):
            return True
        if isinstance(st, ast.Try) and (_always(st.body, pred) or _always(st.finalbody, pred)):
            return True
        if isinstance(st, ast.With) and _always(st.body, pred):
            return True
        if isinstance(st, ast.Raise):
            return True     # a refusing path changes nothing
        if isinstance(st, ast.Return):
            return False
    return False


def derived_state(ctx):
    """conversion factors depend on the working units: any module-level container the conversion functions fill (a memo of parsed
    factors, a derived table) must be cleared or rebuilt on every path of reset_units, else a factor computed under the old units survives"""
    mod = ctx.mod(UC)
    loc = UC + '::reset_units'
    reset = ctx.fn(UC, 'reset_units')
    conts = {}
    for st in mod.body:
        if isinstance(st, ast.Assign) and len(st.targets) == 1 and isinstance(st.targets[0], ast.Name) and (
                isinstance(st.value, (ast.Dict, ast.List, ast.Set)) or (isinstance(st.value, ast.Call) and norm(st.value.func) in ('dict', 'list', 'set', 'OrderedDict', 'DM'))):
            conts[st.targets[0].id] = st
    # tables created inside a function through `global NAME; NAME = {...}` (the unit table itself)
    for f in [x for x in mod.body if isinstance(x, ast.FunctionDef)]:
        gl = {g for st in ast.walk(f) if isinstance(st, ast.Global) for g in st.names}
        for st in ast.walk(f):
            if isinstance(st, ast.Assign) and len(st.targets) == 1 and isinstance(st.targets[0], ast.Name) and st.targets[0].id in gl and isinstance(st.value, (ast.Dict, ast.List, ast.Call)):
                conts.setdefault(st.targets[0].id, st)
    writers = {}
    for f in [x for x in mod.body if isinstance(x, ast.FunctionDef) and x.name not in ('reset_units',)]:
        for x in ast.walk(f):
            tgt = None
            if isinstance(x, (ast.Assign, ast.AugAssign)):
                for t in (x.targets if isinstance(x, ast.Assign) else [x.target]):
                    if isinstance(t, ast.Subscript) and isinstance(t.value, ast.Name):
                        tgt = t.value.id
            elif isinstance(x, ast.Call) and isinstance(x.func, ast.Attribute) and isinstance(x.func.value, ast.Name) and x.func.attr in ('append', 'update', 'setdefault', 'add', 'extend', 'insert'):
                tgt = x.func.value.id
            if tgt in conts:
                writers.setdefault(tgt, set()).add(f.name)
    # functions called (by name) on every path of reset_units that rebuild a container count as a reset of it
    rebuilders = {}
    for f in [x for x in mod.body if isinstance(x, ast.FunctionDef)]:
        for name in conts:
            if name in writers and f.name in writers[name]:
                rebuilders.setdefault(f.name, set()).add(name)
    n = 0
    for name, fs in sorted(writers.items()):
        n += 1

        def is_reset(st, name=name):
            for x in ast.walk(st) if isinstance(st, (ast.Expr, ast.Assign)) else []:
                if isinstance(x, ast.Call) and norm(x.func) == name + '.clear':
                    return True
                if isinstance(x, ast.Call) and isinstance(x.func, ast.Name) and name in rebuilders.get(x.func.id, ()):
                    return True
            if isinstance(st, ast.Assign) and any(isinstance(t, ast.Name) and t.id == name for t in st.targets):
                return any(isinstance(g, ast.Global) and name in g.names for g in ast.walk(reset))
            return False
        ok = _always(reset.body, is_reset)
        ctx.ob('DERIVED-STATE', loc, 'module-level table `%s` (filled by %s) is cleared or rebuilt on every path through reset_units' % (name, ', '.join(sorted(fs))), ok,
               'some path changes the working units and keeps entries computed under the old ones', node=conts[name], key='reset ' + name)
    ctx.floor('DERIVED-STATE', n, 1)


def set_literal_rule(ctx):
    """set_literal('value unit'): the value part is any Python literal (number, list, tuple, nested list), the unit part what follows the last blank that leaves a literal to
    its left; evaluated on concrete terms with a recording set_in_units"""
    import ast as _ast
    from ..symx import ModelError
    fn = ctx.fn(UC, 'set_literal')
    loc = UC + '::set_literal'

    class _Ast(PyStub):
        def literal_eval(self, text):
            if not isinstance(text, str):
                raise Opaque('literal_eval of a non-text value')
            try:
                return _ast.literal_eval(text)
            except Exception as e:
                raise ModelError(type(e).__name__ if type(e).__name__ in ('ValueError', 'SyntaxError', 'TypeError') else 'ValueError', str(e))

    def to_float(x=0):
        if isinstance(x, str):
            try:
                return sp.nsimplify(float(x))
            except ValueError as e:
                raise ModelError('ValueError', str(e))
        if isinstance(x, (list, tuple)):
            raise ModelError('TypeError', 'float() argument must be a string or a real number')
        return x
    cases = [('1.124 nm', 1.124, 'nm'), ('[1.0, 2.5, -4.0] nm', [1.0, 2.5, -4.0], 'nm'), ('(3, 4) eV/angstrom^3', (3, 4), 'eV/angstrom^3'), ('-3 kg * m / s^2', -3, 'kg * m / s^2'), ('7', 7, None),
             ('[[1, 2], [3, 4]] GPa', [[1, 2], [3, 4]], 'GPa'), ('1e5 1e-12*C', 1e5, '1e-12*C')]
    n = 0
    for term, wantv, wantu in cases:
        got = []
        ev = SymEval(module_aliases(ctx.mod(UC)))
        ev.globals = {'ast': _Ast(), 'set_in_units': lambda value, units: (got.append((value, units)), ('SET', len(got)))[1], 'float': to_float}
        try:
            live = [q for q in ev.run_fn(fn, [term], {}) if q.done == 'return']
            st_ = 'accepted' if len(live) == 1 else 'refused'
        except WouldRaise:
            st_ = 'refused'
        except Opaque as e:
            raise AnalysisError('set_literal(%r): %s' % (term, e))

        def same(a, b):
            if isinstance(b, (list, tuple)):
                return isinstance(a, (list, tuple)) and len(a) == len(b) and all(same(x, y) for x, y in zip(a, b))
            try:
                return abs(float(a) - float(b)) < 1e-12
            except (TypeError, ValueError):
                return False
        n += 1
        ok = st_ == 'accepted' and len(got) >= 1 and same(got[-1][0], wantv) and got[-1][1] == wantu and (not isinstance(wantv, (list, tuple)) or type(got[-1][0]) is type(wantv))
        ctx.ob('INVERSE-PAIR', loc, 'set_literal(%r): the value %r is converted from %s' % (term, wantv, wantu or 'no unit'), bool(ok), 'the call is %s; converted %s' % (st_, got[-1:] or None), node=fn, key='literal ' + term)
    ev = SymEval(module_aliases(ctx.mod(UC)))
    ev.globals = {'ast': _Ast(), 'set_in_units': lambda value, units: ('SET',), 'float': to_float}
    try:
        live = [q for q in ev.run_fn(fn, ['nm'], {}) if q.done == 'return']
        refused = not live
    except WouldRaise:
        refused = True
    ctx.ob('INVERSE-PAIR', loc, "set_literal('nm') (no value) is refused", refused, node=fn, key='literal refuse')
    ctx.floor('INVERSE-PAIR/literal', n, 7)


def run(ctx):
    _MOD[0] = ctx.mod(UC)
    ctx.explanation = ('C09: reset_units is evaluated over the monomial algebra of the four base units for all 29 admissible named choices and each chosen unit must come out as 1; '
                       'the LAMMPS style table strings are parsed by an independent grammar and typed by dimension and SI magnitude; set/get are inverse for the same factor; '
                       'the reduction half of parse() is extracted and compared with ordinary precedence on all operator patterns up to four operators; tokenizer structure; model keys. '
                       'Not decided: floating-point round-trip identity, random working-unit seeds.')
    from .. import lints
    ctx.run_rules([working_units, style_tables, inverse_pair, precedence, model_keys, derived_state, set_literal_rule,
                   lambda c: lints.fresh_results(c, 'DERIVED-STATE', UC, floor=9, what='a value computed from the working units in force (a memoised parse() would outlive reset_units)'),
                   # "all scalar/array values": plain numbers, lists and tuples are admitted by the array-like annotation of every conversion function
                   lambda c: lints.arraylike(c, 'ARRAY-LIKE', UC, floor=4, extra_converters=('get_in_units', 'set_in_units'))])
