"""C12 Volterra dislocation fields.

Decided statically (the solver classes are evaluated on symbolic inputs; derivatives are taken by the computer-algebra system):
 * ISOTROPIC: for three choices of the (m, n, xi) frame (identity, cyclic, and a non-symmetric permutation) the Cartesian strain
   returned by strain() is the symmetric gradient of displacement(), stress() is lambda tr(e) I + 2 mu e, the stress is
   divergence-free, every strain/stress component is homogeneous of degree -1, the coefficient of the polar angle in the
   displacement is b/2pi (jump = Burgers vector), K_tensor = diag(mu/(1-nu), mu/(1-nu), mu) in that frame, nu from (K, mu),
   and theta() realises atan2 with the cut on the negative m axis on eight sample directions.
 * STROH: with generic symbolic eigen-data (p, A, L, k), strain() is the symmetric gradient of displacement(), stress() is
   C : grad u, eta = pos.m + p pos.n, K_tensor = i sum(+-k L L), the same alternating sign vector in all four sums; the sextic
   matrix N has the blocks (-T^-1 R^T, -T^-1, Q - R T^-1 R^T, -R T^-1) with Q,R,T = (mm),(mn),(nn) contractions; A/L split and
   normalisation k = 1/(2 A.L); the four orthogonality checks guard the stored solution (failure -> ValueError).
 * FRAME: solve() rotates the Burgers vector and the elastic constants with the same matrix, xi = m x n, the four ways of
   giving the orientation resolve as documented, the Miller route builds rows (n x xi, n, xi) re-expressed in the (m, n, m x n)
   frame and agrees with dislocation_system_transform; m and n must both be unit and mutually perpendicular; the Burgers
   round-off is relative to the largest component.
 * DISPATCH: the isotropic solver is tried only after the anisotropic one raises ValueError, with identical arguments.
Declined: accuracy of the numerical eigen-solution, positive-definiteness of K, the isotropic limit of the anisotropic solution.
"""
import ast
import itertools

import numpy as np
import sympy as sp

from ..core import norm, calls_in, AnalysisError
from .. import dtypeflow, lints
from ..symx import SymEval, SymObj, PyStub, Path, Opaque, WouldRaise, ModelError, module_aliases, symarray, is_zero, equal, arr, is_arr

ISO = 'atomman/defect/IsotropicVolterraDislocation.py'
STR = 'atomman/defect/Stroh.py'
VD = 'atomman/defect/VolterraDislocation.py'
SV = 'atomman/defect/solve_volterra_dislocation.py'
DST = 'atomman/defect/dislocation_system_transform.py'

X = sp.symbols('X1 X2 X3', real=True)


def _is_cleanup(s):
    if isinstance(s, ast.Assign) and len(s.targets) == 1 and isinstance(s.targets[0], ast.Subscript) and isinstance(s.value, ast.Constant) and s.value.value == 0.0:
        return 'isclose' in norm(s.targets[0].slice)
    return False


def mask_on(ctx, stmt, test, extra_env, rule, loc, what, expect):
    """evaluate the boolean mask of a clean-up statement `X[mask] = 0.0` on concrete test entries"""
    tgt = stmt.targets[0]
    name = norm(tgt.value)
    ev = SymEval({'np': 'numpy'})
    ev.np_override = {'numpy.abs': lambda v: np.array([sp.Abs(e) for e in np.ravel(v)], dtype=object).reshape(np.shape(v)),
                      'numpy.isclose': lambda a, b, atol=0, rtol=0, **k: np.array([bool(sp.Abs(sp.sympify(x) - b) <= atol) for x in np.ravel(a)], dtype=object).reshape(np.shape(a))}
    env = dict(extra_env)
    env[name] = arr(test)
    try:
        m = ev.ev(tgt.slice, Path(env))
    except Opaque as e:
        raise AnalysisError('%s: clean-up mask outside the vocabulary: %s' % (loc, e))
    vals = [bool(v) for v in np.ravel(m)]
    ctx.ob(rule, loc, what, vals == expect, 'on entries %s the mask selects %s' % ([str(t) for t in test], vals), node=stmt, key=what[:60])


FRAMES = {'identity (m=x, n=y)': ([1, 0, 0], [0, 1, 0]), 'cyclic (m=y, n=z)': ([0, 1, 0], [0, 0, 1]), 'm=z, n=x': ([0, 0, 1], [1, 0, 0])}


def _iso_obj(ctx, m, n, nu, mu, be, bs):
    cls = ctx.fn(ISO, 'IsotropicVolterraDislocation')
    m, n = arr(m), arr(n)
    xi = np.cross(m, n)
    b = be * m + bs * xi
    attrs = {'m': m, 'n': n, 'ξ': xi, 'burgers': b, 'nu': nu, 'mu': mu, 'tol': sp.Rational(1, 10 ** 8),
             'theta': lambda pos: sp.atan2(np.asarray(pos, dtype=object).reshape(-1, 3)[0].dot(n), np.asarray(pos, dtype=object).reshape(-1, 3)[0].dot(m))}
    return SymObj(cls, attrs, 'self'), m, n, xi, b



def theta_branch(ctx):
    """the multivalued part of the isotropic solution: θ is the polar angle about the line, cut on the negative m axis (so that the displacement jumps by b across the slip plane behind the dislocation)"""
    aliases = module_aliases(ctx.mod(ISO))
    # theta branch table on eight directions
    tfn = ctx.fn(ISO, 'IsotropicVolterraDislocation.theta')
    cls = ctx.fn(ISO, 'IsotropicVolterraDislocation')
    pts = [(1, 0), (1, 1), (0, 1), (-1, 1), (-1, 0), (-1, -1), (0, -1), (1, -1)]
    want = [0, sp.pi / 4, sp.pi / 2, 3 * sp.pi / 4, -sp.pi, -3 * sp.pi / 4, -sp.pi / 2, -sp.pi / 4]
    obj = SymObj(cls, {'m': arr([1, 0, 0]), 'n': arr([0, 1, 0])}, 'self')
    ev = SymEval(aliases)

    class W(PyStub):
        def catch_warnings(self):
            return self

        def simplefilter(self, *a):
            return None
    ev.globals = {'warnings': W()}

    def arctan(v):
        return np.array([sp.nan if (sp.sympify(e) in (sp.zoo, sp.nan) or not sp.sympify(e).is_finite) else sp.atan(e) for e in np.ravel(v)], dtype=object).reshape(np.shape(v))
    ev.np_override = {'numpy.arctan': arctan}
    P = np.array([[sp.Integer(a), sp.Integer(b), sp.Integer(0)] for a, b in pts], dtype=object)
    try:
        r = [q for q in ev.run_fn(tfn, [obj, P], {}) if q.done == 'return'][0].ret
        got = [sp.nsimplify(v) if v is not sp.nan else v for v in r]
        # on the cut itself (the negative m axis) either end of the range is the same direction
        ok = len(got) == 8 and all(is_zero(a - b) or (p_ == (-1, 0) and is_zero(a - b - 2 * sp.pi)) for a, b, p_ in zip(got, want, pts))
        det = str(got)
    except Opaque as e:
        raise AnalysisError('theta: %s' % e)
    ctx.ob('ISOTROPIC', ISO + '::IsotropicVolterraDislocation.theta', 'θ is the polar angle of (x, y) = (pos·m, pos·n), in [-π, π], with the cut on the negative m axis (8 sample directions incl. x = 0)', ok, det, node=tfn, key='theta')


def isotropic(ctx):
    nu = sp.Symbol('nu', positive=True)
    mu = sp.Symbol('mu', positive=True)
    be, bs = sp.symbols('b_e b_s', real=True)
    lam = 2 * mu * nu / (1 - 2 * nu)
    pos = arr(list(X))
    aliases = module_aliases(ctx.mod(ISO))
    for tag, (mv, nv) in FRAMES.items():
        obj, m, n, xi, b = _iso_obj(ctx, mv, nv, nu, mu, be, bs)
        out = {}
        for meth in ('displacement', 'strain', 'stress'):
            fn = ctx.fn(ISO, 'IsotropicVolterraDislocation.' + meth)
            ev = SymEval(aliases)
            try:
                p = [q for q in ev.run_fn(fn, [obj, pos], {}) if q.done == 'return']
            except Opaque as e:
                raise AnalysisError('isotropic %s (%s): %s' % (meth, tag, e))
            ctx.need(len(p) == 1, 'isotropic %s does not reduce to one path (%s)' % (meth, tag))
            out[meth] = np.asarray(p[0].ret, dtype=object)
        u, e, s = out['displacement'], out['strain'], out['stress']
        loc = ISO + '::IsotropicVolterraDislocation.'
        ok = u.shape == (3,) and e.shape == (3, 3) and s.shape == (3, 3)
        ctx.ob('ISOTROPIC', loc + 'strain', '%s: a single position gives a 3-vector displacement and 3x3 strain and stress' % tag, ok, '%s %s %s' % (u.shape, e.shape, s.shape), key=tag + ' shapes')
        if not ok:
            continue
        bad = []
        for i in range(3):
            for j in range(3):
                ref = (sp.diff(u[i], X[j]) + sp.diff(u[j], X[i])) / 2
                if not is_zero(ref - e[i, j]):
                    bad.append((i, j))
        ctx.ob('ISOTROPIC', loc + 'strain', '%s: the strain is the symmetric gradient of the displacement (all nine Cartesian components)' % tag, not bad, 'differs at %s' % bad, node=ctx.fn(ISO, 'IsotropicVolterraDislocation.strain'), key=tag + ' strain')
        tr = e[0, 0] + e[1, 1] + e[2, 2]
        bad = [(i, j) for i in range(3) for j in range(3) if not is_zero(lam * tr * (1 if i == j else 0) + 2 * mu * e[i, j] - s[i, j])]
        ctx.ob('ISOTROPIC', loc + 'stress', '%s: the stress is λ tr(ε) I + 2 μ ε with λ = 2μν/(1-2ν)' % tag, not bad, 'differs at %s' % bad, node=ctx.fn(ISO, 'IsotropicVolterraDislocation.stress'), key=tag + ' hooke')
        bad = [i for i in range(3) if not is_zero(sum(sp.diff(s[i, j], X[j]) for j in range(3)))]
        ctx.ob('ISOTROPIC', loc + 'stress', '%s: the stress is divergence-free away from the line' % tag, not bad, 'div σ ≠ 0 in component(s) %s' % bad, node=ctx.fn(ISO, 'IsotropicVolterraDislocation.stress'), key=tag + ' div')
        t = sp.Symbol('t', positive=True)
        bad = [(i, j) for i in range(3) for j in range(3) for f in (e, s) if not is_zero(f[i, j].subs({X[k]: t * X[k] for k in range(3)}, simultaneous=True) * t - f[i, j])]
        ctx.ob('ISOTROPIC', loc + 'strain', '%s: strain and stress fall off as 1/r (homogeneous of degree -1)' % tag, not bad, str(bad[:3]), key=tag + ' 1/r')
        # jump: coefficient of the polar angle
        TH = sp.Symbol('TH', real=True)
        th = sp.atan2(pos.dot(n), pos.dot(m))
        du = [sp.simplify(sp.diff(u[i].subs(th, TH), TH)) for i in range(3)]
        free = [c.has(TH) or any(c.has(x) for x in X) for c in du]
        ctx.ob('ISOTROPIC', loc + 'displacement', '%s: the multivalued part of the displacement is (b/2π)·θ, so the jump across the cut is exactly the Burgers vector' % tag,
               not any(free) and all(is_zero(du[i] - b[i] / (2 * sp.pi)) for i in range(3)), 'dθ-coefficient %s, b/2π = %s' % (du, [bi / (2 * sp.pi) for bi in b]),
               node=ctx.fn(ISO, 'IsotropicVolterraDislocation.displacement'), key=tag + ' jump')
        # K tensor
        kfn = ctx.fn(ISO, 'IsotropicVolterraDislocation.K_tensor')
        ev = SymEval(aliases)
        ev.skip = _is_cleanup
        K = [q for q in ev.run_fn(kfn, [obj], {}) if q.done == 'return'][0].ret
        want = np.outer(m, m) * mu / (1 - nu) + np.outer(n, n) * mu / (1 - nu) + np.outer(xi, xi) * mu
        ctx.ob('ISOTROPIC', loc + 'K_tensor', '%s: the energy-coefficient tensor is μ/(1-ν) on m and n and μ on ξ (symmetric)' % tag, equal(np.asarray(K, dtype=object), want), node=kfn, key=tag + ' K')
    theta_branch(ctx)
    cls = ctx.fn(ISO, 'IsotropicVolterraDislocation')
    # solve(): nu from (K, mu); refusal of anisotropic constants; arguments forwarded
    sfn = ctx.fn(ISO, 'IsotropicVolterraDislocation.solve')
    Kb, G = sp.symbols('Kb G', positive=True)
    rec = []

    class Cn(PyStub):
        def bulk(self):
            return Kb

        def shear(self):
            return G

    class C0(PyStub):
        def __init__(self, iso):
            self.iso = iso

        def is_normal(self, system, **k):
            rec.append(('is_normal', system))
            return self.iso

        def normalized_as(self, system):
            rec.append(('normalized_as', system))
            return Cn()

    class Base(PyStub):
        def solve(self, me, C, burgers, **kw):
            rec.append(('base', C, burgers, kw))
            me.attrs['C'] = C
    obj = SymObj(cls, {}, 'self')
    ev = SymEval(aliases)
    ev.globals = {'VolterraDislocation': Base()}
    kw = dict(ξ_uvw='XI', slip_hkl='HKL', transform='TR', axes='AX', box='BOX', m='M', n='N', cart_axes='CA', tol='TOL')
    p = ev.run_fn(sfn, [obj, C0(True), 'B'], dict(kw))
    live = [q for q in p if q.done == 'return']
    base = [r for r in rec if r[0] == 'base']
    ok = len(live) == 1 and len(base) == 1 and isinstance(base[0][1], Cn) and base[0][2] == 'B' and base[0][3] == kw
    ctx.ob('ISOTROPIC', ISO + '::IsotropicVolterraDislocation.solve', 'the generic orientation handling receives the (normalised) constants, the Burgers vector and every orientation argument unchanged', ok, str(base)[:200], node=sfn, key='solve forward')
    gn, gm = obj.attrs.get('_IsotropicVolterraDislocation__nu'), obj.attrs.get('_IsotropicVolterraDislocation__mu')
    ctx.ob('ISOTROPIC', ISO + '::IsotropicVolterraDislocation.solve', 'μ is the shear modulus and ν = (3K-2μ)/(2(3K+μ))', gm == G and gn is not None and is_zero(gn - (3 * Kb - 2 * G) / (2 * (3 * Kb + G))), 'nu = %s' % gn, node=sfn, key='nu')
    p = SymEval(aliases)
    p.globals = {'VolterraDislocation': Base()}
    paths = p.run_fn(sfn, [SymObj(cls, {}, 'self'), C0(False), 'B'], {})
    ctx.ob('ISOTROPIC', ISO + '::IsotropicVolterraDislocation.solve', 'constants that are not isotropic are refused with ValueError', not [q for q in paths if q.done == 'return'], node=sfn, key='refuse')


def stroh(ctx):
    from .c11 import sym6, tensor4
    cls = ctx.fn(STR, 'Stroh')
    aliases = module_aliases(ctx.mod(STR))
    loc = STR + '::Stroh.'
    p = symarray('p', (6,))
    A = symarray('A', (6, 3))
    L = symarray('L', (6, 3))
    k = symarray('k', (6,))
    m, n = symarray('m', (3,), real=True), symarray('n', (3,), real=True)
    b = symarray('b', (3,), real=True)
    C4 = tensor4(sym6('c', real=True))

    class Cs(PyStub):
        Cijkl = C4
    attrs = {'p': p, 'A': A, 'L': L, 'k': k, 'm': m, 'n': n, 'burgers': b, 'C': Cs(), 'tol': sp.Rational(1, 10 ** 8)}
    obj = SymObj(cls, dict(attrs), 'self')
    pos = arr(list(X))
    # The fields are sums over the six roots of (coefficient) x ln(eta_a) resp. (coefficient) / eta_a.  They are evaluated with eta_a
    # standing for itself (symbols H_a, resp. 1/G_a), so that every comparison is a polynomial identity; eta() is checked separately.
    H = symarray('H', (6,), positive=True)
    G = symarray('G', (6,), positive=True)
    out = {}
    for meth, etav in (('displacement', H), ('strain', 1 / G), ('stress', 1 / G)):
        fn = ctx.fn(STR, 'Stroh.' + meth)
        o = SymObj(cls, dict(attrs, eta=(lambda v: (lambda pos_: np.array([list(v)], dtype=object)))(etav)), 'self')
        ev = SymEval(aliases)
        ev.np_override = {'numpy.real_if_close': lambda v, tol=None: v}
        try:
            q = [r for r in ev.run_fn(fn, [o, pos], {}) if r.done == 'return']
        except Opaque as e:
            raise AnalysisError('Stroh.%s: %s' % (meth, e))
        ctx.need(len(q) == 1, 'Stroh.%s does not reduce to one path' % meth)
        out[meth] = np.asarray(q[0].ret, dtype=object)
        # every field asks eta() for the same position
    u, e, s = out['displacement'], out['strain'], out['stress']
    ok = u.shape == (3,) and e.shape == (3, 3) and s.shape == (3, 3)
    ctx.ob('STROH', loc + 'strain', 'a single position gives a 3-vector displacement and 3x3 strain and stress', ok, '%s %s %s' % (u.shape, e.shape, s.shape))
    eta = [sum(X[i] * m[i] for i in range(3)) + p[a] * sum(X[i] * n[i] for i in range(3)) for a in range(6)]
    if ok:
        sign = [1, -1, 1, -1, 1, -1]
        cu = [[sign[a] * k[a] * sum(L[a, j] * b[j] for j in range(3)) * A[a, i] / (2 * sp.pi * sp.I) for i in range(3)] for a in range(6)]   # coefficient of ln(eta_a) in u_i
        want_u = [sum(cu[a][i] * sp.log(H[a]) for a in range(6)) for i in range(3)]
        ctx.ob('STROH', loc + 'displacement', 'u_i = (1/2πi) Σ_a ±k_a (L_a·b) A_ai ln(η_a)', all(sp.expand(sp.expand_log(u[i] - want_u[i], force=True)) == 0 for i in range(3)),
               node=ctx.fn(STR, 'Stroh.displacement'))
        deta = [[m[j] + p[a] * n[j] for j in range(3)] for a in range(6)]   # ∂η_a/∂X_j
        # ∂_j u_i = Σ_a cu[a][i] deta[a][j] / η_a  ->  with 1/η_a = G_a
        grad = [[sum(cu[a][i] * deta[a][j] * G[a] for a in range(6)) for j in range(3)] for i in range(3)]
        bad = [(i, j) for i in range(3) for j in range(3) if sp.expand((grad[i][j] + grad[j][i]) / 2 - e[i, j]) != 0]
        ctx.ob('STROH', loc + 'strain', 'the strain is the symmetric gradient of the displacement for arbitrary eigen-data (∂ ln η_a = (m + p_a n)/η_a)', not bad, 'differs at %s' % bad, node=ctx.fn(STR, 'Stroh.strain'))
        bad = []
        for i in range(3):
            for j in range(3):
                ref = sum(C4[i, j, kk, l] * grad[kk][l] for kk in range(3) for l in range(3))
                if sp.expand(ref - s[i, j]) != 0:
                    bad.append((i, j))
        ctx.ob('STROH', loc + 'stress', 'the stress is the stiffness contracted with the displacement gradient, σ_ij = C_ijkl ∂_l u_k', not bad, 'differs at %s' % bad, node=ctx.fn(STR, 'Stroh.stress'))
        # jump across the cut: ln η_a changes by ±2πi with the sign of Im p_a, which alternates like the sign vector -> Δu = Σ_a k_a A_a (L_a·b)
        jump = [sum(sign[a] * cu[a][i] * 2 * sp.pi * sp.I for a in range(6)) for i in range(3)]
        wantj = [sum(k[a] * A[a, i] * sum(L[a, j] * b[j] for j in range(3)) for a in range(6)) for i in range(3)]
        ctx.ob('STROH', loc + 'displacement', 'the jump of the displacement across the cut is Σ_a k_a A_a (L_a·b), i.e. the Burgers vector by the completeness relation that solve() asserts',
               all(sp.expand(jump[i] - wantj[i]) == 0 for i in range(3)), node=ctx.fn(STR, 'Stroh.displacement'), key='jump')
    # K tensor
    kfn = ctx.fn(STR, 'Stroh.K_tensor')
    ev = SymEval(aliases)
    ev.skip = _is_cleanup
    ev.np_override = {'numpy.real_if_close': lambda v, tol=None: v}
    K = np.asarray([q for q in ev.run_fn(kfn, [obj], {}) if q.done == 'return'][0].ret, dtype=object)
    want = np.array([[sp.I * sum((1, -1, 1, -1, 1, -1)[a] * k[a] * L[a, i] * L[a, j] for a in range(6)) for j in range(3)] for i in range(3)], dtype=object)
    ctx.ob('STROH', loc + 'K_tensor', 'K_ij = i Σ_a ±k_a L_ai L_aj (alternating signs over conjugate pairs)', K.shape == (3, 3) and equal(K, want), node=kfn)
    # (the sign vector enters every obligation above through the evaluated sums: a different vector in any one of the four methods breaks the relation it takes part in)
    # eta
    efn = ctx.fn(STR, 'Stroh.eta')
    ev = SymEval(aliases)
    r = np.asarray([q for q in ev.run_fn(efn, [obj, pos], {}) if q.done == 'return'][0].ret, dtype=object)
    ctx.ob('STROH', loc + 'eta', 'η_a = pos·m + p_a pos·n', np.ravel(r).shape == (6,) and all(sp.expand(x - y) == 0 for x, y in zip(np.ravel(r), eta)), node=efn)
    # solve(): N blocks, A/L split, k, guarded storage
    sfn = ctx.fn(STR, 'Stroh.solve')
    obj2 = SymObj(cls, dict(attrs), 'self')
    rec = {}

    class Base(PyStub):
        def solve(self, me, C, burgers, **kw):
            rec['base'] = (C, burgers, kw)

    class Stop(Exception):
        pass
    NNI = symarray('t', (3, 3))

    def inv(a):
        rec['inv_arg'] = np.array(a, dtype=object)
        return NNI
    EV = symarray('w', (6, 6))
    PV = symarray('lam', (6,))

    def eig(N):
        rec['N'] = np.array(N, dtype=object)
        return (PV, EV)
    ev = SymEval(aliases)
    chk = []
    ev.np_override = {'numpy.linalg.inv': inv, 'numpy.linalg.eig': eig, 'numpy.real_if_close': lambda v, tol=None: v,
                      'numpy.allclose': lambda a_, b_, **k_: (chk.append((a_, b_)) or sp.Symbol('orthogonality_check_%d' % len(chk)))}
    ev.globals = {'VolterraDislocation': Base()}
    obj2.attrs['K_tensor'] = symarray('K', (3, 3), real=True)

    def decide(text, v, pth):
        return None
    kw = dict(ξ_uvw='XI', slip_hkl='HKL', transform='TR', axes='AX', box='BOX', m='M', n='N', cart_axes='CA', tol='TOL')
    class Craw(PyStub):
        # the constants as the caller gave them, in the crystal frame: not the ones the eigenproblem is to be built from (those are self.C, rotated into the dislocation frame)
        Cijkl = symarray('craw', (3, 3, 3, 3), real=True)
        Cij = symarray('craw6', (6, 6), real=True)
    craw = Craw()
    try:
        paths = ev.run_fn(sfn, [obj2, craw, 'B'], dict(kw))
    except Opaque as e:
        raise AnalysisError('Stroh.solve: %s' % e)
    ok = 'base' in rec and rec['base'][0] is craw and rec['base'][1] == 'B' and rec['base'][2] == kw
    ctx.ob('STROH', loc + 'solve', 'the generic orientation handling receives the constants, the Burgers vector and every orientation argument unchanged', ok, str(rec.get('base'))[:200], node=sfn, key='solve forward')
    Q = np.einsum('i,ijkl,l->jk', m, C4, m)
    R = np.einsum('i,ijkl,l->jk', m, C4, n)
    RT = np.einsum('i,ijkl,l->jk', n, C4, m)
    T = np.einsum('i,ijkl,l->jk', n, C4, n)
    ok = 'inv_arg' in rec and equal(rec['inv_arg'], T)
    ctx.ob('STROH', loc + 'solve', 'the matrix that is inverted is (nn)_jk = n_i C_ijkl n_l with C the stiffness rotated into the dislocation frame (self.C)', bool(ok), node=sfn, key='nn')
    if 'N' in rec:
        N = rec['N']
        wantN = np.vstack((np.hstack((-NNI.dot(RT), -NNI)), np.hstack((Q - R.dot(NNI).dot(RT), -R.dot(NNI)))))
        bad = [(i, j) for i in range(6) for j in range(6) if sp.expand(N[i, j] - wantN[i, j]) != 0] if N.shape == (6, 6) else ['shape %s' % (N.shape,)]
        ctx.ob('STROH', loc + 'solve', 'the 6x6 eigen-matrix has the blocks (-T⁻¹Rᵀ, -T⁻¹ ; Q - R T⁻¹Rᵀ, -R T⁻¹) with Q=(mm), R=(mn), Rᵀ=(nm), T=(nn)', not bad, 'differs at %s' % bad[:4], node=sfn, key='N')
    else:
        ctx.ob('STROH', loc + 'solve', 'the 6x6 eigen-matrix is handed to the eigen-solver', False, node=sfn, key='N')
    live = [q for q in paths if q.done == 'return']
    if live:
        gA, gL, gk, gp = [obj2.attrs.get('_Stroh__' + x) for x in ('A', 'L', 'k', 'p')]
        rows = EV.T
        ok = gA is not None and equal(np.asarray(gA, dtype=object), rows[:, :3]) and equal(np.asarray(gL, dtype=object), rows[:, 3:]) and equal(np.asarray(gp, dtype=object), PV)
        ctx.ob('STROH', loc + 'solve', 'eigenvectors are split into A (first three components) and L (last three), one row per eigenvalue', bool(ok), node=sfn, key='split')
        wantk = np.array([1 / (2 * sum(rows[a, i] * rows[a, 3 + i] for i in range(3))) for a in range(6)], dtype=object)
        ctx.ob('STROH', loc + 'solve', 'normalisation k_a = 1 / (2 A_a·L_a)', gk is not None and equal(np.asarray(gk, dtype=object), wantk), node=sfn, key='k')
    else:
        ctx.ob('STROH', loc + 'solve', 'a solution is stored when the orthogonality checks pass', False, '%d raising paths' % len(paths), node=sfn, key='split')
    # what the four checks compare (evaluated on the symbolic eigen-data)
    if live and len(chk) >= 4:
        Ak, Lk, kk_ = rows[:, :3], rows[:, 3:], wantk
        I3 = np.array(sp.eye(3).tolist(), dtype=object)
        Z3 = np.array(sp.zeros(3, 3).tolist(), dtype=object)
        exp = [(np.einsum('s,si,sj->ij', kk_, Ak, Lk), I3), (np.einsum('s,si,sj->ij', kk_, Ak, Ak), Z3), (np.einsum('s,si,sj->ij', kk_, Lk, Lk), Z3)]
        okr = all(np.shape(chk[i][0]) == (3, 3) and all(is_zero(x - y, deep=False) for x, y in zip(np.ravel(chk[i][0]), np.ravel(exp[i][0])))
                  and all(is_zero(x - y, deep=False) for x, y in zip(np.ravel(np.asarray(chk[i][1], dtype=object)), np.ravel(exp[i][1]))) for i in range(3))
        okr = okr and np.shape(chk[3][0]) == (6, 6) and all(is_zero(x - y) for x, y in zip(np.ravel(np.asarray(chk[3][1], dtype=object)), np.ravel(np.array(sp.eye(6).tolist(), dtype=object))))
        ctx.ob('STROH', loc + 'solve', 'the checks compare Σk A⊗L with the identity, Σk A⊗A and Σk L⊗L with zero, and the 6x6 completeness sum with the identity', bool(okr), node=sfn, key='check relations')
    # the checks guard the storage: with any one of them failing, solve() refuses and stores nothing
    verd = []
    for failing in range(1, max(len(chk), 4) + 1):
        count = [0]

        def allclose(a_, b_, **k_):
            count[0] += 1
            return count[0] != failing
        o3 = SymObj(cls, dict(attrs), 'self')
        o3.attrs['K_tensor'] = symarray('K', (3, 3), real=True)
        ev3 = SymEval(aliases)
        ev3.np_override = {'numpy.linalg.inv': lambda a_: NNI, 'numpy.linalg.eig': lambda N_: (PV, EV), 'numpy.real_if_close': lambda v, tol=None: v, 'numpy.allclose': allclose}
        ev3.globals = {'VolterraDislocation': Base()}
        try:
            p3 = ev3.run_fn(sfn, [o3, 'C', 'B'], dict(kw))
            refused = not [q for q in p3 if q.done == 'return']
        except WouldRaise:
            refused = True
        except Opaque as e:
            raise AnalysisError('Stroh.solve with check %d failing: %s' % (failing, e))
        stored = [k_ for k_ in ('A', 'L', 'k', 'p') if o3.attrs.get('_Stroh__' + k_) is not None and attrs.get('_Stroh__' + k_) is None]
        verd.append((failing, refused, stored))
    ctx.ob('STROH', loc + 'solve', 'each of the four orthogonality / completeness relations guards the result: with any one of them failing the solution is refused and nothing is stored', len(chk) >= 4 and all(r_ and not st_ for f_, r_, st_ in verd),
           str(verd), node=sfn, key='checks')


def frame(ctx):
    cls = ctx.fn(VD, 'VolterraDislocation')
    aliases = module_aliases(ctx.mod(VD))
    sfn = ctx.fn(VD, 'VolterraDislocation.solve')
    loc = VD + '::VolterraDislocation.solve'
    B = symarray('b', (3,), real=True)
    TM = symarray('t', (3, 3), real=True)
    n = 0
    GIVEN = symarray('g', (3, 3), real=True)      # the vectors as the caller wrote them (not unit, not checked)
    BRAW = symarray('braw', (3,), real=True)       # the Burgers vector as the caller wrote it (crystal units of the given box)
    for tag, kw in (('Miller line and plane', dict(ξ_uvw='XI', slip_hkl='HKL')), ('transform', dict(transform=GIVEN)), ('axes (legacy)', dict(axes=GIVEN)), ('no orientation', dict())):
        n += 1
        rec = []

        class Cst(PyStub):
            def transform(self, T):
                rec.append(('C.transform', T))
                return ('CT', T)

        class Mil(PyStub):
            def vector_crystal_to_cartesian(self, v, box):
                rec.append(('b_cart', v, box))
                return B
        def find(*a, **k):
            # the class's own __find_transform(ξ_uvw, slip_hkl, m, n, box) or the public dislocation_system_transform(ξ_uvw, slip_hkl, m=, n=, box=, tol=)
            names = ['xi', 'hkl', 'm', 'n', 'box', 'tol']
            got = dict(zip(names, a))
            got.update({{'ξ_uvw': 'xi', 'slip_hkl': 'hkl'}.get(kk, kk): v for kk, v in k.items()})
            rec.append(('find', got.get('xi'), got.get('hkl'), got.get('m'), got.get('n'), got.get('box')))
            return TM
        obj = SymObj(cls, {'_VolterraDislocation__find_transform': find}, 'self')
        ev = SymEval(aliases)
        ev.globals = {'miller': Mil(), 'axes_check': lambda a: (rec.append(('axes_check', a)) or TM), 'Box': lambda: 'DEFAULTBOX', 'dislocation_system_transform': find}
        try:
            p = [q for q in ev.run_fn(sfn, [obj, Cst(), BRAW], dict(kw, box='BOX', m='y', n='z')) if q.done == 'return']
        except Opaque as e:
            raise AnalysisError('VolterraDislocation.solve (%s): %s' % (tag, e))
        ctx.need(len(p) == 1, 'VolterraDislocation.solve does not reduce to one path (%s)' % tag)
        a = obj.attrs
        T = a.get('_VolterraDislocation__transform')
        Texp = TM if kw else np.array(sp.eye(3).tolist(), dtype=object)
        okT = T is not None and equal(np.asarray(T, dtype=object), Texp)
        if 'ξ_uvw' in kw:
            f = [r for r in rec if r[0] == 'find']
            okT = okT and len(f) == 1 and f[0][1] == 'XI' and f[0][2] == 'HKL' and equal(f[0][3], arr([0, 1, 0])) and equal(f[0][4], arr([0, 0, 1])) and f[0][5] == 'BOX'
        elif kw:
            f = [r for r in rec if r[0] == 'axes_check']
            # the vectors as given are checked (normalised) first; checking the checked matrix again changes nothing
            okT = okT and len(f) >= 1 and is_arr(f[0][1]) and equal(np.asarray(f[0][1], dtype=object), GIVEN) and all(is_arr(x[1]) and equal(np.asarray(x[1], dtype=object), TM) for x in f[1:])
        ctx.ob('FRAME', loc, '%s: the rotation is %s' % (tag, {'Miller line and plane': 'built from ξ_uvw, slip_hkl, m, n and the box', 'transform': 'the checked transform', 'axes (legacy)': 'the checked axes', 'no orientation': 'the identity'}[tag]),
               bool(okT), str(rec)[:200], node=sfn, key=tag + ' transform')
        ct = [r for r in rec if r[0] == 'C.transform']
        bc = [r for r in rec if r[0] == 'b_cart']
        gb = a.get('_VolterraDislocation__burgers')
        ok = len(ct) == 1 and equal(np.asarray(ct[0][1], dtype=object), Texp) and a.get('_VolterraDislocation__C') == ('CT', ct[0][1]) and len(bc) == 1 and bc[0][1] is BRAW and bc[0][2] == 'BOX' \
            and gb is not None and equal(np.asarray(gb, dtype=object), Texp.dot(B))
        ctx.ob('FRAME', loc, '%s: the Burgers vector (crystal -> Cartesian in the given box) and the elastic constants are rotated with that same matrix' % tag, bool(ok), node=sfn, key=tag + ' same matrix')
        ok = equal(a.get('_VolterraDislocation__m'), arr([0, 1, 0])) and equal(a.get('_VolterraDislocation__n'), arr([0, 0, 1])) and equal(a.get('_VolterraDislocation__ξ'), arr([1, 0, 0]))
        ctx.ob('FRAME', loc, '%s: m=\'y\', n=\'z\' give the unit axes and ξ = m × n' % tag, bool(ok), node=sfn, key=tag + ' mnxi')
    ctx.floor('FRAME', n, 4)
    for tag, kw in (('line without plane', dict(ξ_uvw='XI')), ('Miller indices together with a transform', dict(ξ_uvw='XI', slip_hkl='HKL', transform='T')), ('axes together with transform', dict(axes='A', transform='T'))):
        obj = SymObj(cls, {'_VolterraDislocation__find_transform': lambda *a, **k: TM}, 'self')
        ev = SymEval(aliases)
        ev.globals = {'miller': PyStub(), 'axes_check': lambda a: TM, 'Box': lambda: 'DEFAULTBOX', 'dislocation_system_transform': lambda *a, **k: TM}
        try:
            paths = ev.run_fn(sfn, [obj, PyStub(), 'B'], dict(kw, box='BOX'))
            ok = not [q for q in paths if q.done == 'return']
        except WouldRaise:
            ok = True
        ctx.ob('FRAME', loc, '%s: refused' % tag, ok, node=sfn, key='refuse ' + tag)
    # Burgers round-off is relative: solve() interpreted with concrete Burgers vectors at two scales (no orientation given: identity rotation)
    R = sp.Rational
    for tag, bc, want in (('a Burgers vector in metres (5e-10) with a 1e-21 round-off component', [R(5, 10 ** 10), -R(5, 10 ** 10), R(1, 10 ** 21)], [R(5, 10 ** 10), -R(5, 10 ** 10), 0]),
                          ('components of order one with a 1e-12 round-off component', [R(1, 2), -R(1, 2), R(1, 10 ** 12)], [R(1, 2), -R(1, 2), 0]),
                          ('a small but real component (one thousandth of the largest)', [R(1, 2), R(1, 2000), 0], [R(1, 2), R(1, 2000), 0])):
        class Cst2(PyStub):
            def transform(self, T):
                return ('CT', T)

        class Mil3(PyStub):
            def vector_crystal_to_cartesian(self, v, box, _b=bc):
                return arr(list(_b))
        obj = SymObj(cls, {'_VolterraDislocation__find_transform': lambda *a, **k: TM}, 'self')
        ev = SymEval(aliases)
        ev.globals = {'miller': Mil3(), 'axes_check': lambda a: TM, 'Box': lambda: 'DEFAULTBOX', 'dislocation_system_transform': lambda *a, **k: TM}
        try:
            p = [q for q in ev.run_fn(sfn, [obj, Cst2(), 'BURGERS'], dict(box='BOX')) if q.done == 'return']
        except Opaque as e:
            raise AnalysisError('VolterraDislocation.solve (%s): %s' % (tag, e))
        gb = obj.attrs.get('_VolterraDislocation__burgers')
        ok = len(p) == 1 and gb is not None and np.shape(gb) == (3,) and all(is_zero(sp.nsimplify(x_) - sp.nsimplify(y_)) for x_, y_ in zip(gb, want))
        ctx.ob('FRAME', loc, '%s: round-off removal drops only components that are tiny relative to the largest one' % tag, bool(ok), 'stored %s' % (None if gb is None else [str(x_) for x_ in gb],), node=sfn, key='burgers scale ' + tag[:40])
    # __find_transform and its sibling
    ftn = ctx.fn_opt(VD, 'VolterraDislocation.__find_transform')      # absent when solve() uses the public function directly (routing is judged above either way)
    xi_c = symarray('x', (3,), real=True)
    nn_c = symarray('h', (3,), real=True)
    NR = sp.Symbol('nrm', positive=True)
    mv, nv = symarray('m', (3,), real=True), symarray('n', (3,), real=True)

    class Bx(PyStub):
        def vector_crystal_to_cartesian(self, v):
            return xi_c

        def plane_crystal_to_cartesian(self, v):
            return nn_c

    class Mil2(PyStub):
        def vector_crystal_to_cartesian(self, v, box):
            return xi_c

        def plane_crystal_to_cartesian(self, v, box):
            return nn_c
    ev = SymEval(aliases)
    ev.np_override = {'numpy.linalg.norm': lambda v: NR, 'numpy.isclose': lambda *a, **k: True}
    xh = xi_c / NR
    rows = np.array([np.cross(nn_c, xh), nn_c, xh], dtype=object)
    Tm = np.array([mv, nv, np.cross(mv, nv)], dtype=object).T
    if ftn is not None:
        r1 = [q for q in ev.run_fn(ftn, [SymObj(cls, {}, 'self'), 'XI', 'HKL', mv, nv, Bx()], {}) if q.done == 'return']
        ctx.need(len(r1) == 1, '__find_transform does not reduce to one path')
        got = np.asarray(r1[0].ret, dtype=object)
        ctx.ob('FRAME', VD + '::VolterraDislocation.__find_transform', 'rows (n̂×ξ̂, n̂, ξ̂) of the slip system, re-expressed in the (m, n, m×n) frame: T = [m n m×n]·rows', got.shape == (3, 3) and equal(got, Tm.dot(rows)), node=ftn, key='find')
    dfn = ctx.fn(DST, 'dislocation_system_transform')
    ev = SymEval(module_aliases(ctx.mod(DST)))
    ev.np_override = {'numpy.linalg.norm': lambda v: NR, 'numpy.isclose': lambda *a, **k: True}
    ev.globals = {'miller': Mil2(), 'Box': lambda: 'BOX'}
    r2 = [q for q in ev.run_fn(dfn, ['XI', 'HKL'], dict(m=mv, n=nv, box='BOX')) if q.done == 'return']
    ctx.need(len(r2) == 1, 'dislocation_system_transform does not reduce to one path')
    got2 = np.asarray(r2[0].ret, dtype=object)
    ctx.ob('FRAME', DST + '::dislocation_system_transform', 'the public transform function: rows (n̂×ξ̂, n̂, ξ̂) of the slip system re-expressed in the (m, n, m×n) frame (the same matrix as the solver\'s own route)',
           got2.shape == (3, 3) and equal(got2, Tm.dot(rows)), node=dfn, key='sibling')
    # m, n validation
    mn = ctx.fn(VD, 'VolterraDislocation.__mn_check')
    for tag, mm, nn_, accept in (("'x','y'", 'x', 'y', True), ('unit vectors', [0, 1, 0], [0, 0, 1], True), ('n not a unit vector', [1, 0, 0], [0, 2, 0], False), ('m not a unit vector', [2, 0, 0], [0, 1, 0], False),
                                 ('m, n not perpendicular', [1, 0, 0], [sp.Rational(3, 5), sp.Rational(4, 5), 0], False)):
        ev = SymEval(aliases)
        ev.np_override = {'numpy.isclose': lambda a, b_, atol=0, rtol=0, **k: (bool(sp.Abs(sp.sympify(a) - b_) <= atol) if not is_arr(a) else np.array([bool(sp.Abs(sp.sympify(x) - b_) <= atol) for x in np.ravel(a)], dtype=object))}
        try:
            paths = ev.run_fn(mn, [SymObj(cls, {}, 'self'), mm, nn_, False, sp.Rational(1, 10 ** 8)], {})
            acc = bool([q for q in paths if q.done == 'return'])
        except WouldRaise:
            acc = False
        except Opaque as e:
            raise AnalysisError('__mn_check (%s): %s' % (tag, e))
        ctx.ob('FRAME', VD + '::VolterraDislocation.__mn_check', 'm, n = %s: %s' % (tag, 'accepted' if accept else 'refused'), acc == accept, node=mn, key='mn ' + tag)


_REDUCERS = {'max', 'min', 'amax', 'amin', 'nanmax', 'nanmin', 'ptp', 'mean', 'median', 'std', 'var', 'argmax', 'argmin', 'sort', 'argsort', 'unique', 'cumsum', 'average', 'percentile', 'quantile'}


def pointwise(ctx):
    """the fields are functions of the point: what is returned for one position does not depend on the other positions passed in the same call (the field of a
    thousand points is the thousand fields of one point).  Decided structurally: the field methods reduce over nothing but named einsum indices -- no maximum / minimum /
    mean / ordering over the array of positions or over the result, no clean-up store through a closeness mask (its threshold would be shared by all points)"""
    n = 0
    for rel, cname in ((STR, 'Stroh'), (ISO, 'IsotropicVolterraDislocation')):
        for meth in ('displacement', 'strain', 'stress', 'eta', 'theta'):
            fn = ctx.fn_opt(rel, '%s.%s' % (cname, meth))
            if fn is None:
                continue
            n += 1
            hits = []
            for x in ast.walk(fn):
                if isinstance(x, ast.Call):
                    f = x.func
                    nm = f.attr if isinstance(f, ast.Attribute) else (f.id if isinstance(f, ast.Name) else '')
                    if nm in _REDUCERS:
                        hits.append('line %d: %s' % (x.lineno, norm(x)[:60]))
                    if nm == 'norm' and not any(k.arg == 'axis' for k in x.keywords) and len(x.args) < 3:
                        hits.append('line %d: %s (norm over the whole array)' % (x.lineno, norm(x)[:60]))
                    if nm in ('sum', 'prod', 'any', 'all') and not any(k.arg == 'axis' for k in x.keywords) and len(x.args) < 2 and not (isinstance(f, ast.Name)):
                        hits.append('line %d: %s (reduction over the whole array)' % (x.lineno, norm(x)[:60]))
                if _is_cleanup(x):
                    hits.append('line %d: %s (clean-up through a closeness mask)' % (x.lineno, norm(x)[:60]))
            ctx.ob('POINTWISE', '%s::%s.%s' % (rel, cname, meth), 'the value returned for a position does not depend on the other positions of the same call (no reduction over the positions or the result, no shared clean-up threshold)',
                   not hits, '; '.join(hits[:3]), node=fn, key='pointwise %s.%s' % (cname, meth))
    ctx.floor('POINTWISE', n, 8)


def dispatch(ctx):
    fn = ctx.fn(SV, 'solve_volterra_dislocation')
    loc = SV + '::solve_volterra_dislocation'
    kw = dict(ξ_uvw='XI', slip_hkl='HKL', transform='TR', axes='AX', box='BOX', m='M', n='N', cart_axes='CA', tol='TOL')
    for tag, exc in (('anisotropic solver succeeds', None), ('anisotropic solver raises ValueError', 'ValueError'), ('anisotropic solver raises another error', 'TypeError')):
        calls = []

        def stroh_(C, b, **k):
            calls.append(('Stroh', C, b, k))
            if exc:
                raise ModelError(exc, 'degenerate')
            return 'STROH'

        def iso_(C, b, **k):
            calls.append(('Iso', C, b, k))
            return 'ISO'
        ev = SymEval(module_aliases(ctx.mod(SV)))
        ev.globals = {'Stroh': stroh_, 'IsotropicVolterraDislocation': iso_}
        try:
            p = ev.run_fn(fn, ['C', 'B'], dict(kw))
            live = [q for q in p if q.done == 'return']
            ret = live[0].ret if len(live) == 1 else None
        except WouldRaise:
            ret = 'RAISED'
        if exc is None:
            ok = ret == 'STROH' and [c[0] for c in calls] == ['Stroh'] and calls[0][1:] == ('C', 'B', kw)
        elif exc == 'ValueError':
            ok = ret == 'ISO' and [c[0] for c in calls] == ['Stroh', 'Iso'] and calls[1][1:] == ('C', 'B', kw) and calls[0][1:] == ('C', 'B', kw)
        else:
            ok = ret == 'RAISED' and [c[0] for c in calls] == ['Stroh']
        ctx.ob('DISPATCH', loc, '%s: %s' % (tag, {None: 'its solution is returned', 'ValueError': 'the isotropic solver is called with exactly the same arguments', 'TypeError': 'the error propagates (no silent fallback)'}[exc]), ok,
               str(calls)[:300], node=fn, key=tag)


def resolve_state(ctx):
    """solve() may be called again on the same object with another problem: nothing derived from the previous one is kept"""
    n = 0
    for rel, cls in ((STR, 'Stroh'), (ISO, 'IsotropicVolterraDislocation'), (VD, 'VolterraDislocation')):
        n += lints.state_owner(ctx, 'RESOLVE-STATE', rel, cls, ('solve',), 'a second solve() on the same object')
    ctx.floor('RESOLVE-STATE/methods', n, 30)


def stiffness_rotation(ctx):
    """solve() rotates the stiffness with ElasticConstants.transform: its round-off clean-up keeps negative constants (a rotated tensor is full of them), decided by the
    rule of the property that owns it"""
    from .c11 import cleanup_keeps_signs
    cleanup_keeps_signs(ctx, 'STIFFNESS-ROTATION')


def float_fields(ctx):
    """strain and stress are assembled component by component in a buffer; the buffer is float for whole-number field points too"""
    dtypeflow.float_buffers(ctx, 'FLOAT-FIELDS', ISO, 'IsotropicVolterraDislocation.strain', floor=6, what='strain components')
    dtypeflow.float_buffers(ctx, 'FLOAT-FIELDS', ISO, 'IsotropicVolterraDislocation.stress', floor=6, what='stress components')


def run(ctx):
    ctx.explanation = ('C12: the isotropic closed forms are evaluated in three (m,n,ξ) frames and differentiated by the CAS (strain = sym grad u, Hooke, div σ = 0, 1/r, Burgers jump, K tensor, '
                       'θ branch table); the Stroh sums are evaluated with generic symbolic eigen-data (strain = sym grad u, stress = C:grad u, K, η, N blocks, A/L split, k, guarded storage); orientation '
                       'handling is evaluated with recording stubs (same rotation for b and C, four input routes, sibling transform, m/n validation, relative round-off); the solver dispatch is evaluated '
                       'with a raising model of the anisotropic solver; the plane-normal construction used by the Miller route is decided as in C16. Not decided: accuracy of the numerical eigen-solution, positive-definiteness, the isotropic limit.')
    from .c16 import plane_normal, map34     # the Miller route (ξ_uvw, slip_hkl) gets its n axis from miller.plane_crystal_to_cartesian; the Burgers vector and the line
    # direction given in crystal indices become Cartesian vectors through miller.vector_crystal_to_cartesian (a vector: no origin added)
    ctx.run_rules([isotropic, stroh, pointwise, frame, dispatch, plane_normal, map34, float_fields, resolve_state, stiffness_rotation, lambda c: __import__("amverif.rules.c11", fromlist=["x"]).axes_check_rule(c, "FRAME")])
