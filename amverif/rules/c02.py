"""C02 Periodic separation.

Decided statically on the Cython kernels (read through Cython's parser, lowered to ast):
 * MINFOLD: dvect_c and dmag2_c, evaluated over symbolic positions and cell vectors with the outcome of every
   data-dependent comparison scripted by the analyser, are a fold-minimum over exactly the candidates
   Δ + x·a + y·b + z·c with x,y,z in {-1,0,1} along periodic directions and {0} otherwise: (a) the multiset of
   compared magnitudes is exactly that candidate set, (b) each comparison is |candidate|² < |running best|²,
   (c) an accepted candidate replaces the whole running best, (d) the running best starts from the direct
   separation and is what is returned.  Checked for all 8 periodicity settings, both kernels.
 * WRAPPER: pbc flags passed in order; one-to-many broadcast only when one side has length 1; unequal lengths refused;
   dmag is the square root of dmag2_c.
 * PAIRING: displacement() pairs box and pbc from the same system per box_reference; System.dvect/dmag use the
   system's own box and pbc.
Declined: "true nearest image when both points are inside and ..." is a theorem about the 27-candidate minimum; the
check decides that the code *is* that minimum.
"""
import ast
import itertools

import numpy as np
import sympy as sp

from ..core import norm, calls_in, kwarg, AnalysisError, string_dispatch
from ..symx import SymEval, Path, SymObj, symarray, is_zero, is_arr, equal, Opaque, WouldRaise, module_aliases, arr

DV = 'atomman/core/dvect.pyx'
DM = 'atomman/core/dmag.pyx'
DISP = 'atomman/core/displacement.py'
SYS = 'atomman/core/System.py'


def _run_kernel(ctx, rel, name, pbc, script, P0, P1, B):
    fn = ctx.fn(rel, name)
    ev = SymEval(module_aliases(ctx.mod(rel)))
    rec = []

    def decide(text, v, p):
        if isinstance(v, sp.core.relational.Relational):
            k = len(rec)
            rec.append(v)
            return script(k)
        return None
    ev.decide = decide
    paths = ev.run_fn(fn, [P0.copy(), P1.copy(), B.copy(), pbc[0], pbc[1], pbc[2]], {})
    live = [p for p in paths if p.done == 'return']
    if len(live) != 1:
        raise AnalysisError('%s::%s does not reduce to one path under a scripted comparison oracle' % (rel, name))
    return live[0].ret, rec


def _cands(pbc, d, B):
    rng = [(-1, 0, 1) if f else (0,) for f in pbc]
    out = {}
    for x, y, z in itertools.product(*rng):
        if (x, y, z) == (0, 0, 0):
            continue
        v = d + x * B[0] + y * B[1] + z * B[2]
        out[(x, y, z)] = v
    return out


def _sq(v):
    return sp.expand(sum(c ** 2 for c in v))


def _orient(rel):
    """relational -> (smaller side, larger side, strict) or None"""
    if isinstance(rel, (sp.Lt, sp.Le)):
        return sp.expand(rel.lhs), sp.expand(rel.rhs), isinstance(rel, sp.Lt)
    if isinstance(rel, (sp.Gt, sp.Ge)):
        return sp.expand(rel.rhs), sp.expand(rel.lhs), isinstance(rel, sp.Gt)
    return None


def no_cancellation(ctx, rel, name):
    """the squared lengths the image search compares are accumulated from squares of the candidate's own components -- every added term is non-negative, so nothing can
    cancel.  (An expanded form |d|^2 + 2 d.s + |s|^2 is the same number in exact arithmetic and loses every digit for near-image pairs across a face of a wide cell.)"""
    fn = ctx.fn(rel, name)
    loc = '%s::%s' % (rel, name)
    assigns = {}
    for st in ast.walk(fn):
        if isinstance(st, ast.Assign):
            for t in st.targets:
                base = t
                while isinstance(base, ast.Subscript):
                    base = base.value
                if isinstance(base, ast.Name):
                    assigns.setdefault(base.id, []).append((t, st.value, False))
        elif isinstance(st, ast.AugAssign):
            base = st.target
            while isinstance(base, ast.Subscript):
                base = base.value
            if isinstance(base, ast.Name):
                assigns.setdefault(base.id, []).append((st.target, st.value, not isinstance(st.op, ast.Add)))

    def sos(e, seen=()):
        if isinstance(e, ast.Constant):
            return isinstance(e.value, (int, float)) and e.value >= 0
        if isinstance(e, ast.BinOp) and isinstance(e.op, ast.Add):
            return sos(e.left, seen) and sos(e.right, seen)
        if isinstance(e, ast.BinOp) and isinstance(e.op, ast.Mult):
            return norm(e.left) == norm(e.right)
        if isinstance(e, ast.BinOp) and isinstance(e.op, ast.Pow):
            return isinstance(e.right, ast.Constant) and e.right.value == 2
        if isinstance(e, ast.Call) and norm(e.func) in ('np.dot', 'np.inner', 'np.vdot') and len(e.args) == 2:
            return norm(e.args[0]) == norm(e.args[1])
        if isinstance(e, ast.Call) and isinstance(e.func, ast.Attribute) and e.func.attr == 'dot' and len(e.args) == 1:
            return norm(e.func.value) == norm(e.args[0])
        if isinstance(e, ast.Call) and norm(e.func) == 'np.sum' and len(e.args) == 1:
            return sos(e.args[0], seen)
        if isinstance(e, ast.Call) and norm(e.func) in ('min', 'max', 'fmin', 'fmax', 'np.minimum', 'np.maximum', 'np.fmin', 'np.fmax') and e.args and not e.keywords:
            return all(sos(a_, seen) for a_ in e.args)        # the smaller / larger of sums of squares is one of them
        base = e
        while isinstance(base, ast.Subscript):
            base = base.value
        if isinstance(base, ast.Name) and isinstance(e, (ast.Name, ast.Subscript)):
            if base.id in seen:
                return True
            # an element of a buffer: what is stored into its elements; a plain name: what the name is bound to
            defs = [d_ for d_ in assigns.get(base.id, []) if isinstance(d_[0], ast.Subscript) == isinstance(e, ast.Subscript)]
            if not defs:
                return False
            return all((not bad) and sos(v, seen + (base.id,)) for _t, v, bad in defs)
        return False
    cmps = [c for c in ast.walk(fn) if isinstance(c, ast.Compare) and len(c.ops) == 1 and isinstance(c.ops[0], (ast.Lt, ast.LtE, ast.Gt, ast.GtE))
            and not any(isinstance(x, ast.Constant) for x in [c.left] + c.comparators) and all(isinstance(x, (ast.Name, ast.Subscript, ast.BinOp, ast.Call)) for x in [c.left] + c.comparators)]
    # min(a, b) / max(a, b) of two squared lengths is the same comparison
    cmps = [(c, [c.left, c.comparators[0]]) for c in cmps] + [(c, list(c.args)) for c in ast.walk(fn) if isinstance(c, ast.Call) and norm(c.func) in ('min', 'max', 'fmin', 'fmax', 'np.minimum', 'np.maximum', 'np.fmin', 'np.fmax')
                                                               and len(c.args) == 2 and not c.keywords]
    n = 0
    for c, sides in cmps:
        # the comparison of two squared lengths: at least one side is (a name bound to) a sum of products
        if not any(isinstance(x, (ast.Name, ast.Subscript)) and any(isinstance(v, ast.BinOp) for _t, v, _b in assigns.get((x if isinstance(x, ast.Name) else x.value).id if isinstance(x if isinstance(x, ast.Name) else x.value, ast.Name) else '', []))
                   or isinstance(x, ast.BinOp) for x in sides):
            continue
        n += 1
        bad = [norm(x) for x in sides if not sos(x)]
        ctx.ob('NO-CANCELLATION', loc, 'the squared lengths compared in `%s` are sums of squares of the vectors\' own components (non-negative terms only: no cross terms that cancel for near-image pairs)' % norm(c)[:50], not bad,
               'not a sum of squares: %s' % bad, node=c, key='sum of squares ' + norm(c)[:40])
    ctx.floor('NO-CANCELLATION/' + name, n, 1)


def minfold(ctx, rel, name, vector):
    loc = '%s::%s' % (rel, name)
    P0, P1 = symarray('p', (1, 3), real=True), symarray('q', (1, 3), real=True)
    B = symarray('b', (3, 3), real=True)
    d = P1[0] - P0[0]
    n = 0
    for pbc in itertools.product((False, True), repeat=3):
        n += 1
        tag = ''.join('p' if f else 'f' for f in pbc)
        cands = _cands(pbc, d, B)
        want = sorted(str(_sq(v)) for v in cands.values())
        # (a),(b),(d): never accept
        ret, rec = _run_kernel(ctx, rel, name, pbc, lambda k: False, P0, P1, B)
        o = [_orient(r) for r in rec]
        ok_shape = all(x is not None for x in o)
        got = sorted(str(x[0]) for x in o) if ok_shape else []
        ctx.ob('MINFOLD', loc, 'pbc=%s: the compared candidates are exactly Δ + x·a + y·b + z·c over {-1,0,1} along periodic directions (%d candidates, each once)' % (tag, len(want)),
               ok_shape and got == want, 'compared %d magnitudes, expected %d%s' % (len(got), len(want), '' if len(got) != len(want) or not got else '; first differing: %s' % next((g for g, w in zip(got, want) if g != w), '')),
               key='candidates %s' % tag)
        ctx.ob('MINFOLD', loc, 'pbc=%s: every comparison tests |candidate|² against |running best|², which starts as the direct separation' % tag,
               ok_shape and all(x[1] == _sq(d) for x in o), key='best starts direct %s' % tag)
        exp0 = d if vector else _sq(d)
        ctx.ob('MINFOLD', loc, 'pbc=%s: with no shorter candidate the direct separation is returned' % tag, equal(ret[0], exp0, deep=False), key='returns direct %s' % tag)
        if not cands:
            continue
        # (c): accept only the first candidate
        ret, rec = _run_kernel(ctx, rel, name, pbc, lambda k: k == 0, P0, P1, B)
        o = [_orient(r) for r in rec]
        if all(x is not None for x in o) and o:
            first = o[0][0]
            match = [v for v in cands.values() if _sq(v) == first]
            ok = all(x[1] == first for x in o[1:]) and len(match) >= 1
            exp = match[0] if (vector and match) else first
            ok = ok and equal(ret[0], exp, deep=False)
        else:
            ok = False
        ctx.ob('MINFOLD', loc, 'pbc=%s: an accepted candidate replaces the whole running best and is what later candidates are compared with / what is returned' % tag, ok, key='update %s' % tag)
        # fold: accept all -> last candidate
        ret, rec = _run_kernel(ctx, rel, name, pbc, lambda k: True, P0, P1, B)
        o = [_orient(r) for r in rec]
        ok = bool(o) and all(x is not None for x in o)
        if ok:
            last = o[-1][0]
            match = [v for v in cands.values() if _sq(v) == last]
            exp = match[0] if (vector and match) else last
            ok = equal(ret[0], exp, deep=False) and all(o[i][1] == o[i - 1][0] for i in range(1, len(o)))
        ctx.ob('MINFOLD', loc, 'pbc=%s: the running best is updated at every accepted candidate (fold)' % tag, ok, key='fold %s' % tag)
    ctx.floor('MINFOLD/' + name, n, 8)
    # rows are independent: a second row is computed from its own positions
    P0b, P1b = symarray('p', (2, 3), real=True), symarray('q', (2, 3), real=True)
    ret, rec = _run_kernel(ctx, rel, name, (False, False, False), lambda k: False, P0b, P1b, B)
    exp = [(P1b[i] - P0b[i]) if vector else _sq(P1b[i] - P0b[i]) for i in range(2)]
    ctx.ob('MINFOLD', loc, 'each row pair is treated independently', all(equal(ret[i], exp[i], deep=False) for i in range(2)), key='rows')


def wrapper(ctx, rel, name, kernel, vector):
    fn = ctx.fn(rel, name)
    loc = '%s::%s' % (rel, name)
    calls = [c for c in calls_in(fn) if norm(c.func) == kernel]
    ctx.need(len(calls) == 1, '%s: call of %s not found' % (loc, kernel))
    c = calls[0]
    args = [norm(a) for a in c.args]
    ctx.ob('WRAPPER', loc, 'periodic flags are passed in order (a, b, c) together with the cell vectors', args[2:] == ['bvects', 'pbc[0]', 'pbc[1]', 'pbc[2]'] or args[3:] == ['pbc[0]', 'pbc[1]', 'pbc[2]'],
           str(args), node=c)
    # the cell vectors handed to the kernel are the box's *current* vectors on every call (a Box is mutable: two calls on one
    # object with the cell changed in between, then a call with another box)
    seen = []
    ev0 = SymEval(module_aliases(ctx.mod(rel)))
    ev0.module = ctx.mod(rel)
    V1, V2, V3 = symarray('u', (3, 3), real=True), symarray('w', (3, 3), real=True), symarray('z', (3, 3), real=True)
    _opq = lambda c: np.asarray(c, dtype=object) * 0 + sp.Symbol('anyrel', real=True)
    bx = SymObj(None, {'vects': V1, 'origin': arr([0, 0, 0]), 'position_cartesian_to_relative': _opq}, 'box')
    bx2 = SymObj(None, {'vects': V3, 'origin': arr([0, 0, 0]), 'position_cartesian_to_relative': _opq}, 'box2')

    def kern0(p0, p1, bvv, fa, fb, fc):
        seen.append(bvv)
        return (np.asarray(p1, dtype=object) - np.asarray(p0, dtype=object)) if vector else np.sum((np.asarray(p1, dtype=object) - np.asarray(p0, dtype=object)) ** 2, axis=1)
    okv = True
    try:
        for b_, want in ((bx, V1), (bx, V2), (bx2, V3), (bx, V2)):
            if want is V2:
                bx.attrs['vects'] = V2
            ev0.run_fn(fn, env={'pos_0': symarray('p', (2, 3), real=True), 'pos_1': symarray('q', (2, 3), real=True), 'box': b_, 'pbc': (True, False, True), kernel: kern0})
            okv = okv and len(seen) > 0 and equal(np.asarray(seen[-1], dtype=object), want, deep=False)
    except Opaque as e:
        raise AnalysisError('%s: %s' % (loc, e))
    ctx.ob('WRAPPER', loc, 'the cell vectors handed to the kernel are the current vectors of the box given in that call (also after the same Box object was changed in place between calls)', okv and len(seen) == 4, node=c)
    # broadcasting, via evaluation with the kernel bound to the direct separation
    ev = SymEval(module_aliases(ctx.mod(rel)))
    B = symarray('b', (3, 3), real=True)

    def _relative(c):
        # box-relative coordinates of arbitrary points: opaque real numbers (whole-cell offsets between the two points are not zero in general)
        c = np.asarray(c, dtype=object)
        out = np.empty(c.shape, dtype=object)
        for ix in np.ndindex(c.shape):
            out[ix] = sp.Symbol('rel_%s_%s' % ('_'.join(map(str, ix)), abs(hash(str(c[ix]))) % 10 ** 6), real=True)
        return out
    box = SymObj(None, {'vects': B, 'origin': arr([0, 0, 0]), 'position_cartesian_to_relative': _relative, 'position_relative_to_cartesian': lambda r_: np.asarray(r_, dtype=object).dot(B)}, 'box')
    handed = []

    def kern(p0, p1, bv, fa, fb, fc):
        p0, p1 = np.asarray(p0, dtype=object), np.asarray(p1, dtype=object)
        if p0.shape != p1.shape or p0.ndim != 2:
            raise Opaque('kernel called with shapes %s %s' % (p0.shape, p1.shape))
        handed.append((p0, p1))
        return (p1 - p0) if vector else np.sum((p1 - p0) ** 2, axis=1)
    cases = [((3,), (3,), (1,)), ((3,), (2, 3), (2,)), ((2, 3), (3,), (2,)), ((1, 3), (2, 3), (2,)), ((2, 3), (2, 3), (2,))]
    for s0, s1, lead in cases:
        p0, p1 = symarray('p', s0, real=True), symarray('q', s1, real=True)
        env = {'pos_0': p0, 'pos_1': p1, 'box': box, 'pbc': (True, True, True), kernel: kern}
        del handed[:]
        try:
            paths = ev.run_fn(fn, env=env)
            live = [p for p in paths if p.done == 'return']
            r = live[0].ret if len(live) == 1 else None
        except Opaque as e:
            r = None
        a0 = np.atleast_2d(p0)
        a1 = np.atleast_2d(p1)
        ok = r is not None and tuple(np.shape(r))[:1] == lead
        # the kernel is handed the positions as they were given (it searches the images itself, along periodic directions only): no whole-cell shift is applied beforehand
        if handed:
            h0, h1 = handed[-1]
            okh = all(equal(h0[i], a0[min(i, len(a0) - 1)], deep=False) and equal(h1[i], a1[min(i, len(a1) - 1)], deep=False) for i in range(len(h0)))
            ctx.ob('WRAPPER', loc, 'shapes %s and %s: the kernel receives the positions as given (no shift by whole cell vectors before the image search, which follows the periodic flags)' % (s0, s1), bool(okh), node=fn,
                   key='as given %s %s' % (s0, s1))
        if ok:
            for i in range(lead[0]):
                dd = a1[min(i, len(a1) - 1)] - a0[min(i, len(a0) - 1)]
                exp = dd if vector else sp.sqrt(sum(x ** 2 for x in dd))
                ok = ok and equal(r[i], exp, deep=False)
        ctx.ob('WRAPPER', loc, 'positions of shapes %s and %s give %d separation(s), pos_1[i] - pos_0[i] with a single point broadcast' % (s0, s1, lead[0]), ok, node=fn, key='broadcast %s %s' % (s0, s1))
    p0, p1 = symarray('p', (2, 3), real=True), symarray('q', (3, 3), real=True)
    env = {'pos_0': p0, 'pos_1': p1, 'box': box, 'pbc': (True, True, True), kernel: kern}
    try:
        paths = ev.run_fn(fn, env=env)
        ok = all(p.done == 'raise' for p in paths)
    except Opaque:
        ok = False
    ctx.ob('WRAPPER', loc, 'unequal numbers of points (neither being one) are refused', ok, node=fn, key='unequal refused')


def pairing(ctx):
    fn = ctx.fn(DISP, 'displacement')
    loc = DISP + '::displacement'
    ev = SymEval(module_aliases(ctx.mod(DISP)))
    rec = []

    def dv(pos_0=None, pos_1=None, box=None, pbc=None):
        rec.append((pos_0, pos_1, box, pbc))
        return sp.Symbol('D')
    # mixed periodicity, different in the two systems: the flags reach the kernel as they are (no shortcut for "not fully periodic")
    PB = {0: (True, False, True), 1: (False, True, True)}
    # (a system's own dvect method is the kernel under that system's box and periodicity)
    mk = lambda k: SymObj(None, {'natoms': sp.Symbol('N'), 'atoms': SymObj(None, {'pos': sp.Symbol('pos%d' % k)}, 'atoms%d' % k), 'box': 'box%d' % k, 'pbc': PB[k],
                                 'dvect': (lambda p0, p1, _k=k: dv(p0, p1, 'box%d' % _k, PB[_k]))}, 'system_%d' % k)
    s0, s1 = mk(0), mk(1)
    for ref, want in (('final', ('box1', PB[1])), ('initial', ('box0', PB[0]))):
        del rec[:]
        paths = ev.run_fn(fn, env={'system_0': s0, 'system_1': s1, 'box_reference': ref, 'dvect': dv})
        ok = len(rec) == 1 and rec[0][0] == sp.Symbol('pos0') and rec[0][1] == sp.Symbol('pos1') and (rec[0][2], tuple(rec[0][3])) == want
        ctx.ob('PAIRING', loc, "box_reference=%r: separation from system_0's to system_1's positions under %s's box and periodicity (both from the same system)" % (ref, 'system_1' if ref == 'final' else 'system_0'),
               ok, str([(str(r[0]), str(r[1]), r[2], r[3]) for r in rec]), node=fn, key='pair ' + ref)
    del rec[:]
    paths = ev.run_fn(fn, env={'system_0': s0, 'system_1': s1, 'box_reference': None, 'dvect': dv})
    live = [p for p in paths if p.done == 'return']
    ok = len(live) == 1 and not rec and is_zero(live[0].ret - (sp.Symbol('pos1') - sp.Symbol('pos0')))
    ctx.ob('PAIRING', loc, 'box_reference=None: plain difference of positions', ok, node=fn, key='pair none')
    paths = ev.run_fn(fn, env={'system_0': s0, 'system_1': s1, 'box_reference': 'other', 'dvect': dv})
    ctx.ob('PAIRING', loc, 'unknown box_reference is refused', all(p.done == 'raise' for p in paths), node=fn, key='pair refuse')
    t = [s for s in fn.body if isinstance(s, ast.If) and 'natoms' in norm(s.test)]
    ctx.ob('PAIRING', loc, 'systems with different atom counts are refused', len(t) == 1 and any(isinstance(x, ast.Raise) for x in t[0].body), node=fn, key='natoms refuse')
    # one row per atom, also for a single atom: systems modelled on the real System class (its dvect method hands a single separation back unwrapped)
    syscls = ctx.fn(SYS, 'System')
    for natoms in (2, 1):
        for ref in ('final', 'initial'):
            kcalls = []

            def kernel(pos_0, pos_1, box, pbc, _k=kcalls):       # the parameter names of atomman.core.dvect
                p0, p1 = pos_0, pos_1
                _k.append((np.asarray(p0, dtype=object), np.asarray(p1, dtype=object), box, pbc))
                return symarray('sep', (max(np.shape(np.atleast_2d(p0))[0], np.shape(np.atleast_2d(p1))[0]), 3), real=True)
            mk2 = lambda k: SymObj(syscls, {'natoms': sp.Integer(natoms), 'atoms': SymObj(None, {'pos': symarray('q%d' % k, (natoms, 3), real=True)}, 'atoms%d' % k), 'box': 'box%d' % k, 'pbc': PB[k]}, 'system_%d' % k)
            t0, t1 = mk2(0), mk2(1)
            ev3 = SymEval(module_aliases(ctx.mod(DISP)))
            ev3.globals = {'dvect': kernel}
            try:
                live = [q for q in ev3.run_fn(fn, [t0, t1], {'box_reference': ref}) if q.done == 'return']
            except (Opaque, WouldRaise) as e:
                raise AnalysisError('displacement on %d-atom systems: %s' % (natoms, e))
            r_ = live[0].ret if len(live) == 1 else None
            want_sys = 'box1' if ref == 'final' else 'box0'
            ok = r_ is not None and np.shape(r_) == (natoms, 3) and len(kcalls) == 1 and kcalls[0][2] == want_sys and tuple(kcalls[0][3]) == PB[1 if ref == 'final' else 0]
            ctx.ob('PAIRING', loc, '%d-atom systems, box_reference=%r: one separation row per atom (shape (%d, 3)), from the kernel under that system\'s box and periodicity' % (natoms, ref, natoms), bool(ok),
                   'result shape %s, kernel calls %s' % (np.shape(r_) if r_ is not None else None, [(c[2], c[3]) for c in kcalls]), node=fn, key='rows %d %s' % (natoms, ref))
    # System.dvect / System.dmag: evaluated on a model system with a recording kernel
    cls = ctx.fn(SYS, 'System')
    POS = symarray('r', (5, 3), real=True)
    for meth in ('dvect', 'dmag'):
        m = ctx.fn(SYS, 'System.' + meth)
        for tag, a0, a1, want0, want1, nres in (('atom indices', 3, [1, 2], POS[3], POS[[1, 2]], 2), ('one index, one position', 0, arr([sp.Rational(1, 2), sp.Rational(1, 3), 2]), POS[0], arr([sp.Rational(1, 2), sp.Rational(1, 3), 2]), 1),
                                              ('positions both', arr([[sp.Rational(1, 2), 0, 0], [0, sp.Rational(1, 4), 0]]), arr([[1, 1, sp.Rational(1, 5)]]), arr([[sp.Rational(1, 2), 0, 0], [0, sp.Rational(1, 4), 0]]), arr([[1, 1, sp.Rational(1, 5)]]), 2),
                                              ('slice and negative index', slice(1, 3), -1, POS[1:3], POS[-1], 2),
                                              ('one position, then atom indices', arr([sp.Rational(1, 2), sp.Rational(1, 3), 2]), [1, 2], arr([sp.Rational(1, 2), sp.Rational(1, 3), 2]), POS[[1, 2]], 2),
                                              ('a tuple of whole numbers is a position, not three atoms', (1, 2, 3), 0, arr([1, 2, 3]), POS[0], 1)):
            rec2 = []

            def kern(p0, p1, box, pbc, _n=nres):
                rec2.append((np.asarray(p0, dtype=object), np.asarray(p1, dtype=object), box, pbc))
                return symarray('res', (_n, 3) if meth == 'dvect' else (_n,), real=True)
            obj = SymObj(cls, {'atoms': SymObj(None, {'pos': POS.copy()}, 'atoms'), 'box': 'BOX', 'pbc': 'PBC'}, 'self')
            ev2 = SymEval(module_aliases(ctx.mod(SYS)))
            ev2.globals = {meth: kern}
            try:
                live = [q for q in ev2.run_fn(m, [obj, a0, a1], {}) if q.done == 'return']
            except (Opaque, WouldRaise) as e:
                raise AnalysisError('System.%s (%s): %s' % (meth, tag, e))
            ok = len(live) == 1 and len(rec2) == 1 and rec2[0][2] == 'BOX' and rec2[0][3] == 'PBC' and np.shape(rec2[0][0]) == np.shape(want0) and np.shape(rec2[0][1]) == np.shape(want1) \
                and equal(rec2[0][0], np.asarray(want0, dtype=object), deep=False) and equal(rec2[0][1], np.asarray(want1, dtype=object), deep=False)
            if ok:
                r_ = live[0].ret
                full = symarray('res', (nres, 3) if meth == 'dvect' else (nres,), real=True)
                ok = equal(np.asarray(r_, dtype=object), full[0] if nres == 1 else full, deep=False) if (is_arr(r_) or nres > 1 or meth == 'dvect') else is_zero(r_ - full[0])
            ctx.ob('PAIRING', SYS + '::System.' + meth, '%s: index arguments select the system\'s own atom positions, anything else is taken as positions; the kernel gets (reference, target, the system\'s box, the system\'s periodicity); a single result is returned unwrapped' % tag,
                   bool(ok), str([(np.shape(r[0]), np.shape(r[1]), r[2], r[3]) for r in rec2]), node=m, key='system %s %s' % (meth, tag))


def run(ctx):
    ctx.explanation = ('C02: the two Cython kernels are read through Cython\'s parser and evaluated over symbolic positions and cell vectors with every data-dependent '
                       'comparison scripted by the analyser; this proves they are a fold-minimum over exactly the 3^k candidates of the periodic directions, for all 8 settings. '
                       'Wrapper broadcasting and box/pbc pairing are decided by evaluation with the kernel replaced by the direct separation. '
                       'Not decided: the nearest-image theorem itself (a property of the 27-candidate minimum, not of the code).')
    from .. import readonly, lints
    from .c01 import scale_free_cleanup
    ctx.run_rules([lambda c: no_cancellation(c, DM, 'dmag2_c'), lambda c: no_cancellation(c, DV, 'dvect_c'), lambda c: scale_free_cleanup(c, 'CELL-SCALE') and None, lambda c: lints.c_double(c, 'C-DOUBLE', DV, floor=7), lambda c: lints.c_double(c, 'C-DOUBLE', DM, floor=6),
                   lambda c: minfold(c, DV, 'dvect_c', True), lambda c: minfold(c, DM, 'dmag2_c', False),
                   lambda c: wrapper(c, DV, 'dvect', 'dvect_c', True), lambda c: wrapper(c, DM, 'dmag', 'dmag2_c', False), pairing,
                   lambda c: readonly.rule(c, DV, floor=1) and None, lambda c: readonly.rule(c, DM, floor=1) and None])
