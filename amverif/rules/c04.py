"""C04 Supercells and re-oriented cells.

Decided statically:
 * SUPERSIZE: System.supersize evaluated on a model system (2 atoms, symbolic scaled positions, a tagged per-atom
   property, symbolic cell) for several multiplier tuples: atom count = n·|m|, new vectors = old·m_i, origin shifted by
   lo_i·vect_i, and the result atoms are exactly {(atom j, lattice translation k) : k in the box of [lo_i, hi_i)} each
   once, carrying atom j's property row; zero multipliers and malformed tuples refused.
 * CENTERING (exact rationals): for the eight settings, p2c[s]·c2p[s] = I, c2p[s] integer with determinant
   (1,2,2,2,2,4,3,3), multip·p2c[s] integer for the multip the converter selects, the basis positions the converter
   checks are exactly the lattice points of p2c[s] modulo 1.
 * CONVERSION: conventional->primitive rotates by vector_primitive_to_conventional(multip·I) and cuts 1/multip³;
   primitive->conventional rotates by vector_conventional_to_primitive(I).
 * ROTATE: guards (non-integer indices refused, zero volume refused, the cut-out system is constructed only after the
   expected-count test), the bounding multipliers are (min-1, max+1) over the eight corners; ORIGIN: the cut-out
   cell is anchored where the bounding supercell is.
 * PRESERVE: supersize / rotate / the two converters / normalize do not write to their operand.
Declined: that the kept atoms are the right ones for every concrete cell (floating-point geometry).
"""
import ast
import itertools
from fractions import Fraction as F

import numpy as np
import sympy as sp

from ..core import norm, calls_in, kwarg, AnalysisError, string_dispatch, assigns_to, cmp_canon
from ..symx import SymEval, Path, SymObj, PyStub, symarray, is_zero, equal, Opaque, WouldRaise, module_aliases, arr
from .. import effects, dtypeflow

SYS = 'atomman/core/System.py'
MIL = 'atomman/tools/miller.py'
C2P = 'atomman/dump/conventional_to_primitive/dump.py'
P2C = 'atomman/dump/primitive_to_conventional/dump.py'
NRM = 'atomman/lammps/normalize.py'
SETTINGS = ['p', 'a', 'b', 'c', 'i', 'f', 't1', 't2']
DETS = {'p': 1, 'a': 2, 'b': 2, 'c': 2, 'i': 2, 'f': 4, 't1': 3, 't2': 3}


class StubAtoms(PyStub):
    def __init__(self, natoms=None, view=None):
        self.view = view if view is not None else {}
        self.natoms = natoms if natoms is not None else len(next(iter(self.view.values())))

    @property
    def pos(self):
        if 'pos' not in self.view:
            raise Opaque('atoms.pos of an Atoms without positions')
        return self.view['pos']


class StubBox(PyStub):
    def __init__(self, vects=None, origin=None):
        self.vects_, self.origin_ = np.array(vects, dtype=object), np.array(origin, dtype=object)

    @property
    def vects(self):
        return self.vects_.copy()

    @property
    def origin(self):
        return self.origin_.copy()

    @property
    def reciprocal_vects(self):
        import sympy as sp
        return np.array(sp.Matrix(self.vects_.tolist()).inv().T.tolist(), dtype=object)

    def position_cartesian_to_relative(self, pos):
        return np.inner(np.asarray(pos, dtype=object) - self.origin_, self.reciprocal_vects)

    def position_relative_to_cartesian(self, rel):
        return np.asarray(rel, dtype=object).dot(self.vects_) + self.origin_


class StubSystem(PyStub):
    def __init__(self, **kw):
        self.kw = kw


def supersize(ctx):
    fn = ctx.fn(SYS, 'System.supersize')
    loc = SYS + '::System.supersize'
    aliases = module_aliases(ctx.mod(SYS))
    V = symarray('v', (3, 3), real=True)
    o = symarray('o', (3,), real=True)
    S = symarray('s', (2, 3), real=True)
    tag = symarray('g', (2, 2), real=True)
    cases = [(2, 1, 1), ((-1, 1), 2, 1), (-2, (0, 1), (-1, 0)), (1, 1, 3)]
    n = 0
    for sizes in cases:
        n += 1
        sten = symarray('w', (2, 2, 2), real=True)      # a tensor-valued per-atom property (rank 3 as stored)
        atoms = StubAtoms(view={'atype': arr([1, 2]), 'pos': S.dot(V) + o, 'tag': tag.copy(), 'sten': sten.copy()})   # Cartesian positions consistent with the scaled ones

        def atoms_prop(key=None, value=None, scale=False, **k):
            if key is None:
                return list(atoms.view.keys())
            if key == 'pos' and scale:
                return S.copy()
            raise Opaque('atoms_prop(%r)' % key)
        me = SymObj(ctx.fn(SYS, 'System'), {'box': StubBox(V, o), 'atoms_prop': atoms_prop, 'atoms': atoms, 'natoms': 2, 'symbols': ('A', 'B')}, 'self')       # helper methods of the class resolve; the accessors are the model's
        ev = SymEval(aliases)
        env = {'self': me, 'a_size': sizes[0], 'b_size': sizes[1], 'c_size': sizes[2], 'Box': lambda vects=None, origin=None: StubBox(vects, origin),
               'Atoms': lambda natoms=None: StubAtoms(natoms=int(natoms), view={}), 'System': lambda **kw: StubSystem(**kw)}
        try:
            paths = ev.run_fn(fn, env=env)
        except Opaque as e:
            raise AnalysisError('supersize left the vocabulary for sizes %s: %s' % (sizes, e))
        live = [p for p in paths if p.done == 'return']
        ctx.need(len(live) == 1 and isinstance(live[0].ret, StubSystem), 'supersize%s does not return one System' % (sizes,))
        res = live[0].ret.kw
        rng = []
        for sz in sizes:
            rng.append((0, sz) if isinstance(sz, int) and sz > 0 else ((sz, 0) if isinstance(sz, int) else sz))
        m = [hi - lo for lo, hi in rng]
        tg = 'sizes=%s' % (sizes,)
        box, at = res.get('box'), res.get('atoms')
        ok = isinstance(box, StubBox) and all(equal(box.vects_[i], V[i] * m[i], deep=False) for i in range(3))
        ctx.ob('SUPERSIZE', loc, '%s: new cell vectors are the old ones times the multipliers %s' % (tg, m), ok, node=fn, key='vects ' + tg)
        ok = isinstance(box, StubBox) and equal(box.origin_, o + sum(V[i] * rng[i][0] for i in range(3)), deep=False)
        ctx.ob('SUPERSIZE', loc, '%s: the origin moves by lo_i cell vectors' % tg, ok, node=fn, key='origin ' + tg)
        ok = isinstance(at, StubAtoms) and at.natoms == 2 * m[0] * m[1] * m[2] and res.get('scale') is True
        ctx.ob('SUPERSIZE', loc, '%s: atom count is natoms·%d and the positions are handed over as box-relative' % (tg, m[0] * m[1] * m[2]), ok, node=fn, key='count ' + tg)
        if not isinstance(at, StubAtoms) or 'pos' not in at.view or 'tag' not in at.view:
            ctx.ob('SUPERSIZE', loc, '%s: result carries pos and every property' % tg, False, str(sorted(getattr(at, 'view', {}))), node=fn, key='props ' + tg)
            continue
        pos, tg_arr, aty = at.view['pos'], at.view['tag'], at.view.get('atype')
        seen = {}
        bad = []
        for r in range(len(pos)):
            j = [k for k in range(2) if equal(tg_arr[r], tag[k], deep=False)]
            if len(j) != 1:
                bad.append('row %d carries no original atom\'s property row' % r)
                continue
            j = j[0]
            if aty is not None and not is_zero(aty[r] - (j + 1), deep=False):
                bad.append('row %d: type differs from atom %d' % (r, j))
            if 'sten' not in at.view or np.shape(at.view['sten']) != (len(pos), 2, 2) or not equal(np.asarray(at.view['sten'][r], dtype=object), sten[j], deep=False):
                bad.append('row %d: the tensor-valued property is not that of atom %d' % (r, j))
            k = [sp.simplify(pos[r][i] * m[i] - S[j, i]) for i in range(3)]
            if not all(x.is_Integer and 0 <= int(x) < m[i] for i, x in enumerate(k)):
                bad.append('row %d: not atom %d plus an in-range lattice translation (%s)' % (r, j, k))
                continue
            seen[(j, tuple(int(x) for x in k))] = seen.get((j, tuple(int(x) for x in k)), 0) + 1
        want = {(j, k) for j in range(2) for k in itertools.product(*[range(x) for x in m])}
        ok = not bad and set(seen) == want and all(c == 1 for c in seen.values())
        ctx.ob('SUPERSIZE', loc, '%s: the result is every original atom at every lattice translation of the replication box exactly once, with its own type and property row' % tg, ok,
               '; '.join(bad[:3]) or 'images %d, expected %d' % (len(seen), len(want)), node=fn, key='images ' + tg)
        ctx.ob('SUPERSIZE', loc, '%s: symbols are carried over' % tg, res.get('symbols') == ('A', 'B'), node=fn, key='symbols ' + tg)
    ctx.floor('SUPERSIZE', n, 4)
    # refusals
    for sizes, what in (((0, 1, 1), 'a zero multiplier'), (((1, 2), 1, 1), 'a tuple with positive lower bound'), ((1.5, 1, 1), 'a non-integer multiplier'), (((0, 0), 1, 1), 'an empty range')):
        atoms = StubAtoms(view={'atype': arr([1, 2]), 'pos': symarray('x', (2, 3))})
        me = SymObj(ctx.fn(SYS, 'System'), {'box': StubBox(V, o), 'atoms_prop': lambda key=None, **k: S.copy() if key else ['atype', 'pos'], 'atoms': atoms, 'natoms': 2, 'symbols': ('A', 'B')}, 'self')
        ev = SymEval(aliases)
        try:
            paths = ev.run_fn(fn, env={'self': me, 'a_size': sizes[0], 'b_size': sizes[1], 'c_size': sizes[2], 'Box': lambda **k: StubBox(k['vects'], k['origin']),
                                       'Atoms': lambda natoms=None: StubAtoms(natoms=int(natoms), view={}), 'System': lambda **kw: StubSystem(**kw)})
            ok = all(p.done == 'raise' for p in paths)
        except WouldRaise:
            ok = True     # refused by an exception of the interpreter itself (e.g. subscripting an int)
        except Opaque:
            ok = False
        ctx.ob('SUPERSIZE', loc, '%s is refused' % what, ok, node=fn, key='refuse ' + what)


def _table(ctx, name):
    fn = ctx.fn(MIL, name)
    ev = SymEval(module_aliases(ctx.mod(MIL)))
    out = {}
    for s in SETTINGS:
        I = arr(sp.eye(3).tolist())
        try:
            r = ev.call_fn(fn, [I, s], {}, Path({}))
        except Opaque as e:
            raise AnalysisError('%s(setting=%r) left the vocabulary: %s' % (name, s, e))
        out[s] = sp.Matrix(np.asarray(r, dtype=object).tolist())
    return out, fn


def centering(ctx):
    p2c, f1 = _table(ctx, 'vector_primitive_to_conventional')
    c2p, f2 = _table(ctx, 'vector_conventional_to_primitive')
    loc1, loc2 = MIL + '::vector_primitive_to_conventional', MIL + '::vector_conventional_to_primitive'
    for s in SETTINGS:
        ctx.ob('CENTERING', loc2, 'setting %s: the two tables are mutually inverse' % s, (p2c[s] * c2p[s] - sp.eye(3)).is_zero_matrix and (c2p[s] * p2c[s] - sp.eye(3)).is_zero_matrix,
               'product %s' % (p2c[s] * c2p[s]).tolist(), node=f2, key='inverse ' + s)
        ctx.ob('CENTERING', loc2, 'setting %s: conventional vectors are integer combinations of primitive ones with determinant %d (lattice points per cell)' % (s, DETS[s]),
               all(x.is_Integer for x in c2p[s]) and c2p[s].det() == DETS[s], 'det %s' % c2p[s].det(), node=f2, key='det ' + s)
    ctx.floor('CENTERING', len(SETTINGS), 8)
    # unknown settings refused
    for name, fn in (('vector_primitive_to_conventional', f1), ('vector_conventional_to_primitive', f2)):
        ev = SymEval(module_aliases(ctx.mod(MIL)))
        try:
            paths = ev.run_fn(fn, [arr(sp.eye(3).tolist()), 'q'], {})
            ok = all(p.done == 'raise' for p in paths)
        except WouldRaise:
            t = [s for s in ast.walk(fn) if isinstance(s, ast.Try)]
            ok = len(t) == 1 and any(isinstance(x, ast.Raise) for h in t[0].handlers for x in h.body)
        except Opaque:
            ok = False
        ctx.ob('CENTERING', MIL + '::' + name, 'an unknown setting is refused', ok, node=fn, key='unknown ' + name)
    # the converter's multip and basis table
    d = ctx.fn(C2P, 'dump')
    # the multiplier the converter selects per setting: its head interpreted (basis check switched off) up to the rotation indices
    stop = [i for i, st in enumerate(d.body) if isinstance(st, ast.Assign) and norm(st.targets[0]) == 'cps_uvws']
    ctx.need(len(stop) == 1, 'conventional_to_primitive.dump: cps_uvws assignment not found')
    chosen = {}
    mp = [d.body[stop[0]]]
    for s in SETTINGS:
        seen_m = []
        mil = SymObj(None, {}, 'miller')
        mil.attrs['vector_primitive_to_conventional'] = lambda m, setting=None: (seen_m.append(np.asarray(m, dtype=object)), m)[1]
        p = Path({'system': SymObj(None, {}, 'system'), 'setting': s, 'smallshift': None, 'rtol': sp.Symbol('rtol'), 'atol': sp.Symbol('atol'), 'check_basis': False, 'check_family': True, 'return_transform': False, 'miller': mil})
        try:
            SymEval(module_aliases(ctx.mod(C2P))).block(d.body[:stop[0] + 1], [p])
        except (Opaque, WouldRaise) as e:
            raise AnalysisError('conventional_to_primitive.dump head (setting %s): %s' % (s, e))
        ctx.need(len(seen_m) == 1 and np.shape(seen_m[0]) == (3, 3) and all(seen_m[0][i, j] == (seen_m[0][0, 0] if i == j else 0) for i in range(3) for j in range(3)),
                 'conventional_to_primitive.dump: the supercell indices are not a multiple of the identity for setting %s' % s)
        chosen[s] = int(seen_m[0][0, 0])
    for s in SETTINGS:
        M = chosen[s] * p2c[s]
        ctx.ob('CENTERING', C2P + '::dump', 'setting %s: the %d×%d×%d primitive supercell has integer conventional indices' % (s, chosen[s], chosen[s], chosen[s]), all(x.is_Integer for x in M), str(M.tolist()), node=mp[0], key='multip ' + s)
    cb = ctx.fn(C2P, 'check_setting_basis')

    def sites_tested(setting):
        # check_setting_basis interpreted on the unit cube at the origin with a recording site search: the positions searched are the fractions themselves
        searched = []

        class _B(PyStub):
            vects, origin = np.array(sp.eye(3).tolist(), dtype=object), arr([0, 0, 0])

            def identifyfamily(self, **k):
                return {'i': 'cubic', 'f': 'cubic', 'a': 'orthorhombic', 'b': 'orthorhombic', 'c': 'orthorhombic', 't1': 'hexagonal', 't2': 'hexagonal'}.get(setting, 'cubic')

            def position_relative_to_cartesian(self, r):
                return np.asarray(r, dtype=object)

            def vector_crystal_to_cartesian(self, r):
                return np.asarray(r, dtype=object)

        class _A(PyStub):
            atype = arr([1] * 8)

        class _U(PyStub):
            box, atoms = _B(), _A()

        def iop(system, pos, **k):
            searched.append(tuple(sp.nsimplify(x_, rational=True) for x_ in np.ravel(pos)))
            return np.array([True] + [False] * 7)
        ev_ = SymEval(module_aliases(ctx.mod(C2P)))
        ev_.globals = {'index_of_pos': iop}
        try:
            ev_.run_fn(cb, [_U(), setting], {})
        except (Opaque, WouldRaise) as e:
            raise AnalysisError('check_setting_basis (setting %s): %s' % (setting, e))
        return searched
    for s in SETTINGS:
        val = sites_tested(s)
        ctx.need(val, 'check_setting_basis searches no site for setting %s' % s)
        got = {tuple(sp.Rational(x) % 1 for x in row) for row in val}
        pts = set()
        for nvec in itertools.product(range(-3, 4), repeat=3):
            v = sp.Matrix([nvec]) * p2c[s]
            pts.add(tuple(x % 1 for x in v))
        ctx.ob('CENTERING', C2P + '::check_setting_basis', 'setting %s: the basis positions tested are exactly the lattice points of the centering (mod 1), %d of them' % (s, DETS[s]),
               got == pts and len(got) == DETS[s], 'tested %s, lattice points %s' % (sorted(map(str, got)), sorted(map(str, pts))), node=cb, key='basis ' + s)


def basis_sites(ctx):
    """check_setting_basis interpreted whole on a model cell with a symbolic, non-zero origin and a recording site search: the positions searched for are the centring
    points as *positions* of the cell (fraction · vectors + origin), and an empty site answers False"""
    cb = ctx.fn(C2P, 'check_setting_basis')
    loc = C2P + '::check_setting_basis'
    V, o = symarray('v', (3, 3), real=True), symarray('o', (3,), real=True)

    class Bx(PyStub):
        vects, origin = V, o

        def identifyfamily(self, **k):
            return 'orthorhombic'

        def position_relative_to_cartesian(self, r):
            return np.asarray(r, dtype=object).dot(V) + o

        def vector_crystal_to_cartesian(self, r):
            return np.asarray(r, dtype=object).dot(V)

    class At(PyStub):
        atype = arr([1, 1, 1, 1])

    class Uc(PyStub):
        box, atoms = Bx(), At()
    for setting, frac in (('i', [[0, 0, 0], [sp.Rational(1, 2)] * 3]), ('f', [[0, 0, 0], [sp.Rational(1, 2), sp.Rational(1, 2), 0], [sp.Rational(1, 2), 0, sp.Rational(1, 2)], [0, sp.Rational(1, 2), sp.Rational(1, 2)]]),
                          ('c', [[0, 0, 0], [sp.Rational(1, 2), sp.Rational(1, 2), 0]])):
        for tag, found in (('every site occupied', True), ('the second site empty', False)):
            searched = []

            def iop(system, pos, **k):
                searched.append(np.array(pos, dtype=object))
                hit = found or len(searched) != 2
                return np.array([hit, False, False, False])
            ev = SymEval(module_aliases(ctx.mod(C2P)))
            ev.globals = {'index_of_pos': iop}
            try:
                r = [q for q in ev.run_fn(cb, [Uc(), setting], {}) if q.done == 'return']
            except (Opaque, WouldRaise) as e:
                raise AnalysisError('check_setting_basis (%s, %s): %s' % (setting, tag, e))
            ctx.need(len(r) == 1, 'check_setting_basis does not reduce to one path (%s, %s)' % (setting, tag))
            want = [arr(f_).dot(V) + o for f_ in frac]
            n_ = len(frac) if found else 2
            ok = len(searched) == n_ and all(equal(a_, b_, deep=False) for a_, b_ in zip(searched, want)) and bool(r[0].ret) == found
            ctx.ob('CENTERING', loc, 'setting %s, %s: the sites searched are the centring points as positions of the cell (fraction·vectors + origin), and the answer is %s' % (setting, tag, found), bool(ok),
                   'searched %s' % [[str(x_) for x_ in p_] for p_ in searched[:2]], node=cb, key='sites %s %s' % (setting, tag))
    # several species: the species compared across the lattice sites is that of the atom found at each site, wherever those atoms are listed
    class At2(PyStub):
        atype = arr([2, 1, 1, 2, 1])

    class Uc2(PyStub):
        box, atoms = Bx(), At2()
    for tag, hits, want in (('atoms of one species at both sites, another species listed first', [1, 2], True), ('different species at the two sites', [1, 3], False), ('the first-listed atom at the second site', [4, 0], False)):
        k = []

        def iop2(system, pos, **kw_):
            k.append(1)
            m = np.zeros(5, dtype=bool)
            m[hits[min(len(k), len(hits)) - 1]] = True
            return m
        ev = SymEval(module_aliases(ctx.mod(C2P)))
        ev.globals = {'index_of_pos': iop2}
        try:
            r = [q for q in ev.run_fn(cb, [Uc2(), 'i'], {}) if q.done == 'return']
        except (Opaque, WouldRaise) as e:
            raise AnalysisError('check_setting_basis (two species, %s): %s' % (tag, e))
        ctx.ob('CENTERING', loc, 'body-centred setting, %s: the answer is %s (the species at a site is that of the atom found there)' % (tag, want), len(r) == 1 and bool(r[0].ret) == want,
               'answered %s' % ([bool(q.ret) for q in r],), node=cb, key='species ' + tag[:30])


def conversion(ctx):
    d = ctx.fn(C2P, 'dump')
    loc = C2P + '::dump'
    # the body of the converter, interpreted with recording stubs on a 16-atom model supercell
    SH = symarray('sh', (3,), real=True)
    P0 = symarray('q', (16, 3), real=True)
    PV = symarray('pv', (3, 3), real=True)

    def convert(inside_true, setting='f', near_zero=None, natoms=16):
        log = []
        P0 = symarray('q', (natoms, 3), real=True)

        class _A(PyStub):
            def __init__(self, pos, tag):
                self.pos, self.tag = pos, tag

            def __getitem__(self, ix):
                log.append(('slice', self.tag, np.asarray(ix)))
                m = np.asarray(ix)
                return _A(self.pos[m.astype(bool)] if m.dtype != object else self.pos[np.array([bool(v) for v in m])], 'kept')

        class _PS(PyStub):
            natoms = len(P0)
            atoms = _A(P0.copy(), 'supercell')

            box = type('_B', (PyStub,), {'vects': PV})()

            def wrap(self):
                log.append(('wrap', 'supercell', self.atoms.pos.copy()))

        class _Sys(PyStub):
            symbols = ('Al', 'Cu')

            def rotate(self, uvws, return_transform=False):
                log.append(('rotate', uvws, return_transform))
                return _PS(), 'TRANSFORM'

        class _Bx(PyStub):
            def __init__(self, vects=None, **kw):
                self.vects_given = vects
                log.append(('Box', vects, kw))

            def inside(self, pos):
                log.append(('inside', np.array(pos, dtype=object)))
                return np.array([i in inside_true for i in range(len(P0))])

        class _New(PyStub):
            def __init__(self, **kw):
                self.kw = kw
                self.atoms = kw.get('atoms')
                log.append(('System', kw))

            @property
            def natoms(self):
                return len(self.atoms.pos)

            def wrap(self):
                log.append(('wrap', 'primitive', self.atoms.pos.copy()))

            def dmag(self, a_, b_):
                n_ = self.natoms
                return arr([0 if (near_zero is not None and i == near_zero) else sp.Rational(1, 2) + i for i in range(n_)])

        class _Mil(PyStub):
            def vector_primitive_to_conventional(self, M, setting=None):
                log.append(('p2c', np.asarray(M, dtype=object), setting))
                return 'CPS_UVWS'
        ev = SymEval(module_aliases(ctx.mod(C2P)))
        ev.globals = {'check_setting_basis': lambda *a_, **k: True, 'miller': _Mil(), 'Box': _Bx, 'System': lambda **kw: _New(**kw), 'int': lambda x: x, 'range': lambda n_: list(range(int(n_)))}
        ev.np_override = {'numpy.isclose': lambda x, y, **k: np.array([bool(sp.sympify(v) == y) for v in np.ravel(x)]).reshape(np.shape(x))}
        try:
            paths = ev.run_fn(d, [_Sys()], dict(setting=setting, smallshift=SH, return_transform=True))
        except WouldRaise as e:
            return 'raise', log, None
        except Opaque as e:
            raise AnalysisError('conventional_to_primitive.dump on the model supercell: %s' % e)
        live = [q for q in paths if q.done == 'return']
        return ('ok', log, live[0].ret) if len(live) == 1 else ('raise', log, None)
    st_, log, ret = convert({3, 11})
    p2c_ = [l for l in log if l[0] == 'p2c']
    rot_ = [l for l in log if l[0] == 'rotate']
    ok = st_ == 'ok' and len(p2c_) == 1 and equal(p2c_[0][1], 2 * np.array(sp.eye(3).tolist(), dtype=object), deep=False) and p2c_[0][2] == 'f' and len(rot_) == 1 and rot_[0][1] == 'CPS_UVWS' and rot_[0][2] is True
    ctx.ob('CONVERSION', loc, 'conventional→primitive re-expresses the cell along multip × the primitive vectors (in conventional indices) of the same setting, by rotate(), keeping the returned transformation', bool(ok), node=d, key='c2p rotate')
    bx_ = [l for l in log if l[0] == 'Box']
    ok = st_ == 'ok' and len(bx_) == 1 and bx_[0][1] is not None and equal(np.asarray(bx_[0][1], dtype=object), PV / 2, deep=False)
    ctx.ob('CONVERSION', loc, 'the primitive cell is the supercell\'s vectors divided by multip', bool(ok), node=d)
    ins = [l for l in log if l[0] == 'inside']
    wr = [l for l in log if l[0] == 'wrap' and l[1] == 'supercell']
    ok = st_ == 'ok' and len(ins) == 1 and equal(ins[0][1], P0 + SH, deep=False)
    ctx.ob('CONVERSION', loc, 'the atoms kept are those inside the primitive cell, tested on the positions moved by the boundary-avoiding small shift', bool(ok), node=d)
    sl = [l for l in log if l[0] == 'slice' and l[1] == 'supercell']
    sysl = [l for l in log if l[0] == 'System']
    kept_ok = len(sl) == 1 and [int(i) for i in np.nonzero(np.asarray(sl[0][2]).astype(bool))[0]] == [3, 11]
    ok = st_ == 'ok' and kept_ok and len(wr) == 2 and equal(wr[-1][2], P0, deep=False) and [i for i, l in enumerate(log) if l is wr[-1]][0] < [i for i, l in enumerate(log) if l is sl[0]][0] and len(sysl) == 1 and sysl[0][1].get('symbols') == ('Al', 'Cu')
    ctx.ob('CONVERSION', loc, 'the small shift is undone (and the supercell wrapped) before the kept atoms are cut out with their original positions; symbols carried over', bool(ok), node=d, key='shift undone')
    ok = st_ == 'ok' and isinstance(ret, tuple) and len(ret) == 2 and ret[1] == 'TRANSFORM' and sysl and ret[0].kw is sysl[0][1]
    ctx.ob('CONVERSION', loc, 'the primitive system is returned with the transformation rotate() gave', bool(ok), node=d, key='c2p return')
    verd = [(k_, convert(set(k_))[0]) for k_ in ((3,), (3, 11, 12), ())]
    st4, log4, _r4 = convert({5}, setting='t1', natoms=27)
    bx4 = [l for l in log4 if l[0] == 'Box']
    p2c4 = [l for l in log4 if l[0] == 'p2c']
    ctx.ob('CONVERSION', loc, 'trigonal setting: the 3×3×3 primitive supercell is cut to the cell with vectors divided by 3, one atom in 27 kept',
           st4 == 'ok' and len(bx4) == 1 and equal(np.asarray(bx4[0][1], dtype=object), PV / 3, deep=False) and len(p2c4) == 1 and equal(p2c4[0][1], 3 * np.array(sp.eye(3).tolist(), dtype=object), deep=False), node=d, key='trigonal cut')
    st3, log3, _r = convert({0, 1, 2, 3, 4, 5, 6, 7, 8, 9, 10, 11, 12, 13, 14, 15}, setting='t1')
    ctx.ob('CONVERSION', loc, 'exactly natoms/multip³ atoms must lie in the primitive cell before it is cut out (fewer or more: refused)', all(v[1] == 'raise' for v in verd) and st3 == 'raise' and not [l for l in log3 if l[0] == 'System'],
           str(verd), node=d)
    # which setting is converted: the head of dump() evaluated with a stub lattice of known centering
    stop = [i for i, st in enumerate(d.body) if isinstance(st, ast.Assign) and norm(st.targets[0]) == 'cps_uvws']
    ctx.need(len(stop) == 1, 'conventional_to_primitive.dump: cps_uvws assignment not found')
    head = d.body[:stop[0] + 1]

    options = []          # the keyword options every call of the basis test received

    def resolve(asked, truth, check=True):
        used, tested = [], []

        def csb(system, setting=None, **kw):
            tested.append(setting)
            options.append(dict(kw))
            return setting == truth
        ev = SymEval(module_aliases(ctx.mod(C2P)))
        mil = SymObj(None, {}, 'miller')
        mil.attrs['vector_primitive_to_conventional'] = lambda m, setting=None: (used.append(setting), m)[1]
        pth = Path({'system': SymObj(None, {}, 'system'), 'setting': asked, 'smallshift': None, 'rtol': sp.Symbol('rtol'), 'atol': sp.Symbol('atol'), 'check_basis': check,
                    'check_family': sp.Symbol('check_family'), 'return_transform': False, 'check_setting_basis': csb, 'miller': mil})
        try:
            out = ev.block(head, [pth])
        except WouldRaise:
            return 'raise'
        except Opaque as e:
            raise AnalysisError('conventional_to_primitive.dump head: %s' % e)
        if all(q.done == 'raise' for q in out):
            return 'raise'
        return used[-1] if len(used) == 1 else 'ambiguous %s' % used
    bad = []
    for s_ in SETTINGS:
        for truth in SETTINGS:
            r = resolve(s_, truth)
            want = s_ if s_ == truth else 'raise'
            if r != want:
                bad.append('setting=%s on a %s lattice: %s (expected %s)' % (s_, truth, r, want))
        if resolve(s_, 'p', check=False) != s_:
            bad.append('setting=%s unchecked: %s' % (s_, resolve(s_, 'p', check=False)))
    for truth in SETTINGS:
        r = resolve('t', truth)
        want = truth if truth in ('t1', 't2') else 'raise'
        if r != want:
            bad.append('setting=t on a %s lattice: %s (expected %s)' % (truth, r, want))
    ctx.ob('CONVERSION', loc, 'the setting converted is the one asked for when the cell has that centering, the generic t resolves to whichever of t1 / t2 the cell has, and any other combination is refused',
           not bad, '; '.join(bad[:4]), node=d, key='setting resolution')
    want_opts = {'rtol': sp.Symbol('rtol'), 'atol': sp.Symbol('atol'), 'check_family': sp.Symbol('check_family')}
    wrong = [o for o in options if any(o.get(k_) != v_ for k_, v_ in want_opts.items())]
    ctx.ob('CONVERSION', loc, 'every call of the basis test receives the caller\'s tolerances and check_family option (explicit settings and the generic t alike)',
           bool(options) and not wrong, 'a call received %s' % ({k_: str(v_) for k_, v_ in wrong[0].items()} if wrong else None), node=d, key='basis test options')
    d2 = ctx.fn(P2C, 'dump')
    c = [x for x in calls_in(d2) if norm(x.func) == 'miller.vector_conventional_to_primitive']
    ok = len(c) == 1 and norm(c[0].args[0]) in ('np.identity(3)', 'np.eye(3)') and norm(kwarg(c[0], 'setting', 1)) == 'setting'
    r = [x for x in calls_in(d2) if norm(x.func) == 'system.rotate']
    ok = ok and len(r) == 1 and norm(r[0].args[0]) == norm(assigns_to(d2, 'p2c_uvws')[0].targets[0])
    ctx.ob('CONVERSION', P2C + '::dump', 'primitive→conventional re-expresses the cell along the conventional vectors (in primitive indices) of the same setting, by rotate()', bool(ok), node=d2)


def _same_on_integers(got, want, U, bound=2):
    """equality of two expressions in the nine integer indices: by algebra if the computer-algebra system can show it, else on every index matrix with entries in
    -bound..bound for the three indices the expressions depend on (min / max of subset sums have several closed forms the CAS does not identify)"""
    got, want = sp.sympify(got), sp.sympify(want)
    if sp.simplify(got - want) == 0:
        return True
    syms = sorted((got.free_symbols | want.free_symbols), key=str)
    if not syms or len(syms) > 4 or not all(s_ in set(np.ravel(U)) for s_ in syms):
        return False
    for vals in itertools.product(range(-bound - 1, bound + 2), repeat=len(syms)):
        sub = dict(zip(syms, vals))
        if sp.simplify(got.subs(sub) - want.subs(sub)) != 0:
            return False
    return True


def _rotate_head(ctx, fn, loc):
    """the guards at the top of rotate(), by evaluation: the function is run on concrete index sets until it asks for the Cartesian images of the indices; what it
    asks them for (or that it refuses first) is the verdict"""
    R = sp.Rational

    class _Stop(Exception):
        pass

    def head(uvws, hexagonal):
        asked, conv = [], []

        class _Bx(PyStub):
            volume = sp.Integer(1)

            def ishexagonal(self, *a, **k):
                return hexagonal

        class _Mil(PyStub):
            def vector4to3(self, u):
                conv.append(('vector4to3', np.asarray(u, dtype=object)))
                u = np.asarray(u, dtype=object)
                out = np.empty(u.shape[:-1] + (3,), dtype=object)
                out[..., 0], out[..., 1], out[..., 2] = 2 * u[..., 0] + u[..., 1], 2 * u[..., 1] + u[..., 0], u[..., 3]
                return out

            def plane4to3(self, u):
                conv.append(('plane4to3', np.asarray(u, dtype=object)))
                return np.asarray(u, dtype=object)[..., [0, 1, 3]]

            def vector_crystal_to_cartesian(self, u, box=None):
                asked.append(np.asarray(u, dtype=object))
                raise WouldRaise('the head is over: the Cartesian images are asked for')
        selfobj = SymObj(None, {'natoms': sp.Integer(2), 'box': _Bx()}, 'self')
        ev = SymEval(module_aliases(ctx.mod(SYS)))
        ev.globals = {'miller': _Mil()}
        try:
            paths = ev.run_fn(fn, [selfobj, uvws], {})
        except WouldRaise:
            if asked:
                return 'accepted', asked[0], conv
            return 'refused', None, conv
        except Opaque as e:
            raise AnalysisError('rotate(): head on %s: %s' % (np.shape(uvws), e))
        if all(q.done == 'raise' for q in paths):
            return 'refused', None, conv
        return 'no conversion asked for', None, conv
    M = [[1, -1, 0], [1, 1, 0], [0, 0, 2]]
    for tag, uv, hexa, want in (('whole-number indices given as numbers with a fraction part of zero', arr(M), False, arr(M)),
                                ('the same as a nested list', [list(r) for r in M], False, arr(M)),
                                ('indices a rounding error away from whole numbers', arr([[1 + R(1, 10 ** 12), -1, 0], [1, 1 - R(1, 10 ** 13), 0], [0, 0, 2]]), False, arr(M)),
                                ('an index of one half', arr([[1, R(1, 2), 0], [1, 1, 0], [0, 0, 2]]), False, None),
                                ('two vectors only', arr(M[:2]), False, None),
                                ('four-index vectors in a hexagonal cell', arr([[2, -1, -1, 0], [-1, 2, -1, 0], [0, 0, 0, 1]]), True, arr([[3, 0, 0], [0, 3, 0], [0, 0, 1]])),
                                ('four-index vectors in a cell that is not hexagonal', arr([[2, -1, -1, 0], [-1, 2, -1, 0], [0, 0, 0, 1]]), False, None)):
        st, got, conv = head(uv, hexa)
        if want is None:
            ctx.ob('ROTATE', loc, '%s: refused' % tag, st == 'refused', 'the call is %s' % st, node=fn, key='head ' + tag[:30])
        else:
            ok = st == 'accepted' and np.shape(got) == (3, 3) and all(isinstance(sp.nsimplify(x), sp.Integer) or sp.nsimplify(x) == int(sp.nsimplify(x)) for x in np.ravel(got)) \
                and equal(np.asarray(got, dtype=object), want, deep=False) and (len(np.shape(uv)) != 2 or np.shape(uv)[1] != 4 or [c[0] for c in conv] == ['vector4to3'])
            ctx.ob('ROTATE', loc, '%s: accepted, and the indices whose Cartesian images are taken are the whole numbers (four-index lattice vectors converted as vectors: U = 2u + v, V = 2v + u)' % tag, bool(ok),
                   'the call is %s, images asked for %s, conversions %s' % (st, None if got is None else got.tolist(), [c[0] for c in conv]), node=fn, key='head ' + tag[:30])


def rotate(ctx):
    fn = ctx.fn(SYS, 'System.rotate')
    loc = SYS + '::System.rotate'
    _rotate_head(ctx, fn, loc)
    z = [s for s in ast.walk(fn) if isinstance(s, ast.If) and norm(s.test).replace(' ', '') == 'newnatoms==0' and any(isinstance(x, ast.Raise) for x in s.body)]
    ctx.ob('ROTATE', loc, 'parallel or coplanar vectors (zero volume) are refused', len(z) == 1, node=fn)
    nn = assigns_to(fn, 'newnatoms')
    ok = False
    if len(nn) == 1:
        ev = SymEval()
        ev.aliases.update({'np': 'numpy'})
        nv, vv, na = sp.symbols('newvolume volume natoms', positive=True)
        try:
            val = ev.ev(nn[0].value, Path({'newvolume': nv, 'volume': vv, 'natoms': na, 'round': lambda x: x, 'int': lambda x: x}))
            ok = sp.simplify(val - nv / vv * na) == 0
        except Opaque:
            ok = False
    ctx.ob('ROTATE', loc, 'the expected atom count is natoms × (new volume / old volume)', ok, norm(nn[0].value) if nn else '', node=nn[0] if nn else fn)
    vol = assigns_to(fn, 'newvolume')
    ok = False
    if len(vol) == 1:
        W = symarray('w', (3, 3), real=True)
        ev = SymEval({'np': 'numpy'})
        try:
            val = ev.ev(vol[0].value, Path({'newvects': W}))
            ok = sp.expand(val ** 2 - sp.Matrix(W.tolist()).det() ** 2) == 0
            # ... and positive for a left-handed set of vectors too (the count of atoms expected is a volume ratio)
            for Wc in ([[0, 2, 0], [2, 0, 0], [0, 0, 2]], [[2, 0, 0], [0, 2, 0], [0, 0, 2]], [[-1, 0, 0], [0, 3, 0], [1, 0, 2]]):
                vc = SymEval({'np': 'numpy'}).ev(vol[0].value, Path({'newvects': np.array([[sp.Integer(x) for x in r] for r in Wc], dtype=object)}))
                ok = ok and sp.simplify(sp.sympify(vc) - abs(sp.Matrix(Wc).det())) == 0
        except Opaque:
            ok = False
    ctx.ob('ROTATE', loc, 'the new volume is |a\'·(b\'×c\')| of the new vectors, positive for left-handed sets of vectors as well', ok, node=vol[0] if vol else fn)
    nvs = assigns_to(fn, 'newvects')
    ctx.ob('ROTATE', loc, 'the new vectors are the Cartesian images of the integer indices in the current cell', len(nvs) == 1 and norm(nvs[0].value).replace(' ', '') == 'miller.vector_crystal_to_cartesian(uvws,box=self.box)', node=fn)
    # bounding multipliers: the branch that builds the supercell is interpreted on symbolic integer indices up to the supersize() call
    ss = [c for c in calls_in(fn) if norm(c.func) == 'self.supersize']
    ctx.need(len(ss) == 1, 'rotate(): the supersize call was not found')
    stmt = ss[0]
    while not isinstance(stmt, ast.stmt):
        stmt = stmt._parent
    holder = stmt._parent
    body = holder.orelse if isinstance(holder, ast.If) and any(x is stmt for x in holder.orelse) else holder.body
    upto = body[:[i for i, x in enumerate(body) if x is stmt][0] + 1]
    U = symarray('u', (3, 3), integer=True)
    NVs = symarray('nv', (3, 3), real=True)
    got_m = []

    class _Bx(PyStub):
        volume = sp.Symbol('volume', positive=True)

    class _Mil(PyStub):
        def vector_crystal_to_cartesian(self, u, box=None):
            return NVs
    selfobj = SymObj(None, {'natoms': sp.Symbol('natoms', positive=True, integer=True), 'box': _Bx(), 'supersize': lambda *m: (got_m.append(m), 'SYSTEM2')[1]}, 'self')
    ev = SymEval(module_aliases(ctx.mod(SYS)))
    ev.globals = {'miller': _Mil(), 'round': lambda x: x, 'int': lambda x: x}
    ev.decide = lambda text, v, p_: False if 'newnatoms' in text else None      # the zero-volume refusal is judged separately
    try:
        ev.block(upto, [Path({'uvws': U, 'self': selfobj, 'tol': [sp.Rational(1, 10 ** 4)], 'return_transform': False})])
    except (Opaque, WouldRaise) as e:
        raise AnalysisError('rotate(): bounding multipliers: %s' % e)
    corners = [a_ * U[0] + b_ * U[1] + c_ * U[2] for a_, b_, c_ in itertools.product((0, 1), repeat=3)]
    okm = len(got_m) == 1 and len(got_m[0]) == 3
    det_m = ''
    if okm:
        for k in range(3):
            col = [c_[k] for c_ in corners]
            mk = got_m[0][k]
            good = isinstance(mk, (tuple, list)) and len(mk) == 2 and _same_on_integers(mk[0], sp.Min(*col) - 1, U) and _same_on_integers(mk[1], sp.Max(*col) + 1, U)
            ctx.ob('ROTATE', loc, 'replication range along %s is (smallest corner index − 1, largest corner index + 1) over all eight corners of the new cell' % 'abc'[k], bool(good), str(mk)[:160], node=ss[0], key='mults ' + 'abc'[k] + '_mults')
    else:
        ctx.ob('ROTATE', loc, 'the bounding supercell is built from three replication ranges', False, str(got_m)[:200], node=ss[0], key='mults')
    # selection and gate: the rest of that branch interpreted on a small model supercell (which rows a mask selects; when the cut-out is built)
    rest = body[len(upto):]
    R_ = sp.Rational
    eps = R_(1, 10 ** 6)
    SP = [[R_(1, 4), R_(1, 2), R_(3, 4)],      # 0 inside
          [0, 0, 0],                             # 1 on the three lower faces: kept
          [1, R_(1, 2), R_(1, 2)],               # 2 on an upper face: not kept
          [R_(1, 2), 1 - eps, R_(1, 2)],         # 3 within every ladder tolerance of an upper face: rounded up, not kept
          [R_(1, 2), R_(1, 2), -eps],            # 4 just below a lower face: rounded to it, kept
          [R_(-1, 4), R_(1, 2), R_(1, 2)],       # 5 outside
          [R_(1, 2), R_(5, 4), R_(1, 2)],        # 6 outside
          [R_(9, 10), R_(1, 10), R_(999, 1000)]]  # 7 inside
    keep_want = [0, 1, 4, 7]

    def run_rest(newnatoms):
        made_sys, picked, boxset = [], [], []

        class _At(PyStub):
            def __getitem__(self, ix):
                picked.append(ix)
                return ('ATOMS', ix)

        class _S2(PyStub):
            atoms = _At()
            box = 'BOX2'

            def box_set(self, **kw):
                boxset.append(kw)

            def atoms_prop(self, key=None, scale=False, **k):
                if key != 'pos' or scale is not True:
                    raise Opaque('atoms_prop(%s, scale=%s)' % (key, scale))
                return np.array(SP, dtype=object)

        class _New(PyStub):
            def __init__(self, **kw):
                self.kw = kw
                made_sys.append(self)

            def normalize(self, **kw):
                return ('NORMALIZED', self, kw)

        def close(x, y, rtol=R_(1, 10 ** 5), atol=R_(1, 10 ** 8), **k):
            f = lambda v: bool(sp.Abs(sp.sympify(v) - y) <= atol + rtol * abs(y))
            return np.array([f(v) for v in np.ravel(x)]).reshape(np.shape(x)) if np.ndim(x) else f(x)
        ev3 = SymEval(module_aliases(ctx.mod(SYS)))
        ev3.globals = {'System': lambda **kw: _New(**kw)}
        ev3.np_override = {'numpy.isclose': close}
        env = {'system2': _S2(), 'newnatoms': sp.Integer(newnatoms), 'newvects': NVs, 'tol': [R_(1, 10 ** 4), R_(1, 10 ** 5)], 'self': SymObj(None, {'symbols': ('Al', 'Cu')}, 'self'), 'return_transform': False, 'uvws': U}
        try:
            q = ev3.block(rest, [Path(env)])
        except WouldRaise as e:
            return 'raise', made_sys, picked, boxset
        except Opaque as e:
            raise AnalysisError('rotate(): selection of the atoms inside the new cell: %s' % e)
        if all(x.done == 'raise' for x in q):
            return 'raise', made_sys, picked, boxset
        return 'ok', made_sys, picked, boxset
    st_, made_sys, picked, boxset = run_rest(len(keep_want))
    sel = None
    if picked:
        ix = picked[-1]
        ix = ix[0] if isinstance(ix, tuple) else ix
        ix = np.asarray(ix)
        sel = sorted(int(v) for v in (np.nonzero(ix)[0] if ix.dtype == bool else ix.ravel()))
    ctx.ob('ROTATE', loc, 'atoms kept are those with all three relative coordinates in [0, 1) after rounding values within the tolerance of 0 or 1 onto the face (model supercell of eight atoms)', st_ == 'ok' and sel == keep_want,
           'selected %s, expected %s' % (sel, keep_want), node=fn, key='inside model')
    ok = st_ == 'ok' and len(made_sys) == 1 and made_sys[0].kw.get('box') == 'BOX2' and made_sys[0].kw.get('symbols') == ('Al', 'Cu') and isinstance(made_sys[0].kw.get('atoms'), tuple) and made_sys[0].kw['atoms'][0] == 'ATOMS'
    ctx.ob('ROTATE', loc, 'the cut-out takes the found atoms, the re-vectored box and the original symbols', bool(ok), node=fn)
    ok = len(boxset) == 1 and boxset[0].get('vects') is NVs and boxset[0].get('scale', False) is False
    ctx.ob('ROTATE', loc, 'the supercell is re-vectored to the new vectors holding absolute positions before the selection', bool(ok), str(boxset)[:120], node=fn, key='revector')
    verdicts = []
    for nn_ in (3, 5, 0 + 8):
        st2, made2, _p, _b = run_rest(nn_)
        verdicts.append((nn_, st2, len(made2)))
    ctx.ob('ROTATE', loc, 'the cut-out system is constructed only after the number of atoms found equals the expected count (fewer or more found: refused, nothing built)', all(v[1] == 'raise' and v[2] == 0 for v in verdicts),
           str(verdicts), node=fn, key='gate')
    # the tolerance ladder: nothing rounded in place under one tolerance may leak into the next
    lad = [s for s in ast.walk(fn) if isinstance(s, ast.For) and norm(s.iter) == 'tol']
    ctx.need(len(lad) == 1, 'rotate(): tolerance loop not found')
    leaks = []
    for st in ast.walk(lad[0]):
        tg = None
        if isinstance(st, ast.Assign) and isinstance(st.targets[0], ast.Subscript):
            tg = st.targets[0]
        elif isinstance(st, ast.AugAssign):
            tg = st.target
        if tg is None:
            continue
        base = tg
        while isinstance(base, (ast.Subscript, ast.Attribute)):
            base = base.value
        if not isinstance(base, ast.Name):
            continue
        fresh = [a for a in lad[0].body if isinstance(a, ast.Assign) and norm(a.targets[0]) == base.id and a.lineno < st.lineno and isinstance(a.value, ast.Call)
                 and norm(a.value.func) not in ('np.asarray', 'np.asanyarray', 'np.array') or
                 isinstance(a, ast.Assign) and norm(a.targets[0]) == base.id and a.lineno < st.lineno and isinstance(a.value, ast.Call) and norm(a.value.func) == 'np.array' and kwarg(a.value, 'copy') is None]
        if not fresh:
            leaks.append('%s written in place at line %d without a fresh value in this pass' % (base.id, st.lineno))
    ctx.ob('ROTATE', loc, 'every tolerance of the search ladder starts from the unrounded positions (whatever the loop changes in place is recomputed inside the loop)', not leaks, '; '.join(leaks[:3]),
           node=lad[0], key='ladder fresh')
    ret = [s for s in ast.walk(fn) if isinstance(s, ast.Return)]
    ctx.ob('ROTATE', loc, 'the result is normalised (LAMMPS-compatible, atoms inside) and the transformation handed back on request',
           len(ret) == 1 and norm(ret[0].value).replace(' ', '') == 'newsystem.normalize(return_transform=return_transform)', node=fn)


def origin_anchor(ctx):
    """the cut-out cell must be anchored where the bounding supercell is (for any cell origin)"""
    fn = ctx.fn(SYS, 'System.rotate')
    loc = SYS + '::System.rotate'
    bs = [c for c in calls_in(fn) if norm(c.func) == 'system2.box_set']
    ctx.need(len(bs) == 1, 'rotate(): system2.box_set call not found')
    c = bs[0]
    kws = {k.arg: k.value for k in c.keywords}
    ctx.ob('ROTATE', loc, 'the supercell is re-vectored holding absolute positions (scale is not True)', not (isinstance(kws.get('scale'), ast.Constant) and kws['scale'].value is True) and norm(kws.get('vects')) == 'newvects', node=c)
    # where does Box.set(vects=...) put the origin when none is passed?
    from .c01 import _env, _box, BOX
    ev, cls, shape, plane, va = _env(ctx)
    o = symarray('o', (3,), real=True)
    box = _box(cls, shape, None, o)
    W = symarray('w', (3, 3), real=True)
    st = ctx.fn(BOX, 'Box.set')
    kw = {'vects': W}
    if 'origin' in kws:
        try:
            kw['origin'] = SymEval().ev(kws['origin'], Path({'self': SymObj(None, {'box': SymObj(None, {'origin': o}, 'box')}, 'self'), 'system2': SymObj(None, {'box': SymObj(None, {'origin': sp.Symbol('SUPER')}, 'b')}, 's2')}))
        except Opaque:
            kw['origin'] = None
    ev.call_fn(st, [box], kw, Path({}))
    anchored = box.attrs['_Box__origin']
    # the bounding supercell is anchored at self.box.origin + lo·vects; the cut-out cell contains the lattice points 0..corners from ITS origin.
    # Containment for every cell origin needs the cut-out origin to follow the cell origin.
    follows = equal(anchored, o, deep=False) or (not is_zero(anchored, deep=False) and all(o[i] in sp.sympify(anchored[i]).free_symbols for i in range(3)))
    # normalize() rebuilds the cell from (a,b,c,angles) holding scaled positions; without an origin argument the origin becomes zero,
    # so whatever origin the cut-out cell has is subtracted (rotated) from every atom: it must be zero for the result to be the same crystal
    nf = ctx.fn(NRM, 'normalize')
    nb = [c2 for c2 in calls_in(nf) if norm(c2.func) == 'system.box_set' and any(k.arg == 'alpha' for k in c2.keywords)]
    carries = bool(nb) and any(k.arg == 'origin' for k in nb[0].keywords)
    ctx.ob('ORIGIN', loc, 'no net translation: the cut-out cell\'s origin is zero, or normalize() carries the origin through its rebuild', is_zero(anchored, deep=False) or carries,
           'the cut-out cell is anchored at %s but normalize() rebuilds the cell at origin zero holding scaled positions: every atom is shifted by minus that origin (rotated)' % [str(x) for x in anchored],
           node=c, key='origin dropped by normalize')
    ctx.ob('ORIGIN', loc, 'the cut-out cell is anchored at the cell\'s own origin (so it lies inside the bounding supercell for any origin)', bool(follows),
           'box_set(vects=newvects%s) anchors the cut-out cell at %s while the bounding supercell is anchored at origin + lo·vects: containment only holds for |origin| within one cell of 0' % (
               '' if 'origin' not in kws else ', origin=%s' % norm(kws['origin']), [str(x) for x in anchored]), node=c, key='cut-out anchored at absolute origin')


def preserve(ctx):
    cases = [(SYS, 'System.supersize', {'self'}), (SYS, 'System.rotate', {'self'}), (C2P, 'dump', {'system'}), (P2C, 'dump', {'system'}), (NRM, 'normalize', {'system'})]
    summ = {'self.box.vects': ('fresh',), 'self.box.origin': ('fresh',), '.supersize': ('fresh',), '.rotate': ('fresh',), 'deepcopy': ('fresh',), '.atoms_prop': ('fresh',),
            'miller.vector_crystal_to_cartesian': ('fresh',), 'miller.vector4to3': ('fresh',), 'miller.vector_primitive_to_conventional': ('fresh',),
            'miller.vector_conventional_to_primitive': ('fresh',), 'System': ('fresh',), 'Atoms': ('fresh',), 'Box': ('fresh',), 'aslist': ('fresh',), 'check_setting_basis': ('fresh',),
            '.normalize': ('fresh',), '.inside': ('fresh',), '.dmag': ('fresh',)}
    from .c06 import _benign_local
    for rel, q, params in cases:
        fn = ctx.fn(rel, q)
        muts, eff = effects.param_mutations(fn, params, summaries=summ, mutating_methods=('wrap', 'box_set', 'set', 'atoms_prop'))
        muts = [m for m in muts if not _benign_local(m, fn)]
        ctx.ob('PRESERVE', '%s::%s' % (rel, q), 'the operation returns a new system and does not write to its operand', not muts,
               '; '.join('%s at line %d' % (w, nd.lineno) for nd, r, w in muts), node=muts[0][0] if muts else fn, key='preserve %s %s' % (rel, q))
    ctx.floor('PRESERVE', len(cases), 5)


def property_types(ctx):
    """per-atom property values are carried into the supercell in buffers of their own element type"""
    dtypeflow.same_type_buffers(ctx, 'PROPERTY-TYPES', SYS, 'System.supersize', 'self.atoms.view', floor=1)


def run(ctx):
    from .c05 import normalize as normalize_rules, normalize_state, wrap as wrap_rules
    from .c01 import scale_free_cleanup
    ctx.explanation = ('C04: supersize is evaluated on a model system with symbolic positions and a tagged property (image set, counts, cell); the centering tables are extracted and checked in exact '
                       'rationals (inverse pairs, determinants, lattice points, integrality of the supercell indices); conversion wiring; rotate() guards and bounding multipliers by evaluation on symbolic '
                       'integer indices; anchoring of the cut-out cell; operand preservation; normalize as in C05. Not decided: that the atoms kept are the right ones for a concrete cell.')
    ctx.run_rules([supersize, property_types, centering, basis_sites, conversion, rotate, origin_anchor, preserve, normalize_rules, normalize_state, wrap_rules, lambda c: scale_free_cleanup(c, 'CELL-SCALE') and None])
