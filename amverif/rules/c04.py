"""C04 Supercells and re-oriented cells.

Decided statically:
 * SUPERSIZE: System.supersize evaluated on a model system (2 atoms, symbolic scaled positions, a tagged per-atom
   property, symbolic cell) for several multiplier tuples: atom count = n·|m|, new vectors = old·m_i, origin shifted by
   lo_i·vect_i, and the result atoms are exactly {(atom j, lattice translation k) : k in the box of [lo_i, hi_i)} each
   once, carrying atom j's property row; zero multipliers and malformed tuples refused.
 * CENTERING (exact rationals): for the eight settings, p2c[s]·c2p[s] = I, c2p[s] integer with determinant
   (1,2,2,2,2,4,3,3), multip·p2c[s] integer for the multip the converter selects, the basis positions the converter
   checks are exactly the lattice points of p2c[s] modulo 1.
 * CONVERSION: conventional->primitive rotates by vector_primitive_to_conventional(multip·I) and cuts 1/multip³;
   primitive->conventional rotates by vector_conventional_to_primitive(I).
 * ROTATE: guards (non-integer indices refused, zero volume refused, the cut-out system is constructed only after the
   expected-count test), the bounding multipliers are (min-1, max+1) over the eight corners; ORIGIN: the cut-out
   cell is anchored where the bounding supercell is.
 * PRESERVE: supersize / rotate / the two converters / normalize do not write to their operand.
Declined: that the kept atoms are the right ones for every concrete cell (floating-point geometry).
"""
import ast
import itertools
from fractions import Fraction as F

import numpy as np
import sympy as sp

from ..core import norm, calls_in, kwarg, AnalysisError, string_dispatch, assigns_to, cmp_canon
from ..symx import SymEval, Path, SymObj, PyStub, symarray, is_zero, equal, Opaque, WouldRaise, module_aliases, arr
from .. import effects

SYS = 'atomman/core/System.py'
MIL = 'atomman/tools/miller.py'
C2P = 'atomman/dump/conventional_to_primitive/dump.py'
P2C = 'atomman/dump/primitive_to_conventional/dump.py'
NRM = 'atomman/lammps/normalize.py'
SETTINGS = ['p', 'a', 'b', 'c', 'i', 'f', 't1', 't2']
DETS = {'p': 1, 'a': 2, 'b': 2, 'c': 2, 'i': 2, 'f': 4, 't1': 3, 't2': 3}


class StubAtoms(PyStub):
    def __init__(self, natoms=None, view=None):
        self.view = view if view is not None else {}
        self.natoms = natoms if natoms is not None else len(next(iter(self.view.values())))

    @property
    def pos(self):
        if 'pos' not in self.view:
            raise Opaque('atoms.pos of an Atoms without positions')
        return self.view['pos']


class StubBox(PyStub):
    def __init__(self, vects=None, origin=None):
        self.vects_, self.origin_ = np.array(vects, dtype=object), np.array(origin, dtype=object)

    @property
    def vects(self):
        return self.vects_.copy()

    @property
    def origin(self):
        return self.origin_.copy()

    @property
    def reciprocal_vects(self):
        import sympy as sp
        return np.array(sp.Matrix(self.vects_.tolist()).inv().T.tolist(), dtype=object)

    def position_cartesian_to_relative(self, pos):
        return np.inner(np.asarray(pos, dtype=object) - self.origin_, self.reciprocal_vects)

    def position_relative_to_cartesian(self, rel):
        return np.asarray(rel, dtype=object).dot(self.vects_) + self.origin_


class StubSystem(PyStub):
    def __init__(self, **kw):
        self.kw = kw


def supersize(ctx):
    fn = ctx.fn(SYS, 'System.supersize')
    loc = SYS + '::System.supersize'
    aliases = module_aliases(ctx.mod(SYS))
    V = symarray('v', (3, 3), real=True)
    o = symarray('o', (3,), real=True)
    S = symarray('s', (2, 3), real=True)
    tag = symarray('g', (2, 2), real=True)
    cases = [(2, 1, 1), ((-1, 1), 2, 1), (-2, (0, 1), (-1, 0)), (1, 1, 3)]
    n = 0
    for sizes in cases:
        n += 1
        atoms = StubAtoms(view={'atype': arr([1, 2]), 'pos': S.dot(V) + o, 'tag': tag.copy()})   # Cartesian positions consistent with the scaled ones

        def atoms_prop(key=None, value=None, scale=False, **k):
            if key is None:
                return list(atoms.view.keys())
            if key == 'pos' and scale:
                return S.copy()
            raise Opaque('atoms_prop(%r)' % key)
        me = SymObj(None, {'box': StubBox(V, o), 'atoms_prop': atoms_prop, 'atoms': atoms, 'natoms': 2, 'symbols': ('A', 'B')}, 'self')
        ev = SymEval(aliases)
        env = {'self': me, 'a_size': sizes[0], 'b_size': sizes[1], 'c_size': sizes[2], 'Box': lambda vects=None, origin=None: StubBox(vects, origin),
               'Atoms': lambda natoms=None: StubAtoms(natoms=int(natoms), view={}), 'System': lambda **kw: StubSystem(**kw)}
        try:
            paths = ev.run_fn(fn, env=env)
        except Opaque as e:
            raise AnalysisError('supersize left the vocabulary for sizes %s: %s' % (sizes, e))
        live = [p for p in paths if p.done == 'return']
        ctx.need(len(live) == 1 and isinstance(live[0].ret, StubSystem), 'supersize%s does not return one System' % (sizes,))
        res = live[0].ret.kw
        rng = []
        for sz in sizes:
            rng.append((0, sz) if isinstance(sz, int) and sz > 0 else ((sz, 0) if isinstance(sz, int) else sz))
        m = [hi - lo for lo, hi in rng]
        tg = 'sizes=%s' % (sizes,)
        box, at = res.get('box'), res.get('atoms')
        ok = isinstance(box, StubBox) and all(equal(box.vects_[i], V[i] * m[i], deep=False) for i in range(3))
        ctx.ob('SUPERSIZE', loc, '%s: new cell vectors are the old ones times the multipliers %s' % (tg, m), ok, node=fn, key='vects ' + tg)
        ok = isinstance(box, StubBox) and equal(box.origin_, o + sum(V[i] * rng[i][0] for i in range(3)), deep=False)
        ctx.ob('SUPERSIZE', loc, '%s: the origin moves by lo_i cell vectors' % tg, ok, node=fn, key='origin ' + tg)
        ok = isinstance(at, StubAtoms) and at.natoms == 2 * m[0] * m[1] * m[2] and res.get('scale') is True
        ctx.ob('SUPERSIZE', loc, '%s: atom count is natoms·%d and the positions are handed over as box-relative' % (tg, m[0] * m[1] * m[2]), ok, node=fn, key='count ' + tg)
        if not isinstance(at, StubAtoms) or 'pos' not in at.view or 'tag' not in at.view:
            ctx.ob('SUPERSIZE', loc, '%s: result carries pos and every property' % tg, False, str(sorted(getattr(at, 'view', {}))), node=fn, key='props ' + tg)
            continue
        pos, tg_arr, aty = at.view['pos'], at.view['tag'], at.view.get('atype')
        seen = {}
        bad = []
        for r in range(len(pos)):
            j = [k for k in range(2) if equal(tg_arr[r], tag[k], deep=False)]
            if len(j) != 1:
                bad.append('row %d carries no original atom\'s property row' % r)
                continue
            j = j[0]
            if aty is not None and not is_zero(aty[r] - (j + 1), deep=False):
                bad.append('row %d: type differs from atom %d' % (r, j))
            k = [sp.simplify(pos[r][i] * m[i] - S[j, i]) for i in range(3)]
            if not all(x.is_Integer and 0 <= int(x) < m[i] for i, x in enumerate(k)):
                bad.append('row %d: not atom %d plus an in-range lattice translation (%s)' % (r, j, k))
                continue
            seen[(j, tuple(int(x) for x in k))] = seen.get((j, tuple(int(x) for x in k)), 0) + 1
        want = {(j, k) for j in range(2) for k in itertools.product(*[range(x) for x in m])}
        ok = not bad and set(seen) == want and all(c == 1 for c in seen.values())
        ctx.ob('SUPERSIZE', loc, '%s: the result is every original atom at every lattice translation of the replication box exactly once, with its own type and property row' % tg, ok,
               '; '.join(bad[:3]) or 'images %d, expected %d' % (len(seen), len(want)), node=fn, key='images ' + tg)
        ctx.ob('SUPERSIZE', loc, '%s: symbols are carried over' % tg, res.get('symbols') == ('A', 'B'), node=fn, key='symbols ' + tg)
    ctx.floor('SUPERSIZE', n, 4)
    # refusals
    for sizes, what in (((0, 1, 1), 'a zero multiplier'), (((1, 2), 1, 1), 'a tuple with positive lower bound'), ((1.5, 1, 1), 'a non-integer multiplier'), (((0, 0), 1, 1), 'an empty range')):
        atoms = StubAtoms(view={'atype': arr([1, 2]), 'pos': symarray('x', (2, 3))})
        me = SymObj(None, {'box': StubBox(V, o), 'atoms_prop': lambda key=None, **k: S.copy() if key else ['atype', 'pos'], 'atoms': atoms, 'natoms': 2, 'symbols': ('A', 'B')}, 'self')
        ev = SymEval(aliases)
        try:
            paths = ev.run_fn(fn, env={'self': me, 'a_size': sizes[0], 'b_size': sizes[1], 'c_size': sizes[2], 'Box': lambda **k: StubBox(k['vects'], k['origin']),
                                       'Atoms': lambda natoms=None: StubAtoms(natoms=int(natoms), view={}), 'System': lambda **kw: StubSystem(**kw)})
            ok = all(p.done == 'raise' for p in paths)
        except WouldRaise:
            ok = True     # refused by an exception of the interpreter itself (e.g. subscripting an int)
        except Opaque:
            ok = False
        ctx.ob('SUPERSIZE', loc, '%s is refused' % what, ok, node=fn, key='refuse ' + what)


def _table(ctx, name):
    fn = ctx.fn(MIL, name)
    ev = SymEval(module_aliases(ctx.mod(MIL)))
    out = {}
    for s in SETTINGS:
        I = arr(sp.eye(3).tolist())
        try:
            r = ev.call_fn(fn, [I, s], {}, Path({}))
        except Opaque as e:
            raise AnalysisError('%s(setting=%r) left the vocabulary: %s' % (name, s, e))
        out[s] = sp.Matrix(np.asarray(r, dtype=object).tolist())
    return out, fn


def centering(ctx):
    p2c, f1 = _table(ctx, 'vector_primitive_to_conventional')
    c2p, f2 = _table(ctx, 'vector_conventional_to_primitive')
    loc1, loc2 = MIL + '::vector_primitive_to_conventional', MIL + '::vector_conventional_to_primitive'
    for s in SETTINGS:
        ctx.ob('CENTERING', loc2, 'setting %s: the two tables are mutually inverse' % s, (p2c[s] * c2p[s] - sp.eye(3)).is_zero_matrix and (c2p[s] * p2c[s] - sp.eye(3)).is_zero_matrix,
               'product %s' % (p2c[s] * c2p[s]).tolist(), node=f2, key='inverse ' + s)
        ctx.ob('CENTERING', loc2, 'setting %s: conventional vectors are integer combinations of primitive ones with determinant %d (lattice points per cell)' % (s, DETS[s]),
               all(x.is_Integer for x in c2p[s]) and c2p[s].det() == DETS[s], 'det %s' % c2p[s].det(), node=f2, key='det ' + s)
    ctx.floor('CENTERING', len(SETTINGS), 8)
    # unknown settings refused
    for name, fn in (('vector_primitive_to_conventional', f1), ('vector_conventional_to_primitive', f2)):
        ev = SymEval(module_aliases(ctx.mod(MIL)))
        try:
            paths = ev.run_fn(fn, [arr(sp.eye(3).tolist()), 'q'], {})
            ok = all(p.done == 'raise' for p in paths)
        except WouldRaise:
            t = [s for s in ast.walk(fn) if isinstance(s, ast.Try)]
            ok = len(t) == 1 and any(isinstance(x, ast.Raise) for h in t[0].handlers for x in h.body)
        except Opaque:
            ok = False
        ctx.ob('CENTERING', MIL + '::' + name, 'an unknown setting is refused', ok, node=fn, key='unknown ' + name)
    # the converter's multip and basis table
    d = ctx.fn(C2P, 'dump')
    mp = [s for s in ast.walk(d) if isinstance(s, ast.If) and any(isinstance(x, ast.Assign) and norm(x.targets[0]) == 'multip' for x in s.body)]
    ctx.need(len(mp) == 1, 'conventional_to_primitive.dump: the choice of multip was not found')
    ev = SymEval()
    chosen = {}
    for s in SETTINGS:
        p = Path({'setting': s})
        ev.block([mp[0]], [p])
        chosen[s] = int(p.env['multip'])
    for s in SETTINGS:
        M = chosen[s] * p2c[s]
        ctx.ob('CENTERING', C2P + '::dump', 'setting %s: the %d×%d×%d primitive supercell has integer conventional indices' % (s, chosen[s], chosen[s], chosen[s]), all(x.is_Integer for x in M), str(M.tolist()), node=mp[0], key='multip ' + s)
    cb = ctx.fn(C2P, 'check_setting_basis')
    arms = string_dispatch(cb.body, 'setting')
    for s in SETTINGS:
        ctx.need(s in arms, 'check_setting_basis: no arm for setting %s' % s)
        rp = [x for x in arms[s] if isinstance(x, ast.Assign) and norm(x.targets[0]) == 'relpos']
        ctx.need(len(rp) == 1, 'check_setting_basis: relpos of setting %s not found' % s)
        val = SymEval().ev(rp[0].value, Path({}))
        got = {tuple(sp.Rational(x) % 1 for x in row) for row in np.asarray(val, dtype=object).tolist()}
        pts = set()
        for nvec in itertools.product(range(-3, 4), repeat=3):
            v = sp.Matrix([nvec]) * p2c[s]
            pts.add(tuple(x % 1 for x in v))
        ctx.ob('CENTERING', C2P + '::check_setting_basis', 'setting %s: the basis positions tested are exactly the lattice points of the centering (mod 1), %d of them' % (s, DETS[s]),
               got == pts and len(got) == DETS[s], 'tested %s, lattice points %s' % (sorted(map(str, got)), sorted(map(str, pts))), node=rp[0], key='basis ' + s)


def conversion(ctx):
    d = ctx.fn(C2P, 'dump')
    loc = C2P + '::dump'
    c = [x for x in calls_in(d) if norm(x.func) == 'miller.vector_primitive_to_conventional']
    ok = len(c) == 1 and norm(c[0].args[0]).replace(' ', '') in ('multip*np.identity(3)', 'np.identity(3)*multip', 'multip*np.eye(3)') and norm(kwarg(c[0], 'setting', 1)) == 'setting'
    ctx.ob('CONVERSION', loc, 'conventional→primitive re-expresses the cell along multip × the primitive vectors (in conventional indices) of the same setting', ok, norm(c[0]) if c else '', node=d)
    r = [x for x in calls_in(d) if norm(x.func) == 'system.rotate']
    tgt = assigns_to(d, 'cps_uvws')
    ok = len(r) == 1 and tgt and norm(r[0].args[0]) == 'cps_uvws' and isinstance(kwarg(r[0], 'return_transform'), ast.Constant) and kwarg(r[0], 'return_transform').value is True
    ctx.ob('CONVERSION', loc, '... by rotate(), keeping the returned transformation', bool(ok), node=d)
    bx = [x for x in calls_in(d) if norm(x.func) == 'Box']
    ok = len(bx) == 1 and norm(kwarg(bx[0], 'vects')).replace(' ', '') == 'p_scell.box.vects/multip'
    ctx.ob('CONVERSION', loc, 'the primitive cell is the supercell\'s vectors divided by multip', ok, node=d)
    ne = assigns_to(d, 'num_expected')
    ok = len(ne) == 1 and sp.simplify(SymEval().ev(ne[0].value, Path({'p_scell': SymObj(None, {'natoms': sp.Symbol('N')}, 'p'), 'multip': sp.Symbol('m', positive=True)})) - sp.Symbol('N') / sp.Symbol('m', positive=True) ** 3) == 0
    asr = [s for s in d.body if isinstance(s, ast.Assert) and 'num_expected' in norm(s.test) and 'keepindex' in norm(s.test)]
    sl = [s for s in d.body if isinstance(s, ast.Assign) and norm(s.value) == 'p_scell.atoms[keepindex]']
    ok = ok and len(asr) == 1 and len(sl) == 1 and asr[0].lineno < sl[0].lineno
    ctx.ob('CONVERSION', loc, 'exactly natoms/multip³ atoms must lie in the primitive cell before it is cut out', bool(ok), node=d)
    ki = assigns_to(d, 'keepindex')
    ctx.ob('CONVERSION', loc, 'the atoms kept are those inside the primitive cell', len(ki) == 1 and norm(ki[0].value) == 'box.inside(p_scell.atoms.pos)', node=d)
    sh = [s for s in d.body if isinstance(s, ast.AugAssign) and norm(s.target) == 'p_scell.atoms.pos' and norm(s.value) == 'smallshift']
    ok = len(sh) == 2 and isinstance(sh[0].op, ast.Add) and isinstance(sh[1].op, ast.Sub) and ki and sh[0].lineno < ki[0].lineno < sh[1].lineno
    ctx.ob('CONVERSION', loc, 'the boundary-avoiding small shift is applied before the selection and undone after it', bool(ok), node=d)
    # which setting is converted: the head of dump() evaluated with a stub lattice of known centering
    stop = [i for i, st in enumerate(d.body) if isinstance(st, ast.Assign) and norm(st.targets[0]) == 'cps_uvws']
    ctx.need(len(stop) == 1, 'conventional_to_primitive.dump: cps_uvws assignment not found')
    head = d.body[:stop[0] + 1]

    def resolve(asked, truth, check=True):
        used, tested = [], []

        def csb(system, setting=None, **kw):
            tested.append(setting)
            return setting == truth
        ev = SymEval(module_aliases(ctx.mod(C2P)))
        mil = SymObj(None, {}, 'miller')
        mil.attrs['vector_primitive_to_conventional'] = lambda m, setting=None: (used.append(setting), m)[1]
        pth = Path({'system': SymObj(None, {}, 'system'), 'setting': asked, 'smallshift': None, 'rtol': sp.Symbol('rtol'), 'atol': sp.Symbol('atol'), 'check_basis': check,
                    'check_family': True, 'return_transform': False, 'check_setting_basis': csb, 'miller': mil})
        try:
            out = ev.block(head, [pth])
        except WouldRaise:
            return 'raise'
        except Opaque as e:
            raise AnalysisError('conventional_to_primitive.dump head: %s' % e)
        if all(q.done == 'raise' for q in out):
            return 'raise'
        return used[-1] if len(used) == 1 else 'ambiguous %s' % used
    bad = []
    for s_ in SETTINGS:
        for truth in SETTINGS:
            r = resolve(s_, truth)
            want = s_ if s_ == truth else 'raise'
            if r != want:
                bad.append('setting=%s on a %s lattice: %s (expected %s)' % (s_, truth, r, want))
        if resolve(s_, 'p', check=False) != s_:
            bad.append('setting=%s unchecked: %s' % (s_, resolve(s_, 'p', check=False)))
    for truth in SETTINGS:
        r = resolve('t', truth)
        want = truth if truth in ('t1', 't2') else 'raise'
        if r != want:
            bad.append('setting=t on a %s lattice: %s (expected %s)' % (truth, r, want))
    ctx.ob('CONVERSION', loc, 'the setting converted is the one asked for when the cell has that centering, the generic t resolves to whichever of t1 / t2 the cell has, and any other combination is refused',
           not bad, '; '.join(bad[:4]), node=d, key='setting resolution')
    d2 = ctx.fn(P2C, 'dump')
    c = [x for x in calls_in(d2) if norm(x.func) == 'miller.vector_conventional_to_primitive']
    ok = len(c) == 1 and norm(c[0].args[0]) in ('np.identity(3)', 'np.eye(3)') and norm(kwarg(c[0], 'setting', 1)) == 'setting'
    r = [x for x in calls_in(d2) if norm(x.func) == 'system.rotate']
    ok = ok and len(r) == 1 and norm(r[0].args[0]) == norm(assigns_to(d2, 'p2c_uvws')[0].targets[0])
    ctx.ob('CONVERSION', P2C + '::dump', 'primitive→conventional re-expresses the cell along the conventional vectors (in primitive indices) of the same setting, by rotate()', bool(ok), node=d2)


def rotate(ctx):
    fn = ctx.fn(SYS, 'System.rotate')
    loc = SYS + '::System.rotate'
    t = norm(fn).replace(' ', '')
    ok = "int_uvws=np.asarray(np.rint(uvws),dtype='int64')" in t and 'ifnp.allclose(uvws,int_uvws):uvws=int_uvws' in t and "else:raiseValueError('Rotationuvwsmustbeintegervalues')" in t
    ctx.ob('ROTATE', loc, 'non-integer indices are refused', ok, node=fn)
    z = [s for s in ast.walk(fn) if isinstance(s, ast.If) and norm(s.test).replace(' ', '') == 'newnatoms==0' and any(isinstance(x, ast.Raise) for x in s.body)]
    ctx.ob('ROTATE', loc, 'parallel or coplanar vectors (zero volume) are refused', len(z) == 1, node=fn)
    nn = assigns_to(fn, 'newnatoms')
    ok = False
    if len(nn) == 1:
        ev = SymEval()
        ev.aliases.update({'np': 'numpy'})
        nv, vv, na = sp.symbols('newvolume volume natoms', positive=True)
        try:
            val = ev.ev(nn[0].value, Path({'newvolume': nv, 'volume': vv, 'natoms': na, 'round': lambda x: x, 'int': lambda x: x}))
            ok = sp.simplify(val - nv / vv * na) == 0
        except Opaque:
            ok = False
    ctx.ob('ROTATE', loc, 'the expected atom count is natoms × (new volume / old volume)', ok, norm(nn[0].value) if nn else '', node=nn[0] if nn else fn)
    vol = assigns_to(fn, 'newvolume')
    ok = False
    if len(vol) == 1:
        W = symarray('w', (3, 3), real=True)
        ev = SymEval({'np': 'numpy'})
        try:
            val = ev.ev(vol[0].value, Path({'newvects': W}))
            ok = sp.expand(val ** 2 - sp.Matrix(W.tolist()).det() ** 2) == 0
        except Opaque:
            ok = False
    ctx.ob('ROTATE', loc, 'the new volume is |a\'·(b\'×c\')| of the new vectors', ok, node=vol[0] if vol else fn)
    nvs = assigns_to(fn, 'newvects')
    ctx.ob('ROTATE', loc, 'the new vectors are the Cartesian images of the integer indices in the current cell', len(nvs) == 1 and norm(nvs[0].value).replace(' ', '') == 'miller.vector_crystal_to_cartesian(uvws,box=self.box)', node=fn)
    # corners and multipliers, by evaluation on symbolic integer indices
    frag = [s for s in ast.walk(fn) if isinstance(s, ast.Assign) and norm(s.targets[0]).startswith('corners')]
    ctx.need(len(frag) >= 9, 'rotate(): corner construction not found')
    U = symarray('u', (3, 3), integer=True)
    ev = SymEval({'np': 'numpy'})
    p = Path({'uvws': U})
    blk = [s for s in frag]
    ev.block(sorted(blk, key=lambda s: s.lineno), [p])
    C = p.env['corners']
    want = {tuple(sp.expand(x) for x in (a * U[0] + b * U[1] + c * U[2])) for a, b, c in itertools.product((0, 1), repeat=3)}
    got = {tuple(sp.expand(x) for x in C[i]) for i in range(C.shape[0])}
    ctx.ob('ROTATE', loc, 'the bounding box is taken over all eight corners of the new cell', got == want and C.shape[0] == 8, node=frag[0])
    for k, nm in enumerate(('a_mults', 'b_mults', 'c_mults')):
        a = assigns_to(fn, nm)
        ok = False
        if len(a) == 1:
            try:
                v = ev.ev(a[0].value, p)
                col = [C[i, k] for i in range(8)]
                ok = sp.simplify(v[0] - (sp.Min(*col) - 1)) == 0 and sp.simplify(v[1] - (sp.Max(*col) + 1)) == 0
            except Opaque:
                ok = False
        ctx.ob('ROTATE', loc, 'replication range along %s is (min corner − 1, max corner + 1)' % 'abc'[k], ok, norm(a[0].value) if a else '', node=a[0] if a else fn, key='mults ' + nm)
    ss = [c for c in calls_in(fn) if norm(c.func) == 'self.supersize']
    ctx.ob('ROTATE', loc, 'the bounding supercell is built from those three ranges in order', len(ss) == 1 and [norm(x) for x in ss[0].args] == ['a_mults', 'b_mults', 'c_mults'], node=fn)
    # expected-count gate dominates construction
    sysc = [c for c in calls_in(fn) if norm(c.func) == 'System']
    gate = [s for s in ast.walk(fn) if isinstance(s, ast.If) and norm(s.test).replace(' ', '') == 'notsearch_success' and any(isinstance(x, ast.Raise) for x in s.body)]
    sets = [s for s in ast.walk(fn) if isinstance(s, ast.Assign) and norm(s.targets[0]) == 'search_success']
    ok = len(sysc) == 1 and len(gate) == 1 and gate[0].lineno < sysc[0].lineno and len(sets) == 2
    if ok:
        tr = [s for s in sets if norm(s.value) == 'True'][0]
        par = tr._parent
        ok = isinstance(par, ast.If) and cmp_canon(par.test) is not None and set((cmp_canon(par.test)[0], cmp_canon(par.test)[2])) == {'len(aindex[0])', 'newnatoms'} and cmp_canon(par.test)[1] == '=='
    ctx.ob('ROTATE', loc, 'the cut-out system is constructed only after the number of atoms found equals the expected count (else refused)', bool(ok), node=gate[0] if gate else fn)
    ctx.ob('ROTATE', loc, 'the cut-out takes the found atoms, the re-vectored box and the original symbols',
           len(sysc) == 1 and norm(kwarg(sysc[0], 'atoms')) == 'system2.atoms[aindex]' and norm(kwarg(sysc[0], 'box')) == 'system2.box' and norm(kwarg(sysc[0], 'symbols')) == 'self.symbols', node=fn)
    w = [s for s in ast.walk(fn) if isinstance(s, ast.Assign) and norm(s.targets[0]) == 'aindex']
    ok = False
    if len(w) == 1:
        S = symarray('s', (1, 3), real=True)
        ev2 = SymEval({'np': 'numpy'})
        ev2.funcs = {}
        try:
            v = ev2.ev(w[0].value.args[0], Path({'spos': S}))
            want_ = sp.And(*[sp.And(S[0, i] >= 0, S[0, i] < 1) for i in range(3)])
            ok = sp.simplify(sp.Equivalent(v[0], want_)) == sp.true
        except Exception:
            ok = False
    ctx.ob('ROTATE', loc, 'atoms kept are those with all three relative coordinates in [0, 1)', ok, node=w[0] if w else fn)
    # the tolerance ladder: nothing rounded in place under one tolerance may leak into the next
    lad = [s for s in ast.walk(fn) if isinstance(s, ast.For) and norm(s.iter) == 'tol']
    ctx.need(len(lad) == 1, 'rotate(): tolerance loop not found')
    leaks = []
    for st in ast.walk(lad[0]):
        tg = None
        if isinstance(st, ast.Assign) and isinstance(st.targets[0], ast.Subscript):
            tg = st.targets[0]
        elif isinstance(st, ast.AugAssign):
            tg = st.target
        if tg is None:
            continue
        base = tg
        while isinstance(base, (ast.Subscript, ast.Attribute)):
            base = base.value
        if not isinstance(base, ast.Name):
            continue
        fresh = [a for a in lad[0].body if isinstance(a, ast.Assign) and norm(a.targets[0]) == base.id and a.lineno < st.lineno and isinstance(a.value, ast.Call)
                 and norm(a.value.func) not in ('np.asarray', 'np.asanyarray', 'np.array') or
                 isinstance(a, ast.Assign) and norm(a.targets[0]) == base.id and a.lineno < st.lineno and isinstance(a.value, ast.Call) and norm(a.value.func) == 'np.array' and kwarg(a.value, 'copy') is None]
        if not fresh:
            leaks.append('%s written in place at line %d without a fresh value in this pass' % (base.id, st.lineno))
    ctx.ob('ROTATE', loc, 'every tolerance of the search ladder starts from the unrounded positions (whatever the loop changes in place is recomputed inside the loop)', not leaks, '; '.join(leaks[:3]),
           node=lad[0], key='ladder fresh')
    ret = [s for s in ast.walk(fn) if isinstance(s, ast.Return)]
    ctx.ob('ROTATE', loc, 'the result is normalised (LAMMPS-compatible, atoms inside) and the transformation handed back on request',
           len(ret) == 1 and norm(ret[0].value).replace(' ', '') == 'newsystem.normalize(return_transform=return_transform)', node=fn)
    # hexagonal indices
    hx = [s for s in ast.walk(fn) if isinstance(s, ast.If) and norm(s.test).replace(' ', '') == 'uvws.shape==(3,4)']
    ok = len(hx) == 1 and 'miller.vector4to3(uvws)' in norm(hx[0]) and 'self.box.ishexagonal()' in norm(hx[0]) and any(isinstance(x, ast.Raise) for x in ast.walk(hx[0]))
    ctx.ob('ROTATE', loc, 'four-index input is converted for hexagonal cells and refused otherwise', ok, node=fn)


def origin_anchor(ctx):
    """the cut-out cell must be anchored where the bounding supercell is (for any cell origin)"""
    fn = ctx.fn(SYS, 'System.rotate')
    loc = SYS + '::System.rotate'
    bs = [c for c in calls_in(fn) if norm(c.func) == 'system2.box_set']
    ctx.need(len(bs) == 1, 'rotate(): system2.box_set call not found')
    c = bs[0]
    kws = {k.arg: k.value for k in c.keywords}
    ctx.ob('ROTATE', loc, 'the supercell is re-vectored holding absolute positions (scale is not True)', not (isinstance(kws.get('scale'), ast.Constant) and kws['scale'].value is True) and norm(kws.get('vects')) == 'newvects', node=c)
    # where does Box.set(vects=...) put the origin when none is passed?
    from .c01 import _env, _box, BOX
    ev, cls, shape, plane, va = _env(ctx)
    o = symarray('o', (3,), real=True)
    box = _box(cls, shape, None, o)
    W = symarray('w', (3, 3), real=True)
    st = ctx.fn(BOX, 'Box.set')
    kw = {'vects': W}
    if 'origin' in kws:
        try:
            kw['origin'] = SymEval().ev(kws['origin'], Path({'self': SymObj(None, {'box': SymObj(None, {'origin': o}, 'box')}, 'self'), 'system2': SymObj(None, {'box': SymObj(None, {'origin': sp.Symbol('SUPER')}, 'b')}, 's2')}))
        except Opaque:
            kw['origin'] = None
    ev.call_fn(st, [box], kw, Path({}))
    anchored = box.attrs['_Box__origin']
    # the bounding supercell is anchored at self.box.origin + lo·vects; the cut-out cell contains the lattice points 0..corners from ITS origin.
    # Containment for every cell origin needs the cut-out origin to follow the cell origin.
    follows = equal(anchored, o, deep=False) or (not is_zero(anchored, deep=False) and all(o[i] in sp.sympify(anchored[i]).free_symbols for i in range(3)))
    # normalize() rebuilds the cell from (a,b,c,angles) holding scaled positions; without an origin argument the origin becomes zero,
    # so whatever origin the cut-out cell has is subtracted (rotated) from every atom: it must be zero for the result to be the same crystal
    nf = ctx.fn(NRM, 'normalize')
    nb = [c2 for c2 in calls_in(nf) if norm(c2.func) == 'system.box_set' and any(k.arg == 'alpha' for k in c2.keywords)]
    carries = bool(nb) and any(k.arg == 'origin' for k in nb[0].keywords)
    ctx.ob('ORIGIN', loc, 'no net translation: the cut-out cell\'s origin is zero, or normalize() carries the origin through its rebuild', is_zero(anchored, deep=False) or carries,
           'the cut-out cell is anchored at %s but normalize() rebuilds the cell at origin zero holding scaled positions: every atom is shifted by minus that origin (rotated)' % [str(x) for x in anchored],
           node=c, key='origin dropped by normalize')
    ctx.ob('ORIGIN', loc, 'the cut-out cell is anchored at the cell\'s own origin (so it lies inside the bounding supercell for any origin)', bool(follows),
           'box_set(vects=newvects%s) anchors the cut-out cell at %s while the bounding supercell is anchored at origin + lo·vects: containment only holds for |origin| within one cell of 0' % (
               '' if 'origin' not in kws else ', origin=%s' % norm(kws['origin']), [str(x) for x in anchored]), node=c, key='cut-out anchored at absolute origin')


def preserve(ctx):
    cases = [(SYS, 'System.supersize', {'self'}), (SYS, 'System.rotate', {'self'}), (C2P, 'dump', {'system'}), (P2C, 'dump', {'system'}), (NRM, 'normalize', {'system'})]
    summ = {'self.box.vects': ('fresh',), 'self.box.origin': ('fresh',), '.supersize': ('fresh',), '.rotate': ('fresh',), 'deepcopy': ('fresh',), '.atoms_prop': ('fresh',),
            'miller.vector_crystal_to_cartesian': ('fresh',), 'miller.vector4to3': ('fresh',), 'miller.vector_primitive_to_conventional': ('fresh',),
            'miller.vector_conventional_to_primitive': ('fresh',), 'System': ('fresh',), 'Atoms': ('fresh',), 'Box': ('fresh',), 'aslist': ('fresh',), 'check_setting_basis': ('fresh',),
            '.normalize': ('fresh',), '.inside': ('fresh',), '.dmag': ('fresh',)}
    from .c06 import _benign_local
    for rel, q, params in cases:
        fn = ctx.fn(rel, q)
        muts, eff = effects.param_mutations(fn, params, summaries=summ, mutating_methods=('wrap', 'box_set', 'set', 'atoms_prop'))
        muts = [m for m in muts if not _benign_local(m, fn)]
        ctx.ob('PRESERVE', '%s::%s' % (rel, q), 'the operation returns a new system and does not write to its operand', not muts,
               '; '.join('%s at line %d' % (w, nd.lineno) for nd, r, w in muts), node=muts[0][0] if muts else fn, key='preserve %s %s' % (rel, q))
    ctx.floor('PRESERVE', len(cases), 5)


def run(ctx):
    from .c05 import normalize as normalize_rules
    ctx.explanation = ('C04: supersize is evaluated on a model system with symbolic positions and a tagged property (image set, counts, cell); the centering tables are extracted and checked in exact '
                       'rationals (inverse pairs, determinants, lattice points, integrality of the supercell indices); conversion wiring; rotate() guards and bounding multipliers by evaluation on symbolic '
                       'integer indices; anchoring of the cut-out cell; operand preservation; normalize as in C05. Not decided: that the atoms kept are the right ones for a concrete cell.')
    ctx.run_rules([supersize, centering, conversion, rotate, origin_anchor, preserve, normalize_rules])
