"""C18 Gamma surface and semidiscrete variational Peierls-Nabarro model.

Decided statically (methods are evaluated on symbolic cells / profiles and on model sample grids; no interpolant is built):
 * GAMMA-CONV: a12_to_pos is a1·(a1vect·cell) + a2·(a2vect·cell); pos_to_a12∘a12_to_pos, xy_to_pos∘pos_to_xy, pos_to_xy∘xy_to_pos and
   xy_to_a12∘a12_to_xy are the identity for one and for several positions, with the stored and with alternate in-plane vectors in a
   non-cubic cell; a plotting x-axis outside the plane is refused.
 * GAMMA-FIT: the interpolation nodes handed to both interpolants contain every sampled (a1, a2) with its own energy, the duplicated
   a=1 edge removed, plus exactly one ring of periodic images with the same energies (rectangular grids with more a1 than a2
   samples and vice versa).
 * GAMMA-EGSF: the three ways of giving a position are routed to the matching conversions; fractional coordinates are wrapped into
   one period before interpolation; the edge blend weights pair (1-x) with a1+1 and (1-y) with a2+1 and sum to one.
 * PN-TERMS: dislocation density (forward / central differences with matching abscissae); each energy term evaluated on a symbolic
   profile equals its documented formula *for the profile passed in* (not the stored one); the elastic term is a symmetric quadratic
   form of the density; the two stress expressions differ only through the end values; long-range term b·K·b ln L / 2pi.
 * PN-TOTAL: total_energy is the sum of exactly the six terms, each with the same (x, disregistry).
 * PN-SOLVE: the optimiser varies only the x and z components of interior points; first and last disregistry are put back.
 * ARCTAN: d/dx of the arctangent disregistry equals the arctangent density (with and without normalisation); the profile runs
   from 0 to b.
Declined: that the radial-basis interpolant reproduces its nodes, that minimisation lowers the energy, the classical half-width.
"""
import ast
import itertools

import numpy as np
import sympy as sp

from ..core import norm, calls_in, AnalysisError
from .. import lints
from ..symx import SymEval, SymObj, PyStub, Path, Opaque, WouldRaise, ModelError, module_aliases, symarray, is_zero, equal, arr, is_arr

GS = 'atomman/defect/GammaSurface.py'
PN = 'atomman/defect/SDVPN.py'
ADR = 'atomman/defect/pn_arctan_disregistry.py'
ADD = 'atomman/defect/pn_arctan_disldensity.py'


def _ret(paths, what):
    live = [p for p in paths if p.done == 'return']
    if len(live) != 1:
        raise AnalysisError('%s does not reduce to one returning path (%d)' % (what, len(live)))
    return live[0].ret


def _gobj(ctx, a1v, a2v, normal, V):
    cls = ctx.fn(GS, 'GammaSurface')

    class Bx(PyStub):
        vects = V
    return SymObj(cls, {'a1vect': arr(a1v), 'a2vect': arr(a2v), 'planenormal': arr(normal), 'box': Bx()}, 'self')


def gamma_set(ctx):
    """GammaSurface.set interpreted whole (table and fit stubbed): the shift vectors are stored as given (crystal vectors when a box is given), and the stored plane normal is
    the unit vector along (a1·V) x (a2·V) -- the cross product of the *Cartesian* shift vectors; the conversions between fractional, Cartesian and plotting coordinates
    all lean on it being perpendicular to both"""
    cls = ctx.fn(GS, 'GammaSurface')
    fn = ctx.fn(GS, 'GammaSurface.set')
    loc = GS + '::GammaSurface.set'
    V = symarray('v', (3, 3), real=True)

    class Bx(PyStub):
        _isa = ('Box',)
        vects = V

    class Frame(PyStub):
        def __init__(self, data):
            self.data = dict(data)
    for tag, u, w in (('prismatic-type shifts [100], [001] in a general cell', [1, 0, 0], [0, 0, 1]), ('shifts [1-10], [11-2]', [1, -1, 0], [1, 1, -2]), ('shifts [210], [011]', [2, 1, 0], [0, 1, 1])):
        me = SymObj(cls, {'fit': (lambda: None)}, 'self')
        ev = SymEval(module_aliases(ctx.mod(GS)))

        class Pd(PyStub):
            def DataFrame(self, d):
                return Frame(d)
        ev.globals = {'Box': Bx, 'pd': Pd(), 'OrderedDict': dict}
        try:
            _ret(ev.run_fn(fn, [me, [sp.Integer(x_) for x_ in u], [sp.Integer(x_) for x_ in w], 'A1', 'A2', 'E'], {'box': Bx()}), 'GammaSurface.set')
        except WouldRaise as e:
            ctx.ob('GAMMA-SET', loc, '%s: the data are accepted' % tag, False, str(e), node=fn, key='set runs ' + tag)
            continue
        except Opaque as e:
            raise AnalysisError('GammaSurface.set (%s): %s' % (tag, e))
        nrm = me.attrs.get('_GammaSurface__planenormal')
        cu, cw = np.dot(arr(u), V), np.dot(arr(w), V)
        want = np.cross(cu, cw)
        ok = nrm is not None and np.shape(nrm) == (3,) and all(is_zero(sp.simplify(x_)) for x_ in np.cross(np.asarray(nrm, dtype=object), want)) \
            and is_zero(sp.simplify(sum(x_ ** 2 for x_ in nrm) - 1)) and is_zero(sp.simplify(sum(a_ * b_ for a_, b_ in zip(nrm, cu)))) and is_zero(sp.simplify(sum(a_ * b_ for a_, b_ in zip(nrm, cw))))
        ctx.ob('GAMMA-SET', loc, '%s: the stored plane normal is the unit vector along (a1·V) x (a2·V), perpendicular to both Cartesian shift vectors' % tag, bool(ok), node=fn, key='set normal ' + tag)
        ok = equal(np.asarray(me.attrs.get('_GammaSurface__a1vect'), dtype=object), arr(u), deep=False) and equal(np.asarray(me.attrs.get('_GammaSurface__a2vect'), dtype=object), arr(w), deep=False) \
            and me.attrs.get('_GammaSurface__box') is not None and isinstance(me.attrs.get('_GammaSurface__data'), Frame) and me.attrs['_GammaSurface__data'].data.get('a1') == 'A1' and me.attrs['_GammaSurface__data'].data.get('E_gsf') == 'E'
        ctx.ob('GAMMA-SET', loc, '%s: the shift vectors are stored as given (crystal vectors), with the box and the sampled data' % tag, bool(ok), node=fn, key='set stored ' + tag)


def gamma_conv(ctx):
    aliases = module_aliases(ctx.mod(GS))
    A, B, C = sp.symbols('A B C', positive=True)
    V = np.array([[A, 0, 0], [0, B, 0], [0, 0, C]], dtype=object)
    loc = GS + '::GammaSurface.'
    obj = _gobj(ctx, [1, 0, 0], [0, 1, 0], [0, 0, 1], V)

    def call(name, *a, **k):
        ev = SymEval(aliases)
        try:
            return _ret(ev.run_fn(ctx.fn(GS, 'GammaSurface.' + name), [obj] + list(a), dict(k)), name)
        except Opaque as e:
            raise AnalysisError('GammaSurface.%s: %s' % (name, e))
    f1, f2 = symarray('f', (2,), real=True), symarray('g', (2,), real=True)
    for tag, kw in (('stored vectors', {}), ('alternate in-plane vectors [1 1 0], [-1 1 0]', dict(a1vect=arr([1, 1, 0]), a2vect=arr([-1, 1, 0])))):
        u1 = arr(kw.get('a1vect', arr([1, 0, 0]))).dot(V)
        u2 = arr(kw.get('a2vect', arr([0, 1, 0]))).dot(V)
        pos = call('a12_to_pos', f1, f2, **kw)
        want = np.outer(f1, u1) + np.outer(f2, u2)
        ctx.ob('GAMMA-CONV', loc + 'a12_to_pos', '%s: position = a1·(a1vect·cell) + a2·(a2vect·cell), one row per point' % tag, np.shape(pos) == (2, 3) and equal(np.asarray(pos, dtype=object), want, deep=False), node=ctx.fn(GS, 'GammaSurface.a12_to_pos'),
               key='a12_to_pos ' + tag)
        back = call('pos_to_a12', np.asarray(pos, dtype=object), **kw)
        ok = isinstance(back, tuple) and len(back) == 2 and all(is_zero(back[0][i] - f1[i]) and is_zero(back[1][i] - f2[i]) for i in range(2))
        ctx.ob('GAMMA-CONV', loc + 'pos_to_a12', '%s: fractional coordinates are recovered from several Cartesian positions at once' % tag, bool(ok), node=ctx.fn(GS, 'GammaSurface.pos_to_a12'), key='pos_to_a12 many ' + tag)
        one = call('pos_to_a12', np.asarray(pos, dtype=object)[0], **kw)
        ok = isinstance(one, tuple) and is_zero(np.ravel(one[0])[0] - f1[0]) and is_zero(np.ravel(one[1])[0] - f2[0])
        ctx.ob('GAMMA-CONV', loc + 'pos_to_a12', '%s: ... and from a single position' % tag, bool(ok), node=ctx.fn(GS, 'GammaSurface.pos_to_a12'), key='pos_to_a12 one ' + tag)
        # plotting coordinates
        xy = call('a12_to_xy', f1, f2, **kw)
        ok = isinstance(xy, tuple) and len(xy) == 2
        if ok:
            a12 = call('xy_to_a12', np.asarray(xy[0], dtype=object), np.asarray(xy[1], dtype=object), **kw)
            ok = isinstance(a12, tuple) and all(is_zero(sp.simplify(a12[0][i] - f1[i])) and is_zero(sp.simplify(a12[1][i] - f2[i])) for i in range(2))
        ctx.ob('GAMMA-CONV', loc + 'xy_to_a12', '%s: fractional -> plotting -> fractional coordinates is the identity (both directions use the same Cartesian x-axis)' % tag, bool(ok), node=ctx.fn(GS, 'GammaSurface.xy_to_a12'), key='xy round trip ' + tag)
        if ok:
            nx = sp.sqrt(sum(c ** 2 for c in u1))
            wantx = [sum(want[i][k] * u1[k] for k in range(3)) / nx for i in range(2)]
            ctx.ob('GAMMA-CONV', loc + 'a12_to_xy', '%s: the plotting x coordinate is the projection of the position on the unit (a1vect·cell) direction' % tag, all(is_zero(sp.simplify(xy[0][i] - wantx[i])) for i in range(2)), node=ctx.fn(GS, 'GammaSurface.a12_to_xy'),
                   key='x proj ' + tag)
    P = np.asarray(call('a12_to_pos', f1, f2), dtype=object)
    xy = call('pos_to_xy', P)
    back = call('xy_to_pos', np.asarray(xy[0], dtype=object), np.asarray(xy[1], dtype=object))
    ctx.ob('GAMMA-CONV', loc + 'xy_to_pos', 'plotting -> Cartesian is the inverse of Cartesian -> plotting for in-plane positions', np.shape(back) == (2, 3) and all(is_zero(sp.simplify(a - b)) for a, b in zip(np.ravel(back), np.ravel(P))), node=ctx.fn(GS, 'GammaSurface.xy_to_pos'))
    # a fault plane whose normal is not a Cartesian axis, shift vectors of non-unit length: fcc (111) with a1 = [1 -1 0], a2 = [1 1 -2]
    s3 = sp.sqrt(3)
    obj_t = _gobj(ctx, [1, -1, 0], [1, 1, -2], [1 / s3, 1 / s3, 1 / s3], np.array([[A, 0, 0], [0, A, 0], [0, 0, A]], dtype=object))

    def call_t(name, *a, **k):
        try:
            return _ret(SymEval(aliases).run_fn(ctx.fn(GS, 'GammaSurface.' + name), [obj_t] + list(a), dict(k)), name)
        except Opaque as e:
            raise AnalysisError('GammaSurface.%s (tilted plane): %s' % (name, e))
    Pt = np.asarray(call_t('a12_to_pos', f1, f2), dtype=object)
    xyt = call_t('pos_to_xy', Pt)
    u1t, u2t = arr([1, -1, 0]) * A, arr([1, 1, -2]) * A
    wx = [sum(Pt[i][k] * u1t[k] for k in range(3)) / (A * sp.sqrt(2)) for i in range(2)]
    wy = [sum(Pt[i][k] * u2t[k] for k in range(3)) / (A * sp.sqrt(6)) for i in range(2)]
    ok = isinstance(xyt, tuple) and len(xyt) == 2 and all(is_zero(sp.simplify(xyt[0][i] - wx[i])) and is_zero(sp.simplify(xyt[1][i] - wy[i])) for i in range(2))
    ctx.ob('GAMMA-CONV', loc + 'pos_to_xy', 'tilted fault plane, non-unit shift vectors: plotting x and y are the projections of the position on the unit x direction (along a1) and on the unit in-plane direction perpendicular to it',
           bool(ok), node=ctx.fn(GS, 'GammaSurface.pos_to_xy'), key='xy tilted')
    if isinstance(xyt, tuple) and len(xyt) == 2:
        backt = call_t('xy_to_pos', np.asarray(xyt[0], dtype=object), np.asarray(xyt[1], dtype=object))
        ctx.ob('GAMMA-CONV', loc + 'xy_to_pos', 'tilted fault plane: plotting -> Cartesian inverts Cartesian -> plotting', np.shape(backt) == (2, 3) and all(is_zero(sp.simplify(a_ - b_)) for a_, b_ in zip(np.ravel(backt), np.ravel(Pt))),
               node=ctx.fn(GS, 'GammaSurface.xy_to_pos'), key='xy inverse tilted')
    for name, args in (('pos_to_xy', [P]), ('xy_to_pos', [f1, f2])):
        ev = SymEval(aliases)
        paths = ev.run_fn(ctx.fn(GS, 'GammaSurface.' + name), [obj] + args, {'xvect': arr([0, 0, 1])})
        ctx.ob('GAMMA-CONV', loc + name, 'an x-axis that is not in the slip plane is refused', not [p for p in paths if p.done == 'return'], node=ctx.fn(GS, 'GammaSurface.' + name), key='xvect ' + name)


class Data(PyStub):
    """model of the sample table: columns as object arrays, boolean-mask row selection"""

    def __init__(self, cols):
        self.cols = cols
        for k, v in cols.items():
            setattr(self, k, v)

    def __contains__(self, k):
        return k in self.cols

    def __len__(self):
        return len(next(iter(self.cols.values()))) if self.cols else 0

    def __getitem__(self, mask):
        m = np.array([bool(v) for v in np.ravel(mask)])
        return Data({k: v[m] for k, v in self.cols.items()})


def gamma_fit(ctx):
    fn = ctx.fn(GS, 'GammaSurface.fit')
    cls = ctx.fn(GS, 'GammaSurface')
    loc = GS + '::GammaSurface.fit'
    R = sp.Rational
    for tag, n1, n2, dup in (('6 x 2 samples, duplicated a=1 edge present', 6, 2, True), ('2 x 5 samples, no duplicated edge', 2, 5, False), ('4 x 4 samples with plane-separation data', 4, 4, True)):
        pts = [(R(i, n1), R(j, n2)) for i in range(n1 + (1 if dup else 0)) for j in range(n2 + (1 if dup else 0))]
        E = {(a, b): sp.Symbol('E_%d_%d' % (int(a * n1) % n1, int(b * n2) % n2)) for a, b in pts}
        cols = {'a1': arr([p[0] for p in pts]), 'a2': arr([p[1] for p in pts]), 'E_gsf': arr([E[p] for p in pts])}
        if 'separation' in tag:
            cols['delta'] = arr([sp.Symbol('D_%d_%d' % (int(a * n1) % n1, int(b * n2) % n2)) for a, b in pts])
        made = []
        obj = SymObj(cls, {'data': Data(cols)}, 'self')
        ev = SymEval(module_aliases(ctx.mod(GS)))
        ev.globals = {'Rbf': lambda x, y, z, **k: made.append(('rbf', x, y, z)) or 'RBF', 'NearestNDInterpolator': lambda xy, z: made.append(('nearest', xy, z)) or 'NEAR'}

        def isclose(a, b, **k):
            return np.array([bool(sp.Abs(sp.nsimplify(v) - b) < R(1, 10 ** 6)) for v in np.ravel(a)], dtype=object)

        def unique(a):
            return arr(sorted({sp.nsimplify(v) for v in np.ravel(a)}, key=float))
        ev.np_override = {'numpy.isclose': isclose, 'numpy.unique': unique, 'numpy.where': lambda m: (np.array([i for i, v in enumerate(np.ravel(m)) if bool(v)], dtype=int),)}
        try:
            ev.run_fn(fn, [obj], {})
        except WouldRaise as e:
            ctx.ob('GAMMA-FIT', loc, '%s: the interpolants can be set up' % tag, False, str(e), node=fn, key=tag)
            continue
        except Opaque as e:
            raise AnalysisError('GammaSurface.fit (%s): %s' % (tag, e))
        rb = [m for m in made if m[0] == 'rbf']
        ne = [m for m in made if m[0] == 'nearest']
        nint = 2 if 'delta' in cols else 1
        ok = len(rb) == nint and len(ne) == nint
        ctx.ob('GAMMA-FIT', loc, '%s: one radial-basis and one nearest-neighbour interpolant per tabulated quantity' % tag, ok, '%d / %d' % (len(rb), len(ne)), node=fn, key=tag + ' count')
        if not ok:
            continue
        nodes = {}
        bad = []
        for a, b, e in zip(np.ravel(rb[0][1]), np.ravel(rb[0][2]), np.ravel(rb[0][3])):
            key = (sp.nsimplify(a), sp.nsimplify(b))
            if key in nodes:
                bad.append('node %s given twice' % (key,))
            nodes[key] = e
        h1, h2 = R(1, n1), R(1, n2)
        want = {}
        for i in range(-1, n1 + 2):
            for j in range(-1, n2 + 2):
                want[(i * h1, j * h2)] = sp.Symbol('E_%d_%d' % (i % n1, j % n2))
        missing = [k for k in want if k not in nodes]
        extra = [k for k in nodes if k not in want]
        wrongE = [k for k in want if k in nodes and nodes[k] != want[k]]
        ctx.ob('GAMMA-FIT', loc, '%s: the nodes are every sampled shift of one period with its own energy (duplicated edge once) plus one ring of periodic images carrying the same energies' % tag,
               not (missing or extra or wrongE or bad), 'missing %s; extra %s; wrong energy at %s; %s' % (missing[:4], extra[:4], wrongE[:4], bad[:2]), node=fn, key=tag + ' nodes')
        nn = {(sp.nsimplify(r[0]), sp.nsimplify(r[1])): e for r, e in zip(np.asarray(ne[0][1], dtype=object), np.ravel(ne[0][2]))}
        ctx.ob('GAMMA-FIT', loc, '%s: the nearest-neighbour interpolant gets the same nodes and energies' % tag, nn == nodes, node=fn, key=tag + ' nearest')
        if nint == 2:
            dn, dbad = {}, []
            for a, b, e in zip(np.ravel(rb[1][1]), np.ravel(rb[1][2]), np.ravel(rb[1][3])):
                key = (sp.nsimplify(a), sp.nsimplify(b))
                if key in dn:
                    dbad.append('node %s given twice' % (key,))
                dn[key] = e
            wantd = {k: sp.Symbol(str(v).replace('E_', 'D_')) for k, v in want.items()}
            wrong = [k for k in wantd if dn.get(k) != wantd[k]]
            ctx.ob('GAMMA-FIT', loc, '%s: the plane-separation interpolant has the same nodes, each carrying the separation tabulated for that shift (periodic images the same value)' % tag,
                   set(dn) == set(wantd) and not wrong and not dbad, 'wrong separation at %s; %s' % (wrong[:4], dbad[:2]), node=fn, key=tag + ' delta nodes')
            nd = {(sp.nsimplify(r[0]), sp.nsimplify(r[1])): e for r, e in zip(np.asarray(ne[1][1], dtype=object), np.ravel(ne[1][2]))}
            ctx.ob('GAMMA-FIT', loc, '%s: the nearest-neighbour plane-separation interpolant gets the same nodes and values' % tag, nd == dn, node=fn, key=tag + ' delta nearest')


def gamma_egsf(ctx):
    fn = ctx.fn(GS, 'GammaSurface.E_gsf')
    cls = ctx.fn(GS, 'GammaSurface')
    loc = GS + '::GammaSurface.E_gsf'
    aliases = module_aliases(ctx.mod(GS))
    R = sp.Rational

    def mk(log, cushion_max):
        class D(PyStub):
            class A1(PyStub):
                def max(self):
                    return cushion_max
            a1 = A1()
        F = sp.Function('F')
        attrs = {'_GammaSurface__hasdata': True, 'data': D(),
                 'xy_to_a12': lambda x, y, **k: (log.append(('xy_to_a12', x, y, k)) or (arr([R(1, 2)]), arr([R(1, 4)]))),
                 'pos_to_a12': lambda pos, **k: (log.append(('pos_to_a12', pos, k)) or (arr([R(1, 2)]), arr([R(1, 4)]))),
                 'a12_to_pos': lambda a1, a2, **k: (log.append(('a12_to_pos', a1, a2, k)) or 'POS'),
                 '_GammaSurface__E_gsf_fit': lambda a, b: np.array([F(x, y) for x, y in zip(np.ravel(a), np.ravel(b))], dtype=object),
                 '_GammaSurface__E_gsf_nearest': lambda pts: (log.append(('nearest', np.array(pts, dtype=object))) or np.array([F(*r) for r in np.asarray(pts, dtype=object)], dtype=object))}
        return SymObj(cls, attrs, 'self'), F

    def piecewise(x, conds, funcs):
        out = []
        for k, v in enumerate(np.ravel(x)):
            for c, f in zip(conds, funcs):
                if bool(np.ravel(c)[k]):
                    r = f.ev.call_fn(f.fn, [arr([v])], {}, Path({}), outer_env=f.env) if hasattr(f, 'fn') else f(arr([v]))
                    out.append(np.ravel(r)[0])
                    break
        return arr(out)
    # routing
    for tag, kw, want in (('x, y', dict(x='X', y='Y', xvect='XV', a1vect='A1'), 'xy_to_a12'), ('pos', dict(pos='P', a2vect='A2'), 'pos_to_a12')):
        log = []
        obj, F = mk(log, R(3, 4))
        ev = SymEval(aliases)
        ev.np_override = {'numpy.piecewise': piecewise}
        try:
            ev.run_fn(fn, [obj], dict(kw, smooth=False))
        except Opaque as e:
            raise AnalysisError('E_gsf (%s): %s' % (tag, e))
        c = [l for l in log if l[0] in ('xy_to_a12', 'pos_to_a12')]
        ok = len(c) == 1 and c[0][0] == want and (c[0][1:3] == ('X', 'Y') and c[0][3] == dict(a1vect='A1', a2vect=None, xvect='XV') if want == 'xy_to_a12' else c[0][1] == 'P' and c[0][2] == dict(a1vect=None, a2vect='A2'))
        ctx.ob('GAMMA-EGSF', loc, 'a position given as %s goes through %s with the caller\'s reference vectors' % (tag, want), bool(ok), str(c)[:200], node=fn, key='route ' + tag)
    log = []
    obj, F = mk(log, R(3, 4))
    ev = SymEval(aliases)
    ev.np_override = {'numpy.piecewise': piecewise}
    ev.run_fn(fn, [obj], dict(a1=[R(1, 3)], a2=[R(2, 3)], a1vect='ALT1', smooth=False))
    c = [l for l in log if l[0] in ('a12_to_pos', 'pos_to_a12')]
    ok = len(c) == 2 and c[0][0] == 'a12_to_pos' and c[0][3] == dict(a1vect='ALT1', a2vect=None) and c[1][0] == 'pos_to_a12' and c[1][1] == 'POS' and c[1][2] == {}
    ctx.ob('GAMMA-EGSF', loc, 'fractions of alternate vectors are converted to a position with those vectors and back to fractions of the stored vectors', bool(ok), str(c)[:200], node=fn, key='route alt')
    # wrapping, nearest
    log = []
    obj, F = mk(log, R(3, 4))
    ev = SymEval(aliases)
    ev.np_override = {'numpy.piecewise': piecewise}
    r = _ret(ev.run_fn(fn, [obj], dict(a1=[R(5, 2), R(-3, 4), R(1, 3)], a2=[R(-9, 4), R(7, 4), R(2, 3)], smooth=False)), 'E_gsf')
    nn = [l for l in log if l[0] == 'nearest']
    ok = len(nn) == 1 and [tuple(sp.nsimplify(v) for v in row) for row in nn[0][1]] == [(R(1, 2), R(3, 4)), (R(1, 4), R(3, 4)), (R(1, 3), R(2, 3))]
    ctx.ob('GAMMA-EGSF', loc, 'nearest-sample evaluation: fractional coordinates are reduced by whole periods into [0, 1] (integer periods give the same energy)', bool(ok), str(nn)[:200], node=fn, key='wrap nearest')
    # smooth: wrap into [-c, 1-c) and blend
    log = []
    obj, F = mk(log, R(3, 4))      # 4 samples per period: cushion = 1/8
    ev = SymEval(aliases)
    ev.np_override = {'numpy.piecewise': piecewise, 'numpy.ones_like': lambda v: arr([1] * len(np.ravel(v)))}
    a1 = [R(9, 4), R(15, 16), R(-1, 16)]
    a2 = [R(-5, 4), R(1, 2), R(1, 16)]
    r = np.ravel(_ret(ev.run_fn(fn, [obj], dict(a1=list(a1), a2=list(a2), smooth=True)), 'E_gsf'))
    c_ = R(1, 8)

    def red(v):
        while v >= 1 - c_:
            v -= 1
        while v < -c_:
            v += 1
        return v

    def w(v):
        return (v + c_) / (2 * c_) if v < c_ else sp.Integer(1)
    want = []
    for u, v in zip(a1, a2):
        u, v = red(u), red(v)
        x, y = w(u), w(v)
        want.append(x * y * F(u, v) + x * (1 - y) * F(u, v + 1) + (1 - x) * y * F(u + 1, v) + (1 - x) * (1 - y) * F(u + 1, v + 1))
    ok = len(r) == 3 and all(is_zero(sp.expand(a - b)) for a, b in zip(r, want))
    ctx.ob('GAMMA-EGSF', loc, 'smooth evaluation: coordinates are reduced into one period starting half a sample spacing below 0, and within that margin the interpolant is blended with its image one period up, '
           'weight (1-x) going with a1+1 and (1-y) with a2+1 (weights sum to one)', bool(ok), 'got %s' % ([str(v) for v in r],), node=fn, key='blend')
    # the caller's coordinate arrays are only read: period reduction works on the function's own copy
    for smooth in (False, True):
        log = []
        obj, F = mk(log, R(3, 4))
        ev = SymEval(aliases)
        ev.np_override = {'numpy.piecewise': piecewise, 'numpy.ones_like': lambda v: arr([1] * len(np.ravel(v)))}
        mine1, mine2 = arr(list(a1)), arr(list(a2))
        _ret(ev.run_fn(fn, [obj], dict(a1=mine1, a2=mine2, smooth=smooth)), 'E_gsf')
        ctx.ob('GAMMA-EGSF', loc, 'smooth=%s: coordinate arrays passed in are left as given (the reduction by whole periods is done on a copy)' % smooth, equal(mine1, arr(list(a1)), deep=False) and equal(mine2, arr(list(a2)), deep=False),
               'a1 -> %s, a2 -> %s' % ([str(v) for v in mine1], [str(v) for v in mine2]), node=fn, key='caller arrays %s' % smooth)
    # one Cartesian position a few periods outside the cell, converted by the surface's own pos_to_a12 (not a stub): what the conversion returns for a single position must
    # be something the period reduction can work on (a 0-d array, not an immutable number)
    class BxC(PyStub):
        vects = np.array([[R(2), R(0), R(0)], [R(0), R(3), R(0)], [R(0), R(0), R(5)]], dtype=object)
    for smooth in (False, True):
        log = []
        obj, F = mk(log, R(3, 4))
        for k_ in ('pos_to_a12',):
            obj.attrs.pop(k_)
        obj.attrs.update({'a1vect': arr([R(1), R(0), R(0)]), 'a2vect': arr([R(0), R(1), R(0)]), 'box': BxC()})
        ev = SymEval(aliases)
        ev.np_override = {'numpy.piecewise': piecewise, 'numpy.ones_like': lambda v: arr([1] * max(1, len(np.ravel(v))))}
        try:
            r1 = _ret(ev.run_fn(fn, [obj], dict(pos=arr([R(5), R(-9, 4), R(0)]), smooth=smooth)), 'E_gsf')      # a1 = 5/2, a2 = -3/4
            ok1, det1 = True, ''
        except WouldRaise as e:
            ok1, det1 = False, str(e)[:200]
        except Opaque as e:
            raise AnalysisError('E_gsf (single position through pos_to_a12, smooth=%s): %s' % (smooth, e))
        ctx.ob('GAMMA-EGSF', loc, 'smooth=%s: a single Cartesian position outside the cell is converted and reduced by whole periods like a block of positions' % smooth, ok1, det1, node=fn, key='single pos %s' % smooth)
    # delta(): same routing and reduction, no blending
    dfn = ctx.fn(GS, 'GammaSurface.delta')
    dloc = GS + '::GammaSurface.delta'
    Dl = sp.Function('Dl')
    for smooth in (False, True):
        log = []
        obj, F = mk(log, R(3, 4))

        class DD(PyStub):
            def __contains__(self, k):
                return k in ('a1', 'a2', 'E_gsf', 'delta')
        obj.attrs['data'] = DD()
        obj.attrs['_GammaSurface__delta_fit'] = lambda a, b: (log.append(('fit', np.array(a, dtype=object), np.array(b, dtype=object))) or np.array([Dl(x, y) for x, y in zip(np.ravel(a), np.ravel(b))], dtype=object))
        obj.attrs['_GammaSurface__delta_nearest'] = lambda pts: (log.append(('nearest', np.array(pts, dtype=object))) or np.array([Dl(*r) for r in np.asarray(pts, dtype=object)], dtype=object))
        give1, give2 = [R(5, 2), R(-3, 4), R(1, 3)], [R(-9, 4), R(7, 4), R(2, 3)]
        mine1, mine2 = arr(list(give1)), arr(list(give2))
        try:
            r = np.ravel(_ret(SymEval(aliases).run_fn(dfn, [obj], dict(a1=mine1, a2=mine2, smooth=smooth)), 'delta'))
        except Opaque as e:
            raise AnalysisError('delta (smooth=%s): %s' % (smooth, e))
        wantpts = [(R(1, 2), R(3, 4)), (R(1, 4), R(3, 4)), (R(1, 3), R(2, 3))]
        ok = len(r) == 3 and all(is_zero(a - Dl(*b)) for a, b in zip(r, wantpts)) and len(log) == 1 and log[0][0] == ('fit' if smooth else 'nearest')
        ctx.ob('GAMMA-EGSF', dloc, 'smooth=%s: fractional coordinates are reduced by whole periods into [0, 1] and handed to the %s interpolant of the plane separation' % (smooth, 'radial-basis' if smooth else 'nearest-sample'), bool(ok),
               'got %s' % ([str(v) for v in r],), node=dfn, key='delta wrap %s' % smooth)
        ctx.ob('GAMMA-EGSF', dloc, 'smooth=%s: coordinate arrays passed in are left as given' % smooth, equal(mine1, arr(list(give1)), deep=False) and equal(mine2, arr(list(give2)), deep=False), node=dfn, key='delta caller arrays %s' % smooth)
    paths = SymEval(aliases).run_fn(fn, [SymObj(cls, {'_GammaSurface__hasdata': False}, 'self')], dict(a1=[0], a2=[0]))
    ctx.ob('GAMMA-EGSF', loc, 'evaluation without data is refused', not [p for p in paths if p.done == 'return'], node=fn, key='nodata')


def gamma_model(ctx):
    """"survives a data-model round trip": GammaSurface.model() written with units other than the working ones and read back by GammaSurface.model(model=...) -- the writer and
    the reader are evaluated on symbolic values with the unit functions of atomman.unitconvert interpreted (unit sizes are symbols), the container is the real DataModelDict"""
    from .c10 import _ev, usym
    fn = ctx.fn(GS, 'GammaSurface.model')
    cls = ctx.fn(GS, 'GammaSurface')
    loc = GS + '::GammaSurface.model'
    V = symarray('v', (3, 3), real=True)
    A1, A2 = symarray('s', (3,), real=True), symarray('t', (3,), real=True)
    f1, f2 = symarray('f', (3,), real=True), symarray('g', (3,), real=True)
    E, D = symarray('E', (3,), real=True), symarray('D', (3,), real=True)

    class Bx(PyStub):
        avect = property(lambda self: V[0].copy())
        bvect = property(lambda self: V[1].copy())
        cvect = property(lambda self: V[2].copy())
        vects = property(lambda self: V.copy())

    class Data(PyStub):
        def __init__(self, with_delta):
            self.a1, self.a2, self.E_gsf = f1.copy(), f2.copy(), E.copy()
            if with_delta:
                self.delta = D.copy()
            self._d = with_delta

        def __contains__(self, k):
            return k in ('a1', 'a2', 'E_gsf') or (k == 'delta' and self._d)
    n = 0
    for with_delta in (True, False):
        tag = 'with plane separations' if with_delta else 'energies only'
        n += 1
        me = SymObj(cls, {'box': Bx(), 'a1vect': A1.copy(), 'a2vect': A2.copy(), 'data': Data(with_delta), '_GammaSurface__hasdata': True}, 'self')
        ev = _ev(ctx, GS)
        try:
            w = [q for q in ev.run_fn(fn, [me], {'length_unit': 'nm', 'energyperarea_unit': 'mJ/m^2'}) if q.done == 'return']
        except WouldRaise as e:
            ctx.ob('GAMMA-MODEL', loc, '%s: the model is written' % tag, False, str(e)[:200], node=fn, key='model writes ' + tag)
            continue
        except Opaque as e:
            raise AnalysisError('GammaSurface.model (write, %s): %s' % (tag, e))
        ctx.need(len(w) == 1, 'GammaSurface.model() does not reduce to one path (%s)' % tag)
        m = w[0].ret
        got = {}

        def mkbox(**kw):
            got['box'] = kw
            return 'BOX'
        rd = SymObj(cls, {'set': lambda *a, **k: got.update(args=a, kw=k)}, 'self')
        ev = _ev(ctx, GS, {'Box': mkbox})
        try:
            r = [q for q in ev.run_fn(fn, [rd], {'model': m}) if q.done == 'return']
        except WouldRaise as e:
            ctx.ob('GAMMA-MODEL', loc, '%s: the model written is read back' % tag, False, str(e)[:200], node=fn, key='model reads ' + tag)
            continue
        except Opaque as e:
            raise AnalysisError('GammaSurface.model (read, %s): %s' % (tag, e))
        bx = got.get('box') or {}
        okb = all(k in bx and np.shape(bx[k]) == (3,) and equal(np.asarray(bx[k], dtype=object), V[i], deep=False) for i, k in enumerate(('avect', 'bvect', 'cvect')))
        ctx.ob('GAMMA-MODEL', loc, '%s, written in nm and mJ/m^2: the cell read back is the cell written (what the writer does to the cell vectors the reader undoes)' % tag, bool(okb),
               'read back %s' % ({k: [str(x) for x in np.ravel(np.asarray(v, dtype=object))] for k, v in bx.items()},), node=fn, key='model box ' + tag)
        a = got.get('args') or ()
        kw = got.get('kw') or {}
        vals = dict(zip(('a1vect', 'a2vect', 'a1', 'a2', 'E_gsf'), a))
        vals.update(kw)
        okv = all(k in vals and vals[k] is not None and equal(np.asarray(vals[k], dtype=object), want, deep=False) for k, want in (('a1vect', A1), ('a2vect', A2), ('a1', f1), ('a2', f2), ('E_gsf', E))) \
            and vals.get('box') == 'BOX' and ((vals.get('delta') is not None and equal(np.asarray(vals['delta'], dtype=object), D, deep=False)) if with_delta else vals.get('delta') is None)
        ctx.ob('GAMMA-MODEL', loc, '%s, written in nm and mJ/m^2: shift vectors, fractional shifts, energies%s read back equal those written (units undone)' % (tag, ' and plane separations' if with_delta else ''), bool(okv),
               str({k: np.shape(v) if v is not None and not isinstance(v, str) else v for k, v in vals.items()}), node=fn, key='model values ' + tag)
    ctx.floor('GAMMA-MODEL', n, 2)


def _pnobj(ctx, **attrs):
    cls = ctx.fn(PN, 'SDVPN')
    return SymObj(cls, dict(attrs), 'self')


def pn_terms(ctx):
    aliases = module_aliases(ctx.mod(PN))
    loc = PN + '::SDVPN.'
    n = 5
    h = sp.Symbol('h', positive=True)
    x0 = sp.Symbol('x0', real=True)
    x = arr([x0 + i * h for i in range(n)])
    d = symarray('d', (n, 3), real=True)
    stored = symarray('old', (n, 3), real=True)
    K = symarray('K', (3, 3), real=True)
    tau = symarray('t', (3, 3), real=True)
    beta = symarray('be', (3, 3), real=True)
    alpha = [sp.Symbol('al1'), sp.Symbol('al2')]
    b = symarray('b', (3,), real=True)
    Lc = sp.Symbol('Lc', positive=True)
    T = symarray('T', (3, 3), real=True)
    G = sp.Function('gamma')
    glog = []

    class Gam(PyStub):
        def E_gsf(self, **k):
            glog.append(k)
            return np.array([G(*row) for row in np.asarray(k['pos'], dtype=object)], dtype=object)

    def ev_():
        ev = SymEval(aliases)

        class W(PyStub):
            def catch_warnings(self):
                return self

            def simplefilter(self, *a, **k):
                return None
        ev.globals = {'warnings': W(), 'RuntimeWarning': 'RuntimeWarning'}

        def log_(v):
            return np.array([(sp.nan if sp.sympify(e) == 0 else sp.log(e)) for e in np.ravel(v)], dtype=object).reshape(np.shape(v)) if is_arr(v) else (sp.nan if sp.sympify(v) == 0 else sp.log(v))

        def mul_nan(v):
            return v
        ev.np_override = {'numpy.log': log_, 'numpy.abs': lambda v: np.array([sp.Abs(e) for e in np.ravel(v)], dtype=object).reshape(np.shape(v)) if is_arr(v) else sp.Abs(v),
                          'numpy.isnan': lambda v: np.array([bool(sp.sympify(e).has(sp.nan)) for e in np.ravel(v)], dtype=object).reshape(np.shape(v)),
                          'numpy.arange': lambda m, **k: arr(list(range(int(m))))}
        return ev

    def obj(cd):
        cls = ctx.fn(PN, 'SDVPN')
        o = SymObj(cls, {'x': x.copy(), 'disregistry': stored.copy(), 'K_tensor': K.copy(), 'tau': tau.copy(), 'beta': beta.copy(), 'alpha': list(alpha), 'burgers': b.copy(), 'cutofflongrange': Lc, 'transform': T.copy(), 'gamma': Gam(),
                         'fullstress': False, 'cdiffelastic': cd, 'cdiffsurface': cd, 'cdiffstress': cd}, 'self')
        return o

    def rho(cd, dd=d):
        if cd:
            return np.array([(dd[i + 2] - dd[i]) / (x[i + 2] - x[i]) for i in range(n - 2)], dtype=object)
        return np.array([(dd[i + 1] - dd[i]) / (x[i + 1] - x[i]) for i in range(n - 1)], dtype=object)

    def run(name, o, *a, **k):
        try:
            return _ret(ev_().run_fn(ctx.fn(PN, 'SDVPN.' + name), [o] + list(a), dict(k)), name)
        except Opaque as e:
            raise AnalysisError('SDVPN.%s: %s' % (name, e))
    for cd in (False, True):
        tag = 'central differences' if cd else 'forward differences'
        nx, r = run('disldensity', obj(cd), x, d, cdiff=cd)
        ok = equal(np.asarray(r, dtype=object), rho(cd), deep=False) and equal(np.asarray(nx, dtype=object), x[1:-1] if cd else x[1:], deep=False)
        ctx.ob('PN-TERMS', loc + 'disldensity', '%s: ρ = Δδ/Δx with the documented abscissae' % tag, bool(ok), node=ctx.fn(PN, 'SDVPN.disldensity'), key='density ' + tag)
        r_ = rho(cd)
        dep_old = lambda e: any(e.has(s) for s in np.ravel(stored))
        # surface
        e = run('surface_energy', obj(cd), x, d)
        want = sum(beta[k, j] * r_[i, j] ** 2 * h for i in range(len(r_)) for k in range(3) for j in range(3)) / 4
        ctx.ob('PN-TERMS', loc + 'surface_energy', '%s: E_surface = Σ β_lj/4 Σ_i ρ_l[i]² Δx of the profile passed in' % tag, is_zero(sp.expand(e - want)) and not dep_old(sp.sympify(e)),
               'depends on the stored profile' if dep_old(sp.sympify(e)) else '', node=ctx.fn(PN, 'SDVPN.surface_energy'), key='surface ' + tag)
        # elastic
        e = run('elastic_energy', obj(cd), x, d)
        m = len(r_)

        def psi(i, j):
            return 0 if i == j else sp.Rational(1, 2) * (i - j) ** 2 * h ** 2 * sp.log(abs(i - j) * h)

        def chi(i, j):
            return sp.Rational(3, 2) * h ** 2 + psi(i - 1, j - 1) + psi(i, j) - psi(i, j - 1) - psi(j, i - 1)
        want = sum(chi(i, j) * sum(r_[i, l] * K[l, q] * r_[j, q] for l in range(3) for q in range(3)) for i in range(m) for j in range(m)) / (4 * sp.pi)
        ctx.ob('PN-TERMS', loc + 'elastic_energy', '%s: E_elastic = 1/4π Σ_ij χ(i,j) K_lm ρ_l[i] ρ_m[j] with χ from ψ(|i-j|) of the profile passed in' % tag, is_zero(sp.expand(sp.expand_log(e - want, force=True))) and not dep_old(sp.sympify(e)),
               node=ctx.fn(PN, 'SDVPN.elastic_energy'), key='elastic ' + tag)
        if not cd:
            ctx.ob('PN-TERMS', loc + 'elastic_energy', 'the kernel χ(i,j) is symmetric in (i,j) (the elastic term is a symmetric quadratic form of the density)', all(is_zero(sp.expand_log(chi(i, j) - chi(j, i), force=True)) for i in range(m) for j in range(m)), key='chi symmetric')
        # stress
        o = obj(cd)
        e_alt = run('stress_energy', o, x, d)
        o2 = obj(cd)
        o2.attrs['fullstress'] = True
        try:
            e_full = _ret(ev_().run_fn(ctx.fn(PN, 'SDVPN.stress_energy'), [o2, x, d], {}), 'stress_energy')
            ctx.ob('PN-TERMS', loc + 'stress_energy', '%s: the full stress expression can be evaluated' % tag, True, node=ctx.fn(PN, 'SDVPN.stress_energy'), key='stress full evaluates ' + tag)
        except WouldRaise as ex:
            ctx.ob('PN-TERMS', loc + 'stress_energy', '%s: the full stress expression can be evaluated' % tag, False, str(ex), node=ctx.fn(PN, 'SDVPN.stress_energy'), key='stress full evaluates ' + tag)
            e_full = sp.Integer(0)
        want_full = -sp.Rational(1, 2) * sum((x[i + 1] ** 2 - x[i] ** 2) * sum(r_[i, l] * tau[1, l] for l in range(3)) for i in range(len(r_))) if not cd else None
        if want_full is not None:
            ctx.ob('PN-TERMS', loc + 'stress_energy', '%s: full expression E = -1/2 Σ_i (x[i]² - x[i-1]²) ρ_l τ_2l' % tag, is_zero(sp.expand(e_full - want_full)), node=ctx.fn(PN, 'SDVPN.stress_energy'), key='stress full ' + tag)
            interior = [d[i, l] for i in range(1, n - 1) for l in range(3)]
            diff = sp.expand(e_full - e_alt)
            ctx.ob('PN-TERMS', loc + 'stress_energy', '%s: the short expression differs from the full one only through the two end disregistries (same force on the interior points)' % tag,
                   all(is_zero(sp.diff(diff, v)) for v in interior), 'difference depends on %s' % [str(v) for v in interior if not is_zero(sp.diff(diff, v))][:4], node=ctx.fn(PN, 'SDVPN.stress_energy'), key='stress alt ' + tag)
        ctx.ob('PN-TERMS', loc + 'stress_energy', '%s: the stress term uses the profile passed in' % tag, not dep_old(sp.sympify(e_alt)) and not dep_old(sp.sympify(e_full)), node=ctx.fn(PN, 'SDVPN.stress_energy'), key='stress arg ' + tag)
    # every term is governed by its own finite-difference option (the three options are documented and set separately)
    for name, flag in (('surface_energy', 'cdiffsurface'), ('elastic_energy', 'cdiffelastic'), ('stress_energy', 'cdiffstress')):
        for cd in (False, True):
            try:
                ref = run(name, obj(cd), x, d)
                o = obj(not cd)
                o.attrs[flag] = cd
                got = run(name, o, x, d)
            except WouldRaise:
                continue
            ctx.ob('PN-TERMS', loc + name, '%s=%s decides how the density of this term is differenced, whatever the options of the other terms' % (flag, cd), is_zero(sp.expand(sp.expand_log(sp.sympify(got) - sp.sympify(ref), force=True))),
                   node=ctx.fn(PN, 'SDVPN.' + name), key='own flag %s %s' % (name, cd))
    # no term depends on what the object was evaluated with before (same number of points, another spacing and profile)
    h2 = sp.Symbol('h2', positive=True)
    x2 = arr([x0 + i * h2 for i in range(n)])
    d2 = symarray('e', (n, 3), real=True)
    deferred = []
    for name in ('surface_energy', 'elastic_energy', 'stress_energy', 'nonlocal_energy', 'misfit_energy', 'total_energy'):
        for cd in (False, True):
            try:
                fresh = run(name, obj(cd), x2, d2)
                o = obj(cd)
                run(name, o, x, d)
                second = run(name, o, x2, d2)
                third = run(name, o, x2, d2)
            except WouldRaise as ex:
                continue       # reported by the per-term obligations
            except AnalysisError as ex:
                deferred.append('%s: %s' % (name, ex))      # raised at the end of the rule, after the obligations that do not depend on it
                continue
            kept = all(equal(np.asarray(o.attrs[k_], dtype=object), np.asarray(v_, dtype=object), deep=False) for k_, v_ in (('tau', tau), ('beta', beta), ('K_tensor', K), ('burgers', b), ('transform', T), ('x', x), ('disregistry', stored)))
            ctx.ob('PN-TERMS', loc + name, '%s differences: evaluating the term leaves the object\'s settings (applied stress, coefficients, stored profile) as they were' % ('central' if cd else 'forward'), bool(kept),
                   node=ctx.fn(PN, 'SDVPN.' + name), key='settings kept %s %s' % (name, cd))
            same = is_zero(sp.expand(sp.expand_log(sp.sympify(second) - sp.sympify(fresh), force=True))) and is_zero(sp.expand(sp.expand_log(sp.sympify(third) - sp.sympify(fresh), force=True)))
            ctx.ob('PN-TERMS', loc + name, '%s differences: the value for a grid and profile does not depend on the grid the same object was evaluated on before' % ('central' if cd else 'forward'), bool(same),
                   node=ctx.fn(PN, 'SDVPN.' + name), key='history %s %s' % (name, cd))
    # nonlocal
    e = run('nonlocal_energy', obj(False), x, d)
    want = sum(alpha[mm - 1] * sum(sum(d[i, l] * (d[i, l] - (d[i + mm, l] + d[i - mm, l]) / 2) for l in range(3)) * h for i in range(mm, n - mm)) for mm in (1, 2))
    ctx.ob('PN-TERMS', loc + 'nonlocal_energy', 'E_nonlocal = Σ_m α_m Σ_i δ[i]·(δ[i] - (δ[i+m] + δ[i-m])/2) Δx of the profile passed in', is_zero(sp.expand(e - want)), node=ctx.fn(PN, 'SDVPN.nonlocal_energy'))
    # long range
    e = run('longrange_energy', obj(False))
    want = sum(b[i] * K[i, j] * b[j] for i in range(3) for j in range(3)) * sp.log(Lc) / (2 * sp.pi)
    ctx.ob('PN-TERMS', loc + 'longrange_energy', 'E_longrange = b·K·b ln(L) / 2π', is_zero(sp.expand(e - want)), node=ctx.fn(PN, 'SDVPN.longrange_energy'))
    # misfit
    glog.clear()
    e = run('misfit_energy', obj(False), x, d)
    pos = np.array([[sum((d[i, 0], 0, d[i, 2])[k] * T[k, j] for k in range(3)) for j in range(3)] for i in range(n)], dtype=object)
    want = h * sum(G(*pos[i]) for i in range(n))
    ok = is_zero(sp.expand(e - want)) and len(glog) == 1 and list(glog[0]) == ['pos']
    ctx.ob('PN-TERMS', loc + 'misfit_energy', 'E_misfit = Δx Σ_i γ(δ_i) with the in-plane disregistry (x and z components) taken back to the crystal frame by the transpose of the transform', bool(ok), node=ctx.fn(PN, 'SDVPN.misfit_energy'))
    # total
    tfn = ctx.fn(PN, 'SDVPN.total_energy')
    calls = []
    syms = {k: sp.Symbol('E_' + k) for k in ('misfit', 'elastic', 'longrange', 'stress', 'nonlocal', 'surface')}
    attrs = {'x': 'XSTORED', 'disregistry': 'DSTORED'}
    for k in syms:
        attrs[k + '_energy'] = (lambda k: (lambda *a, **kw: (calls.append((k, a, kw)) or syms[k])))(k)
    cls = ctx.fn(PN, 'SDVPN')
    # concrete settings in which an implementation might be tempted to skip a term that does not vanish (a first non-local coefficient of zero says nothing about the second)
    ones = np.empty((3, 3), dtype=object)
    ones[...] = sp.Integer(1)
    for stag, extra in (('non-zero applied stress and surface coefficients, non-local coefficients (0, a2): no term vanishes identically', {'tau': ones.copy(), 'beta': ones.copy(), 'alpha': [sp.Integer(0), sp.Symbol('a2')]}),):
        calls.clear()
        a2_ = dict(attrs)
        a2_.update(extra)
        try:
            r = _ret(SymEval(aliases).run_fn(tfn, [SymObj(cls, a2_, 'self'), 'X', 'D'], {}), 'total_energy')
            ok = is_zero(r - sum(syms.values()))
        except AnalysisError:
            r, ok = None, False
        ctx.ob('PN-TOTAL', PN + '::SDVPN.total_energy', '%s: the total is still the sum of all six documented terms' % stag, bool(ok), 'total = %s' % (r,), node=tfn, key='total settings ' + stag[:40])
    for tag, args, wantargs in (('explicit profile', ['X', 'D'], ('X', 'D')), ('stored profile', [], ('XSTORED', 'DSTORED'))):
        calls.clear()
        r = _ret(SymEval(aliases).run_fn(tfn, [SymObj(cls, dict(attrs), 'self')] + args, {}), 'total_energy')
        ok = is_zero(r - sum(syms.values())) and sorted(c[0] for c in calls) == sorted(syms) and all((c[1] == wantargs and not c[2]) or (c[0] == 'longrange' and not c[1]) or
                                                                                                    (not c[1] and (c[2].get('x'), c[2].get('disregistry')) == wantargs) for c in calls)
        ctx.ob('PN-TOTAL', PN + '::SDVPN.total_energy', '%s: the total is the plain sum of the misfit, elastic, long-range, stress, non-local and surface terms, each evaluated for the same x and disregistry' % tag, bool(ok), str(calls)[:300], node=tfn,
               key='total ' + tag)
    if deferred:
        raise AnalysisError(' || '.join(deferred))


def pn_init(ctx):
    """the constructor takes the Volterra solution into the [m, n, ξ] frame: energy coefficients, Burgers vector and transform all by the same rotation"""
    fn = ctx.fn(PN, 'SDVPN.__init__')
    loc = PN + '::SDVPN.__init__'
    aliases = module_aliases(ctx.mod(PN))
    cls = ctx.fn(PN, 'SDVPN')
    R = sp.Rational
    # a proper rotation that is not symmetric: rows are m, n, ξ in the frame the Volterra solution was computed in
    Q = np.array([[R(2, 3), R(-1, 3), R(2, 3)], [R(2, 3), R(2, 3), R(-1, 3)], [R(-1, 3), R(2, 3), R(2, 3)]], dtype=object)
    k = symarray('K', (3, 3), real=True)
    Ks = np.array([[k[min(i, j), max(i, j)] for j in range(3)] for i in range(3)], dtype=object)
    p_, q_ = sp.Symbol('bm', real=True), sp.Symbol('bxi', real=True)
    bvec = p_ * Q[0] + q_ * Q[2]        # in the slip plane
    T0 = np.array([[R(0), R(1), R(0)], [R(0), R(0), R(1)], [R(1), R(0), R(0)]], dtype=object)     # crystal -> Volterra frame (a proper rotation)

    class Vol(PyStub):
        m, n, ξ = Q[0].copy(), Q[1].copy(), Q[2].copy()
        K_tensor = Ks.copy()
        burgers = bvec.copy()
        transform = T0.copy()

    class Gam(PyStub):
        planenormal = T0.T.dot(Q[1])      # the slip-plane normal in crystal coordinates

    o = SymObj(cls, {}, 'self')
    ev = SymEval(aliases)
    try:
        paths = ev.run_fn(fn, [o], dict(volterra=Vol(), gamma=Gam(), cutofflongrange=sp.Symbol('Lc', positive=True)))
    except Opaque as e:
        raise AnalysisError('SDVPN.__init__: %s' % e)
    done = [p for p in paths if p.done == 'return']
    ctx.ob('PN-INIT', loc, 'a Volterra solution and a gamma surface on the same slip plane are accepted', len(done) == 1, str([(p.done, str(getattr(p, 'exc', ''))[:80]) for p in paths]), node=fn, key='accepted')
    if len(done) != 1:
        return

    def get(name):
        v = o.attrs.get('_SDVPN__' + name, o.attrs.get(name))
        return None if v is None else np.asarray(v, dtype=object)
    Kn, bn, Tn = get('K_tensor'), get('burgers'), get('transform')
    ok = Kn is not None and bn is not None and Tn is not None and Kn.shape == (3, 3) and bn.shape == (3,) and Tn.shape == (3, 3)
    ctx.ob('PN-INIT', loc, 'the solution keeps energy coefficients, Burgers vector and transform', bool(ok), node=fn, key='kept')
    if not ok:
        return
    ctx.ob('PN-INIT', loc, 'the Burgers vector is expressed along [m, n, ξ]: components (b·m, b·n, b·ξ) = (bm, 0, bξ)', equal(bn, np.array([p_, 0, q_], dtype=object), deep=False), 'burgers = %s' % ([str(sp.expand(v)) for v in bn],), node=fn, key='burgers')
    want = Q.dot(Ks.dot(Q.T))
    ctx.ob('PN-INIT', loc, 'the energy-coefficient tensor is rotated into the same frame as the Burgers vector, K\' = R K Rᵀ with R = [m, n, ξ] (so that b·K·b, the prelogarithmic energy, is unchanged)',
           equal(Kn, want, deep=False) and is_zero(sp.expand(bn.dot(Kn.dot(bn)) - bvec.dot(Ks.dot(bvec)))), node=fn, key='K rotated')
    ctx.ob('PN-INIT', loc, 'the transform takes crystal vectors to the [m, n, ξ] frame: R·T, under which the gamma surface\'s plane normal becomes the y axis', equal(Tn, Q.dot(T0), deep=False) and equal(Tn.dot(Gam.planenormal), np.array([0, 1, 0], dtype=object), deep=False),
           node=fn, key='transform')
    # a gamma surface of another plane is refused
    class Gam2(PyStub):
        planenormal = T0.T.dot(Q[0])
    paths = SymEval(aliases).run_fn(fn, [SymObj(cls, {}, 'self')], dict(volterra=Vol(), gamma=Gam2(), cutofflongrange=sp.Integer(1000)))
    ctx.ob('PN-INIT', loc, 'a gamma surface of another plane is refused', not [p for p in paths if p.done == 'return'], node=fn, key='other plane')
    # a Burgers vector out of the slip plane is refused
    class Vol2(Vol):
        burgers = Q[1].copy()
    paths = SymEval(aliases).run_fn(fn, [SymObj(cls, {}, 'self')], dict(volterra=Vol2(), gamma=Gam(), cutofflongrange=sp.Integer(1000)))
    ctx.ob('PN-INIT', loc, 'a Burgers vector out of the slip plane is refused', not [p for p in paths if p.done == 'return'], node=fn, key='out of plane')


def pn_solve(ctx):
    fn = ctx.fn(PN, 'SDVPN.solve')
    loc = PN + '::SDVPN.solve'
    aliases = module_aliases(ctx.mod(PN))
    cls = ctx.fn(PN, 'SDVPN')
    n = 5
    d0 = symarray('d', (n, 3), real=True)
    opt = symarray('z', (2 * (n - 2),), real=True)
    rec = {}

    class Res(PyStub):
        x = opt

    def minimize(f, start, args=(), **kw):
        rec['start'] = np.array(start, dtype=object)
        rec['args'] = args
        rec['kw'] = kw
        # the objective evaluated at a trial vector: which profile does total_energy see?
        rec['trial'] = f.ev.call_fn(f.fn, [opt] + list(args), {}, Path({}), outer_env=f.env) if hasattr(f, 'fn') else None
        return Res()
    seen = []
    obj = SymObj(cls, {'x': arr(list(range(n))), 'disregistry': d0, 'min_method': 'M', 'min_options': {'o': 1}, 'min_kwargs': {'tol': 7},
                       'total_energy': lambda **k: (seen.append(k) or sp.Symbol('Etot'))}, 'self')
    ev = SymEval(aliases)
    ev.globals = {'minimize': minimize}
    try:
        ev.run_fn(fn, [obj], {})
    except Opaque as e:
        raise AnalysisError('SDVPN.solve: %s' % e)
    want_start = np.concatenate([d0[1:-1, 0], d0[1:-1, 2]])
    ctx.ob('PN-SOLVE', loc, 'the optimiser starts from the x and z components of the interior points only', 'start' in rec and equal(rec['start'], want_start, deep=False), node=fn, key='start')
    ok = len(seen) == 1 and list(seen[0]) == ['disregistry']
    if ok:
        tr = np.asarray(seen[0]['disregistry'], dtype=object)
        half = n - 2
        ok = tr.shape == (n, 3) and equal(tr[0], d0[0], deep=False) and equal(tr[-1], d0[-1], deep=False) and equal(tr[1:-1, 0], opt[:half], deep=False) and equal(tr[1:-1, 2], opt[half:], deep=False) \
            and all(v == 0 for v in tr[1:-1, 1])
    ctx.ob('PN-SOLVE', loc, 'every trial profile keeps the first and last disregistry fixed, takes interior x and z components from the optimiser and leaves the y component zero', bool(ok), node=fn, key='trial')
    fin = obj.attrs.get('_SDVPN__disregistry')
    # the setter of `disregistry` is replaced by the attribute here; final assignment lands in attrs
    ok = fin is not None and np.shape(fin) == (n, 3) and equal(np.asarray(fin, dtype=object)[0], d0[0], deep=False) and equal(np.asarray(fin, dtype=object)[-1], d0[-1], deep=False) \
        and equal(np.asarray(fin, dtype=object)[1:-1, 0], opt[:n - 2], deep=False)
    ctx.ob('PN-SOLVE', loc, 'the stored result is recomposed from the optimiser\'s answer with the two end disregistries put back', bool(ok), node=fn, key='final')
    ctx.ob('PN-SOLVE', loc, 'method, options and extra keyword arguments reach the minimiser', rec.get('kw') == {'method': 'M', 'options': {'o': 1}, 'tol': 7}, str(rec.get('kw')), node=fn, key='kwargs')
    paths = SymEval(aliases).run_fn(fn, [SymObj(cls, {'x': arr([0, 1, 2]), 'disregistry': d0}, 'self')], {})
    ctx.ob('PN-SOLVE', loc, 'x and disregistry of different lengths are refused', not [p for p in paths if p.done == 'return'], node=fn, key='length')


def arctan(ctx):
    xs = sp.Symbol('xi', real=True)
    c, w = sp.Symbol('c', real=True), sp.Symbol('w', positive=True)
    b = arr([sp.Symbol('b1', positive=True), sp.Integer(0), sp.Symbol('b3', real=True)])
    aliases = module_aliases(ctx.mod(ADR))
    X = arr([sp.Symbol('xa', real=True), xs, sp.Symbol('xb', real=True)])
    for norm_ in (False, True):
        ev = SymEval(aliases)
        ev.np_override = {'numpy.linalg.norm': lambda v: sp.sqrt(sum(e ** 2 for e in np.ravel(v)))}
        _x, dis = _ret(ev.run_fn(ctx.fn(ADR, 'pn_arctan_disregistry'), [], dict(x=X, burgers=b, center=c, halfwidth=w, normalize=norm_)), 'pn_arctan_disregistry')
        ev2 = SymEval(module_aliases(ctx.mod(ADD)), funcs={'pn_arctan_disregistry': ctx.fn(ADR, 'pn_arctan_disregistry')})
        ev2.np_override = dict(ev.np_override)
        _x2, den = _ret(ev2.run_fn(ctx.fn(ADD, 'pn_arctan_disldensity'), [], dict(x=X, burgers=b, center=c, halfwidth=w, normalize=norm_)), 'pn_arctan_disldensity')
        dis, den = np.asarray(dis, dtype=object), np.asarray(den, dtype=object)
        ok = dis.shape == (3, 3) and den.shape == (3, 3) and all(is_zero(sp.simplify(sp.diff(dis[1, j], xs) - den[1, j])) for j in range(3))
        ctx.ob('ARCTAN', ADD + '::pn_arctan_disldensity', 'normalize=%s: the dislocation density is the x-derivative of the arctangent disregistry (same centre, half-width and normalisation)' % norm_, bool(ok), node=ctx.fn(ADD, 'pn_arctan_disldensity'),
               key='derivative %s' % norm_)
    ev = SymEval(aliases)
    _x, dis = _ret(ev.run_fn(ctx.fn(ADR, 'pn_arctan_disregistry'), [], dict(x=arr([xs]), burgers=b, center=c, halfwidth=w, normalize=False)), 'pn_arctan_disregistry')
    dis = np.asarray(dis, dtype=object)
    lo = [sp.limit(dis[0, j], xs, -sp.oo) for j in range(3)]
    hi = [sp.limit(dis[0, j], xs, sp.oo) for j in range(3)]
    ctx.ob('ARCTAN', ADR + '::pn_arctan_disregistry', 'the un-normalised profile runs from 0 at -∞ to the Burgers vector at +∞ and equals b/2 at the centre', all(is_zero(lo[j]) and is_zero(hi[j] - b[j]) and is_zero(dis[0, j].subs(xs, c) - b[j] / 2) for j in range(3)),
           node=ctx.fn(ADR, 'pn_arctan_disregistry'), key='limits')
    # normalised profile: exactly 0 at the first point and |b| long at the last
    ev = SymEval(aliases)
    ev.np_override = {'numpy.linalg.norm': lambda v: sp.sqrt(sum(e ** 2 for e in np.ravel(v)))}
    _x, dn = _ret(ev.run_fn(ctx.fn(ADR, 'pn_arctan_disregistry'), [], dict(x=X, burgers=b, center=c, halfwidth=w, normalize=True)), 'pn_arctan_disregistry')
    dn = np.asarray(dn, dtype=object)
    ok = all(is_zero(sp.simplify(v)) for v in dn[0]) and is_zero(sp.simplify(sum(v ** 2 for v in dn[-1]) - sum(v ** 2 for v in b)))
    ctx.ob('ARCTAN', ADR + '::pn_arctan_disregistry', 'the normalised profile starts at exactly zero and ends with the length of the Burgers vector', bool(ok), node=ctx.fn(ADR, 'pn_arctan_disregistry'), key='normalised')


def grids(ctx):
    """the point count of a uniform grid requested through (xmax, xstep) is admitted by a tolerant test and made an int by rounding, in both profile functions"""
    lints.tolerant_integer(ctx, 'GRID', ADR, 'pn_arctan_disregistry', floor=1)
    lints.tolerant_integer(ctx, 'GRID', ADD, 'pn_arctan_disldensity', floor=1)


def api(ctx):
    from .. import apicompat
    for rel in (GS, PN):
        issues, stats = apicompat.scan(ctx.mod(rel))
        ctx.ob('API-COMPAT', rel, 'numpy/scipy/pandas calls exist with these keywords in the installed versions (%d calls)' % stats['calls_resolved'], not issues, '; '.join(i.what for i in issues)[:300], file=rel, key='api ' + rel)


def run(ctx):
    ctx.explanation = ('C18: the gamma-surface coordinate conversions are evaluated on a symbolic orthorhombic cell (stored and alternate in-plane vectors, one and several positions) and composed to the identity; '
                       'fit() is evaluated on model sample grids and the interpolation nodes compared with the periodic tiling; E_gsf routing, period reduction and edge blending are evaluated with a symbolic interpolant; '
                       'every Peierls-Nabarro energy term is evaluated on a symbolic five-point profile and compared with its documented formula; the optimiser wiring of solve() is evaluated with a recording minimiser; '
                       'the arctangent pair is differentiated by the CAS. Not decided: interpolation accuracy, energy decrease under minimisation, the classical half-width.')
    # "accepts a position given in fractional, Cartesian or plotting coordinates interchangeably": every coordinate parameter is array-like (lists and tuples included)
    from .. import lints
    ctx.run_rules([gamma_set, gamma_conv, gamma_fit, gamma_egsf, gamma_model, pn_terms, pn_init, pn_solve, arctan, grids, api, lambda c: lints.arraylike(c, 'ARRAY-LIKE', GS, floor=40)])
